#!/bin/bash
# runs every thorough check once, sequentially; prints one summary line per check (development aid)
for i in ${@:-01 02 03 04 05 06 07 08 09 10 11 12 13 14 15 16 17 18 19 20}; do
  s=$(date +%s); /verif/run.sh C$i thorough > /tmp/t_C$i.log 2>&1; rc=$?
  echo "C$i rc=$rc $(( $(date +%s)-s ))s viol=$(grep -c '^VIOLATION' /tmp/t_C$i.log) known=$(grep -c '^KNOWN-FINDING' /tmp/t_C$i.log) $(tail -n 1 /tmp/t_C$i.log | grep -o 'exhaustive=[a-z]*')"
done
