#!/bin/bash
# Offline setup: pre-build the harness so the first check does not pay the cold-cache build.
export GOFLAGS=-mod=mod GOPROXY=off GOSUMDB=off GOTOOLCHAIN=local
export GOCACHE=/verif/.cache/go-build
mkdir -p /verif/.bin /verif/.work /verif/evidence /verif/replays "$GOCACHE"
cd /verif/mc && cp /repo/go.sum go.sum && go build -o /verif/.bin/mc.setup . && rm -f /verif/.bin/mc.setup
