#!/bin/bash
# Offline setup: pre-build the harness so the first check does not pay the cold-cache build.
export GOFLAGS=-mod=mod GOPROXY=off GOSUMDB=off GOTOOLCHAIN=local
export GOCACHE=/verif/.cache/go-build
mkdir -p /verif/.bin /verif/.work /verif/evidence /verif/replays "$GOCACHE"
(cd /verif/tools/genglobals && go build -o /verif/.bin/genglobals .) || exit 1
cd /verif/mc && cp /repo/go.sum go.sum || exit 1
/verif/.bin/genglobals /repo /verif/.work/setup.ov || exit 1
go build -tags verifoverlay -overlay /verif/.work/setup.ov/overlay.json -o /verif/.bin/mc.setup . && go build -o /verif/.bin/mc.setup . && rm -rf /verif/.bin/mc.setup /verif/.work/setup.ov
