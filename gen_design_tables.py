#!/usr/bin/env python3
"""Regenerates the tables of DESIGN.md §13.2 (fixes), §13.3 (known findings) and §13.5 (seeded defects)
from known_findings.jsonl and seeded/*/meta.json, between <!-- BEGIN x --> / <!-- END x --> markers."""
import json, glob, os, re, subprocess
D = '/verif/DESIGN.md'
s = open(D).read()
fixed, known = [], []
for l in open('/verif/known_findings.jsonl'):
    l = l.strip()
    if not l: continue
    e = json.loads(l)
    (fixed if e['status'] == 'fixed' else known).append(e)
def esc(t): return t.replace('|', '\\|').replace('\n', ' ')
order = {h.strip(): i for i, h in enumerate(subprocess.run(['git', '-C', '/repo', 'log', '--reverse', '--format=%h'], capture_output=True, text=True).stdout.split())}
fixed.sort(key=lambda e: (e['property'], order.get(e.get('commit', ''), 999)))
t2 = '| property | commit | what failed |\n|---|---|---|\n'
for e in fixed:
    line = e.get('line', '')
    m = re.match(r'fixed: property=\S+ \S+ (.*)', line)
    t2 += '| %s | %s | %s |\n' % (e['property'], e.get('commit', ''), esc(m.group(1) if m else e['what']))
t3 = '| property | call site (check\'s site id) | what fails, and why it is recorded rather than repaired |\n|---|---|---|\n'
for e in known:
    t3 += '| %s | `%s` | %s |\n' % (e['property'], e['site'], esc(e['what']))
rows = []
caught_first = missed_first = 0
for d in sorted(glob.glob('/verif/seeded/C???')):
    m = json.load(open(d + '/meta.json'))
    name = os.path.basename(d)
    cb = m.get('caught_by') or []
    rows.append('| %s | %s | %s | %s | %s |' % (name, m['property'], ', '.join(m.get('files_changed') or []), esc((m.get('needs') or '')[:170]), ', '.join(cb) if cb else '**not caught**'))
t5 = '| seed | property | file(s) changed | needs | caught by |\n|---|---|---|---|---|\n' + '\n'.join(rows) + '\n'
for key, tab in (('FIXES', t2), ('KNOWN', t3), ('SEEDS', t5)):
    b, e = '<!-- BEGIN %s -->' % key, '<!-- END %s -->' % key
    i, j = s.index(b) + len(b), s.index(e)
    s = s[:i] + '\n' + tab + s[j:]
open(D, 'w').write(s)
print(len(fixed), 'fixes', len(known), 'known', len(rows), 'seeds')
