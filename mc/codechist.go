package main

// History families for the codecs (C15, C16, C17).  Encoders and decoders are functions of
// their input; pooled buffers, adaptive limits and memo tables make them functions of the calls
// made earlier in the process.  Alphabets: encodes that succeed; encodes that are rejected
// before anything was written (top-level mark) and AFTER part of the output was written (a
// marked / unknown / infinite / capsule member in a non-first position); decodes that succeed,
// including one of a long collection (2^20 members); decodes rejected at the first byte and
// after a valid prefix; hostile length headers.  Oracles: the round trip law on the last call,
// the allocation bound of C17 on every decode, and agreement with the same call's outcome from
// the initial state.

import (
	"bytes"
	"fmt"

	"github.com/zclconf/go-cty/cty"
	ctyjson "github.com/zclconf/go-cty/cty/json"
	ctymsgpack "github.com/zclconf/go-cty/cty/msgpack"
)

type codecSample struct {
	v  cty.Value
	ty cty.Type
}

func codecHistSamples(unknowns bool) []codecSample {
	s, n := cty.StringVal("a"), cty.NumberIntVal(1)
	obj := cty.ObjectVal(map[string]cty.Value{"a": s, "b": cty.ListVal([]cty.Value{n, cty.NumberFloatVal(2.5)}), "c": cty.True})
	out := []codecSample{
		{s, cty.String}, {n, cty.Number}, {cty.NullVal(cty.String), cty.String}, {obj, obj.Type()}, {obj, cty.DynamicPseudoType},
		{cty.ListVal([]cty.Value{s, cty.StringVal("b")}), cty.List(cty.String)}, {cty.ListVal([]cty.Value{s, cty.StringVal("b")}), cty.List(cty.DynamicPseudoType)},
		{cty.MapVal(map[string]cty.Value{"k": n, "l": cty.NumberIntVal(2)}), cty.Map(cty.Number)},
		{cty.TupleVal([]cty.Value{s, n, cty.NullVal(cty.Bool)}), cty.DynamicPseudoType},
		{cty.SetVal([]cty.Value{s, cty.StringVal("b")}), cty.Set(cty.String)},
		{cty.StringVal(string(bytes.Repeat([]byte("long "), 60))), cty.String},
		{parseNum("18446744073709551616"), cty.Number}, {parseNum("0.1"), cty.DynamicPseudoType},
	}
	if unknowns {
		out = append(out,
			codecSample{cty.UnknownVal(cty.String), cty.String},
			codecSample{cty.UnknownVal(cty.String).Refine().NotNull().StringPrefixFull("pre").NewValue(), cty.String},
			codecSample{cty.UnknownVal(cty.Number).Refine().NotNull().NumberRangeLowerBound(cty.Zero, true).NumberRangeUpperBound(cty.NumberIntVal(9), false).NewValue(), cty.Number},
			codecSample{cty.UnknownVal(cty.List(cty.String)).Refine().CollectionLengthLowerBound(1).CollectionLengthUpperBound(3).NewValue(), cty.List(cty.String)},
			codecSample{cty.ListVal([]cty.Value{s, cty.UnknownVal(cty.String).RefineNotNull()}), cty.List(cty.String)},
			codecSample{cty.DynamicVal, cty.DynamicPseudoType},
			codecSample{cty.ObjectVal(map[string]cty.Value{"a": s, "b": cty.UnknownVal(cty.Number).RefineNotNull()}), cty.DynamicPseudoType},
		)
	}
	return out
}

// codecRejected: values an encoder must refuse, refused early and refused after output
func codecRejected(json bool) []codecSample {
	s, n := cty.StringVal("first member is fine"), cty.NumberIntVal(1)
	var bad []cty.Value
	bad = append(bad, s.Mark(markM1))
	if json {
		bad = append(bad, cty.UnknownVal(cty.String), cty.PositiveInfinity)
	} else {
		// (JSON encodes a capsule through encoding/json, by documented design)
		bad = append(bad, cty.CapsuleVal(capsTypes[0], &capsNative{1}))
	}
	var out []codecSample
	for _, b := range bad {
		wrap := []cty.Value{
			b,
			cty.TupleVal([]cty.Value{s, n, b}),
			cty.TupleVal([]cty.Value{b, s}),
			cty.ObjectVal(map[string]cty.Value{"a": s, "b": cty.TupleVal([]cty.Value{n, b}), "c": s}),
			cty.ListVal([]cty.Value{cty.TupleVal([]cty.Value{s, n}), cty.TupleVal([]cty.Value{s, n})}).Mark(markM2),
		}
		if b.Type() == cty.String {
			wrap = append(wrap, cty.ListVal([]cty.Value{s, cty.StringVal("second"), b}), cty.MapVal(map[string]cty.Value{"a": s, "z": b}))
		}
		for _, w := range wrap {
			out = append(out, codecSample{w, w.Type()}, codecSample{w, cty.DynamicPseudoType})
		}
	}
	return out
}

func allocJudge(delta uint64, inLen int) string {
	if limit := uint64(16<<20 + 1024*inLen); delta > limit {
		return fmt.Sprintf("the call allocated %d bytes for a %d-byte input (bound %d)", delta, inLen, limit)
	}
	return ""
}

func msgpackHistoryOps() []histOp {
	var ops []histOp
	for _, cs := range codecHistSamples(true) {
		cs := cs
		var why string
		ops = append(ops, histOp{
			desc: fmt.Sprintf("msgpack round trip of %s against %#v", goStr(cs.v), cs.ty),
			run: func() string {
				why = ""
				b, v2, stage, err, pan := msgpackRoundTrip(cs.v, cs.ty)
				if pan != "" || err != nil {
					why = fmt.Sprintf("%s failed: %v %s", stage, err, pan)
					return why
				}
				if w := c16Same(cs.v, v2, ""); w != "" && !losesNestedType(cs.v, tsOf(cs.ty)) {
					why = "decoded as " + goStr(v2) + ": " + w
				}
				return fmt.Sprintf("%x -> %s", b, goStr(v2))
			},
			oracle: func(string) string { return why },
		})
	}
	for _, cs := range codecRejected(false) {
		cs := cs
		ops = append(ops, histOp{
			desc:       fmt.Sprintf("msgpack.Marshal(%s, %#v), to be refused", goStr(cs.v), cs.ty),
			perturbing: true,
			run: func() string {
				b, _, stage, err, pan := msgpackRoundTrip(cs.v, cs.ty)
				if pan != "" {
					return "panic"
				}
				if err != nil && stage == "marshal" {
					return "refused"
				}
				return fmt.Sprintf("accepted: %x", b)
			},
			oracle: func(out string) string {
				if out != "refused" {
					return "a marked or capsule value must be refused with an error"
				}
				return ""
			},
		})
	}
	return ops
}

func jsonHistoryOps() []histOp {
	var ops []histOp
	for _, cs := range codecHistSamples(false) {
		cs := cs
		var why string
		ops = append(ops, histOp{
			desc: fmt.Sprintf("json round trip of %s against %#v", goStr(cs.v), cs.ty),
			run: func() string {
				why = ""
				b, err, pan := jsonCall(func() ([]byte, error) { return ctyjson.Marshal(cs.v, cs.ty) })
				if pan != "" || err != nil {
					why = fmt.Sprintf("Marshal failed: %v %s", err, pan)
					return why
				}
				v2, err, pan := jsonUnm(func() (cty.Value, error) { return ctyjson.Unmarshal(b, cs.ty) })
				if pan != "" || err != nil {
					why = fmt.Sprintf("Unmarshal of %s failed: %v %s", b, err, pan)
					return why
				}
				if w := c16Same(cs.v, v2, ""); w != "" && !losesNestedType(cs.v, tsOf(cs.ty)) {
					why = "decoded as " + goStr(v2) + ": " + w
				}
				return string(b) + " -> " + goStr(v2)
			},
			oracle: func(string) string { return why },
		})
	}
	for _, cs := range codecRejected(true) {
		cs := cs
		ops = append(ops, histOp{
			desc:       fmt.Sprintf("json.Marshal(%s, %#v), to be refused", goStr(cs.v), cs.ty),
			perturbing: true,
			run: func() string {
				b, err, pan := jsonCall(func() ([]byte, error) { return ctyjson.Marshal(cs.v, cs.ty) })
				if pan != "" {
					return "panic"
				}
				if err != nil {
					return "refused"
				}
				return "accepted: " + string(b)
			},
			oracle: func(out string) string {
				if out != "refused" {
					return "a value JSON cannot represent must be refused with an error"
				}
				return ""
			},
		})
	}
	// type descriptions
	tys := []cty.Type{cty.String, cty.List(cty.Number), cty.Object(map[string]cty.Type{"a": cty.String, "b": cty.Tuple([]cty.Type{cty.Bool, cty.DynamicPseudoType})}),
		cty.ObjectWithOptionalAttrs(map[string]cty.Type{"a": cty.String, "b": cty.Map(cty.Number)}, []string{"b"}), cty.Tuple([]cty.Type{cty.Set(cty.String), cty.EmptyObject})}
	for _, ty := range tys {
		ty := ty
		var why string
		ops = append(ops, histOp{
			desc: fmt.Sprintf("type round trip of %#v", ty),
			run: func() string {
				why = ""
				b, err := ctyjson.MarshalType(ty)
				if err != nil {
					why = "MarshalType failed: " + err.Error()
					return why
				}
				t2, err := ctyjson.UnmarshalType(b)
				if err != nil {
					why = "UnmarshalType failed: " + err.Error()
					return why
				}
				if !t2.Equals(ty) {
					why = fmt.Sprintf("decoded as %#v", t2)
				}
				return string(b)
			},
			oracle: func(string) string { return why },
		})
	}
	return ops
}

// decodeHistoryOps: decoder calls with the allocation bound as their oracle.
func decodeHistoryOps(format string) []histOp {
	var ops []histOp
	type in struct {
		name string
		b    []byte
		ty   cty.Type
		big  bool
	}
	var ins []in
	be32 := func(n uint32) []byte { return []byte{byte(n >> 24), byte(n >> 16), byte(n >> 8), byte(n)} }
	if format == "msgpack" {
		const N = 1 << 20
		bigList := append(append([]byte{0xdd}, be32(N)...), bytes.Repeat([]byte{0xc0}, N)...)
		bigMap := append([]byte{0xdf}, be32(1<<16)...)
		for i := 0; i < 1<<16; i++ {
			bigMap = append(bigMap, 0xa3, byte('a'+i>>12&15), byte('a'+i>>6&63), byte('0'+i&63), 0xc0)
		}
		ins = append(ins,
			in{"a list of 2^20 nulls", bigList, cty.List(cty.String), true},
			in{"a map of 2^16 entries", bigMap, cty.Map(cty.String), true},
		)
		for _, n := range []uint32{1025, 1 << 16, 1 << 20, 1<<20 + 1, 1 << 24, 1<<31 - 1} {
			for _, code := range []byte{0xdd, 0xdf} {
				hdr := append([]byte{code}, be32(n)...)
				for _, ty := range []cty.Type{cty.List(cty.String), cty.Set(cty.String), cty.Map(cty.String), cty.DynamicPseudoType, cty.NilType} {
					ins = append(ins, in{fmt.Sprintf("a bare header %02x claiming %d members", code, n), hdr, ty, false})
				}
				ins = append(ins, in{fmt.Sprintf("a header %02x claiming %d members and one member", code, n), append(append([]byte(nil), hdr...), 0xa1, 'k', 0xc0), cty.List(cty.String), false})
				ins = append(ins, in{fmt.Sprintf("a header %02x claiming %d members and one member", code, n), append(append([]byte(nil), hdr...), 0xa1, 'k', 0xc0), cty.Map(cty.String), false})
			}
		}
		for _, cs := range codecHistSamples(true) {
			if b, err := ctymsgpack.Marshal(cs.v, cs.ty); err == nil {
				ins = append(ins, in{"the encoding of " + goStr(cs.v), b, cs.ty, false})
				if len(b) > 2 {
					ins = append(ins, in{"the truncated encoding of " + goStr(cs.v), b[:len(b)-1], cs.ty, false})
				}
			}
		}
	} else {
		const N = 1 << 16
		bigList := append(append([]byte("["), bytes.Repeat([]byte("null,"), N)...), []byte("null]")...)
		ins = append(ins, in{"an array of 2^16 nulls", bigList, cty.List(cty.String), true}, in{"an array of 2^16 nulls (implied type)", bigList, cty.NilType, true})
		for _, cs := range codecHistSamples(false) {
			if b, err := ctyjson.Marshal(cs.v, cs.ty); err == nil {
				ins = append(ins, in{"the encoding of " + goStr(cs.v), b, cs.ty, false})
				if len(b) > 2 {
					ins = append(ins, in{"the truncated encoding of " + goStr(cs.v), b[:len(b)-1], cs.ty, false})
				}
			}
		}
		for _, d := range []string{`[1,2,`, `{"a":1,"a":[`, `[[[[[[`, `{"value":1,"type":"number"`, `[1,"a",{"b":null}]`} {
			ins = append(ins, in{"the document " + d, []byte(d), cty.DynamicPseudoType, false}, in{"the document " + d, []byte(d), cty.NilType, false})
		}
	}
	for _, x := range ins {
		x := x
		var delta uint64
		ops = append(ops, histOp{
			desc:       fmt.Sprintf("%s decode of %s (%d bytes) against %#v", format, x.name, len(x.b), x.ty),
			perturbing: x.big,
			firstOnly:  x.big,
			run: func() string {
				before := heapAllocs()
				out := func() (s string) {
					defer func() {
						if r := recover(); r != nil {
							s = "panic: " + trunc(fmt.Sprint(r), 100)
						}
					}()
					var v cty.Value
					var t cty.Type
					var err error
					switch {
					case format == "msgpack" && x.ty == cty.NilType:
						t, err = ctymsgpack.ImpliedType(x.b)
					case format == "msgpack":
						v, err = ctymsgpack.Unmarshal(x.b, x.ty)
					case x.ty == cty.NilType:
						t, err = ctyjson.ImpliedType(x.b)
					default:
						v, err = ctyjson.Unmarshal(x.b, x.ty)
					}
					if err != nil {
						return "error"
					}
					if x.big {
						return "accepted"
					}
					if x.ty == cty.NilType {
						return tsOf(t).Canon()
					}
					return goStr(v)
				}()
				delta = heapAllocs() - before
				return out
			},
			oracle: func(out string) string {
				if len(out) > 5 && out[:5] == "panic" {
					return "the decoder panicked"
				}
				return allocJudge(delta, len(x.b))
			},
		})
	}
	return ops
}
