package main

// C20, width layer ("purity sweep"): the history search of c20.go is deep but narrow (one pool,
// ~90 operations).  This layer is shallow but wide: every operation method on the C01 operand
// tuples, every (value, target) conversion of the C08 universe, every stdlib function on its
// seed argument lists (Call, ReturnType, ReturnTypeForValues) and every Unify of the C09 core
// is evaluated in a forward pass, then again in REVERSE order.  The statement says every
// operation is a pure function of its operands (repeating a call on the same values yields an
// equal result), so the two passes must agree case by case, and no pass may leave a
// package-level variable changed.  A cache keyed too coarsely, a memo table filled with the
// first caller's answer, a scratch object that carries state from one call to the next: each
// makes some case see a different predecessor in the two passes.

import (
	"fmt"
	"sort"
	"strings"

	"github.com/zclconf/go-cty/cty"
	"github.com/zclconf/go-cty/cty/convert"
)

type pureCase struct {
	desc string
	run  func() string
}

func pureOutcome(f func() string) (s string) {
	defer func() {
		if r := recover(); r != nil {
			s = "panic"
		}
	}()
	return f()
}

// pureSweep runs the cases forwards and backwards and reports every case whose two outcomes
// differ, and every package-level variable that differs afterwards.
func pureSweep(u *U, family string, cases []pureCase) {
	gBefore := fingerprintGlobals()
	first := make([]string, len(cases))
	for i, c := range cases {
		first[i] = pureOutcome(c.run)
	}
	u.Eval(len(cases))
	for i := len(cases) - 1; i >= 0; i-- {
		u.Eval(1)
		u.DistinctN(1)
		if again := pureOutcome(cases[i].run); again != first[i] {
			// error texts may list attributes in map order: compare a second time before reporting
			if third := pureOutcome(cases[i].run); third != first[i] && !onlyMapOrder(first[i], again) {
				u.Violation("purity.result-depends-on-history", family, fmt.Sprintf("%s gave %s in a forward pass over %d cases of this family and %s when the same cases were evaluated in reverse order", cases[i].desc, trunc(first[i], 300), len(cases), trunc(again, 300)))
			}
		}
	}
	u.Class("purity-family-swept")
	gAfter := fingerprintGlobals()
	names := make([]string, 0, len(gBefore))
	for n := range gBefore {
		names = append(names, n)
	}
	sort.Strings(names)
	for _, n := range names {
		if gBefore[n] != gAfter[n] {
			if pkg := strings.SplitN(n, ".", 2)[0]; pkgHasSyncVars(pkg) {
				u.Class("global-write-in-package-with-synchronisation-objects")
				continue
			}
			u.Violation("purity.writes-package-variable", family+" -> "+n, fmt.Sprintf("evaluating the %d cases of family %s changed package-level variable %s (the package has no synchronisation object that could protect it)", len(cases), family, n))
		}
	}
}

// onlyMapOrder: two outcome strings that are permutations of one another at word level (error
// messages that enumerate attributes or keys in Go map order).
func onlyMapOrder(a, b string) bool {
	fa, fb := strings.FieldsFunc(a, func(r rune) bool { return r == ' ' || r == ',' || r == ';' }), strings.FieldsFunc(b, func(r rune) bool { return r == ' ' || r == ',' || r == ';' })
	if len(fa) != len(fb) {
		return false
	}
	sort.Strings(fa)
	sort.Strings(fb)
	for i := range fa {
		if fa[i] != fb[i] {
			return false
		}
	}
	return true
}

func outVal(v cty.Value, err error) string {
	if err != nil {
		return "error" // the wording may name members in Go map order; only the outcome class is compared
	}
	return goStr(v)
}

func c20Purity(c *Ctx) {
	// (1) operation methods on the C01 operand tuples, one unit per operation
	byOp := map[string][]opCase{}
	var opOrder []string
	c01Cases(false, func(oc opCase) {
		if _, ok := byOp[oc.op.Name]; !ok {
			opOrder = append(opOrder, oc.op.Name)
		}
		byOp[oc.op.Name] = append(byOp[oc.op.Name], oc)
	})
	for _, name := range opOrder {
		ocs := byOp[name]
		name := name
		c.Unit(func(u *U) {
			limit := 4000
			if c.Thorough {
				limit = 40000
			}
			var cases []pureCase
			for i, oc := range ocs {
				if i >= limit {
					break
				}
				oc := oc
				cases = append(cases, pureCase{name + "(" + argsStr(oc.args) + ")", func() string {
					r, p, msg := callOp(oc.op, oc.args)
					if p {
						_ = msg
						return "rejected"
					}
					return goStr(r)
				}})
			}
			pureSweep(u, "operation "+name, cases)
		})
	}
	// (2) conversions: every (value, target) pair per source type
	for _, s := range c08SourceTypes(false) {
		s := s
		c.Unit(func(u *U) {
			sty := s.Build()
			vals := c08Values(s, false)
			var cases []pureCase
			for _, t := range c08Targets(s) {
				tty := t.Build()
				cases = append(cases, pureCase{"GetConversion(" + s.Canon() + ", " + t.Canon() + ")", func() string {
					a, b := convert.GetConversion(sty, tty), convert.GetConversionUnsafe(sty, tty)
					return fmt.Sprint(a != nil, b != nil)
				}})
				for _, v := range vals {
					v := v
					cases = append(cases, pureCase{"Convert(" + goStr(v) + ", " + t.Canon() + ")", func() string { return outVal(convert.Convert(v, tty)) }})
				}
			}
			pureSweep(u, "conversions from "+s.Canon(), cases)
		})
	}
	// (3) stdlib functions: Call, ReturnTypeForValues and ReturnType on the seed lists
	for _, fn := range stdFns {
		fn := fn
		c.Unit(func(u *U) {
			limit := 400
			if c.Thorough {
				limit = 4000
			}
			var cases []pureCase
			n := 0
			fn.baseLists(false, 3000, func(args []cty.Value) {
				if n >= limit {
					return
				}
				n++
				desc := fn.Name + "(" + argsStr(args) + ")"
				cases = append(cases, pureCase{desc, func() string {
					o := callStd(fn.F, args)
					if o.Panic != "" {
						return "panic"
					}
					return outVal(o.V, o.Err)
				}})
				tys := make([]cty.Type, len(args))
				for i, a := range args {
					tys[i] = a.Type()
				}
				cases = append(cases, pureCase{"ReturnType of " + desc, func() string {
					t := retType(fn.F, tys)
					if t.Panic != "" || t.Err != nil {
						return "rejected"
					}
					return tsOf(t.T).Canon()
				}})
			})
			pureSweep(u, "function "+fn.Name, cases)
		})
	}
	// (4) unification over the C09 core: all ordered pairs, and triples through a sub-core
	c.Unit(func(u *U) {
		core := c09Core(false)
		var cases []pureCase
		add := func(ts ...*TS) {
			tys := make([]cty.Type, len(ts))
			for i, t := range ts {
				tys[i] = t.Build()
			}
			cases = append(cases, pureCase{"Unify(" + typesStr(ts) + ")", func() string {
				return unifySig(callUnify(tys, false)) + " / " + unifySig(callUnify(tys, true))
			}})
		}
		for _, a := range core {
			for _, b := range core {
				add(a, b)
			}
		}
		for i := 0; i < len(core); i += 3 {
			for j := 1; j < len(core); j += 4 {
				for k := 2; k < len(core); k += 5 {
					add(core[i], core[j], core[k])
				}
			}
		}
		pureSweep(u, "unification", cases)
	})
}
