package main

// C06, history clause: a value that was well-formed when it was built stays well-formed (and
// prints the same) whatever is done afterwards with it, with its type, with placeholders of
// its type and with values derived from those.  The retained pool mixes the shapes whose type
// tables are shared between values (tuple and object types obtained from a live value); the
// operations are conversions and the standard-library functions that compute result types from
// argument types (slice, concat, setproduct, coalesce, merge, flatten, reverse, lookup,
// element, zipmap, chunklist, values), applied to pool members, to unknown and null
// placeholders of their types, and to the results of a first such call (depth-2 chains inside
// one operation), through Call and through ReturnTypeForValues.

import (
	"fmt"

	"github.com/zclconf/go-cty/cty"
	"github.com/zclconf/go-cty/cty/convert"
	"github.com/zclconf/go-cty/cty/function"
	"github.com/zclconf/go-cty/cty/function/stdlib"
)

type c06Pool struct {
	vals  []cty.Value
	texts []string
}

func newC06Pool() *c06Pool {
	s, n, b := cty.StringVal("a"), cty.NumberIntVal(1), cty.True
	l := func(vs ...cty.Value) cty.Value { return cty.ListVal(vs) }
	t := func(vs ...cty.Value) cty.Value { return cty.TupleVal(vs) }
	o := func(m map[string]cty.Value) cty.Value { return cty.ObjectVal(m) }
	p := &c06Pool{vals: []cty.Value{
		t(s, n, b),
		t(l(s), t(cty.StringVal("b"), n)), // list and tuple members that unify as lists
		t(cty.MapVal(map[string]cty.Value{"k": s}), o(map[string]cty.Value{"k": s, "j": cty.StringVal("c")})), // map and object members
		t(t(s, n), t(n, s), n),
		o(map[string]cty.Value{"a": s, "b": t(n, b)}),
		l(t(s, n), t(cty.StringVal("z"), cty.NumberIntVal(2))),
		t(n, n, n, n),
		cty.SetVal([]cty.Value{t(s, n)}),
	}}
	// values whose types were computed by the library (element-type slices grown by append,
	// sub-slices of another type's storage): placeholders returned by type-computing functions
	derived := func(f function.Function, args ...cty.Value) {
		if o := callStd(f, args); o.OK() {
			p.vals = append(p.vals, o.V)
		}
	}
	derived(stdlib.ConcatFunc, cty.UnknownVal(p.vals[0].Type()), t(b))
	derived(stdlib.ConcatFunc, t(s, n), cty.UnknownVal(cty.Tuple([]cty.Type{cty.Bool})))
	derived(stdlib.SliceFunc, cty.UnknownVal(p.vals[0].Type()), cty.NumberIntVal(0), cty.NumberIntVal(2))
	derived(stdlib.SliceFunc, cty.UnknownVal(p.vals[6].Type()), cty.NumberIntVal(1), cty.NumberIntVal(3))
	derived(stdlib.MergeFunc, cty.UnknownVal(p.vals[4].Type()), o(map[string]cty.Value{"z": n}))
	derived(stdlib.SetProductFunc, cty.UnknownVal(cty.List(cty.String)), cty.UnknownVal(cty.List(cty.Number)))
	for _, v := range p.vals {
		p.texts = append(p.texts, goStr(v))
	}
	return p
}

func (p *c06Pool) check() string {
	for i, v := range p.vals {
		if why := wf(v); why != "" {
			return fmt.Sprintf("the retained value built as %s is no longer well-formed: %s", p.texts[i], why)
		}
		if now := goStr(v); now != p.texts[i] {
			return fmt.Sprintf("the retained value built as %s now prints %s", p.texts[i], now)
		}
	}
	return ""
}

func c06HistoryOps() []histOp {
	pool := newC06Pool()
	var ops []histOp
	type fn1 struct {
		name string
		f    func(v cty.Value) (cty.Value, bool)
	}
	call := func(f function.Function, args ...cty.Value) (cty.Value, bool) {
		o := callStd(f, args)
		if !o.OK() {
			// the type-only path still runs and may have side effects of its own
			retTypeForValues(f, args)
			return cty.NilVal, false
		}
		return o.V, true
	}
	conv := func(ty cty.Type) func(v cty.Value) (cty.Value, bool) {
		return func(v cty.Value) (cty.Value, bool) {
			r, err, pan := callConv(func() (cty.Value, error) { return convert.Convert(v, ty) })
			return r, err == nil && pan == ""
		}
	}
	zero, one, two := cty.NumberIntVal(0), cty.NumberIntVal(1), cty.NumberIntVal(2)
	tb := cty.TupleVal([]cty.Value{cty.False})
	tss := cty.TupleVal([]cty.Value{cty.StringVal("q"), cty.StringVal("r")})
	first := []fn1{
		{"x", func(v cty.Value) (cty.Value, bool) { return v, true }},
		{"unknown(type of x)", func(v cty.Value) (cty.Value, bool) { return cty.UnknownVal(v.Type()), true }},
		{"null(type of x)", func(v cty.Value) (cty.Value, bool) { return cty.NullVal(v.Type()), true }},
		{"slice(x,0,1)", func(v cty.Value) (cty.Value, bool) { return call(stdlib.SliceFunc, v, zero, one) }},
		{"slice(unknown(type of x),0,1)", func(v cty.Value) (cty.Value, bool) {
			return call(stdlib.SliceFunc, cty.UnknownVal(v.Type()), zero, one)
		}},
		{"slice(unknown(type of x),0,2)", func(v cty.Value) (cty.Value, bool) {
			return call(stdlib.SliceFunc, cty.UnknownVal(v.Type()), zero, two)
		}},
		{"concat(unknown(type of x),(false))", func(v cty.Value) (cty.Value, bool) {
			return call(stdlib.ConcatFunc, cty.UnknownVal(v.Type()), tb)
		}},
		{"x[0]", func(v cty.Value) (cty.Value, bool) { return call(stdlib.ElementFunc, v, zero) }},
	}
	second := []fn1{
		{"Convert(., list(dynamic))", conv(cty.List(cty.DynamicPseudoType))},
		{"Convert(., set(dynamic))", conv(cty.Set(cty.DynamicPseudoType))},
		{"Convert(., map(dynamic))", conv(cty.Map(cty.DynamicPseudoType))},
		{"Convert(., dynamic)", conv(cty.DynamicPseudoType)},
		{"Convert(., list(string))", conv(cty.List(cty.String))},
		{"concat(., (false))", func(v cty.Value) (cty.Value, bool) { return call(stdlib.ConcatFunc, v, tb) }},
		{"concat(., (q,r))", func(v cty.Value) (cty.Value, bool) { return call(stdlib.ConcatFunc, v, tss) }},
		{"concat(., unknown tuple[bool])", func(v cty.Value) (cty.Value, bool) {
			return call(stdlib.ConcatFunc, v, cty.UnknownVal(tb.Type()))
		}},
		{"concat((false), .)", func(v cty.Value) (cty.Value, bool) { return call(stdlib.ConcatFunc, tb, v) }},
		{"setproduct(., (q,r))", func(v cty.Value) (cty.Value, bool) { return call(stdlib.SetProductFunc, v, tss) }},
		{"setproduct(.)", func(v cty.Value) (cty.Value, bool) { return call(stdlib.SetProductFunc, v) }},
		{"coalesce(., (q,r))", func(v cty.Value) (cty.Value, bool) { return call(stdlib.CoalesceFunc, v, tss) }},
		{"coalescelist(., (q,r))", func(v cty.Value) (cty.Value, bool) { return call(stdlib.CoalesceListFunc, v, tss) }},
		{"flatten(.)", func(v cty.Value) (cty.Value, bool) { return call(stdlib.FlattenFunc, v) }},
		{"reverse(.)", func(v cty.Value) (cty.Value, bool) { return call(stdlib.ReverseListFunc, v) }},
		{"merge(., {z=1})", func(v cty.Value) (cty.Value, bool) {
			return call(stdlib.MergeFunc, v, cty.ObjectVal(map[string]cty.Value{"z": one}))
		}},
		{"values(.)", func(v cty.Value) (cty.Value, bool) { return call(stdlib.ValuesFunc, v) }},
		{"zipmap((q,r), .)", func(v cty.Value) (cty.Value, bool) { return call(stdlib.ZipmapFunc, tss, v) }},
		{"chunklist(., 2)", func(v cty.Value) (cty.Value, bool) { return call(stdlib.ChunklistFunc, v, two) }},
		{"distinct(.)", func(v cty.Value) (cty.Value, bool) { return call(stdlib.DistinctFunc, v) }},
		{"jsonencode(.)", func(v cty.Value) (cty.Value, bool) { return call(stdlib.JSONEncodeFunc, v) }},
		{"Unify(type of ., list(string))", func(v cty.Value) (cty.Value, bool) {
			func() {
				defer func() { recover() }()
				convert.UnifyUnsafe([]cty.Type{v.Type(), cty.List(cty.String)})
				if v.Type().IsTupleType() {
					convert.UnifyUnsafe(v.Type().TupleElementTypes())
				}
			}()
			return v, true
		}},
	}
	for i := range pool.vals {
		i := i
		for _, g := range first {
			g := g
			for _, f := range second {
				f := f
				desc := fmt.Sprintf("%s of %s with x = retained value %d (%s)", f.name, g.name, i, pool.texts[i])
				// the first result of every operation is retained, as a caller would
				var kept cty.Value
				var keptText string
				ops = append(ops, histOp{
					desc: desc,
					run: func() string {
						m, ok := g.f(pool.vals[i])
						if !ok {
							return "first step rejected"
						}
						r, ok := f.f(m)
						if !ok {
							return "rejected"
						}
						if why := wf(r); why != "" {
							return "malformed result " + goStr(r) + ": " + why
						}
						if kept == cty.NilVal {
							kept, keptText = r, goStr(r)
						}
						return goStr(r)
					},
					oracle: func(out string) string {
						if len(out) > 9 && out[:9] == "malformed" {
							return "the call returned a malformed value"
						}
						if kept != cty.NilVal {
							if now := goStr(kept); now != keptText {
								return fmt.Sprintf("the result this call returned earlier and the caller kept, %s, now prints %s", keptText, now)
							}
						}
						return pool.check()
					},
					perturbing: (i < 5 || i >= 8) && (g.name == "slice(unknown(type of x),0,1)" || g.name == "unknown(type of x)" || g.name == "x") &&
						(f.name == "concat(., (false))" || f.name == "Convert(., list(dynamic))" || f.name == "setproduct(., (q,r))" || f.name == "concat(., unknown tuple[bool])"),
				})
			}
		}
	}
	return ops
}
