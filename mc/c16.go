package main

import (
	"fmt"
	"math"
	"math/big"
	"strings"

	"github.com/zclconf/go-cty/cty"
	ctymsgpack "github.com/zclconf/go-cty/cty/msgpack"
)

func init() {
	register(&Check{
		ID:    "C16",
		Level: "exploration",
		Rule: "every unmarked capsule-free value of the bounded universe (all kinds, nulls at any depth, the full number alphabet incl. infinities) and every value obtained from it by replacing one position (root or nested, depth<=2; thorough: two positions) by an unknown from a per-type refinement alphabet (unrefined, not-null, numeric bounds at int64/uint64 limits, beyond them, fractional and 512-bit decimals, inclusive and exclusive; string prefixes incl. lengths 250..300 bytes with 1-4-byte runes at the encoder's cut; length bounds), or by DynamicVal where the position allows it, " +
			"x every constraint obtained by replacing any antichain of sub-types by the dynamic placeholder: Marshal/Unmarshal round trip; marked values (any depth) are rejected with an error; distinct by value GoString x constraint; non-trivial = every case",
		Assumptions: []string{
			"range inclusion of decoded unknowns in the originals is decided structurally on the public Range accessors (nullness, bounds with inclusiveness, byte prefix, length interval)",
			"whole numbers and numbers exactly representable as float64 must come back with Cmp == 0; other numbers must be RawEquals",
		},
		Run: runC16,
	})
}

// unknownAlphabet returns unknown values of type ty in every refinement
// class the encoder distinguishes.
func unknownAlphabet(ty cty.Type, thorough bool) []cty.Value {
	out := []cty.Value{cty.UnknownVal(ty)}
	add := func(f func() cty.Value) {
		if v, ok := safeRefine(f); ok && !v.IsKnown() {
			out = append(out, v)
		}
	}
	if ty == cty.DynamicPseudoType {
		return out
	}
	add(func() cty.Value { return cty.UnknownVal(ty).RefineNotNull() })
	switch {
	case ty == cty.Number:
		bounds := []cty.Value{
			cty.Zero, cty.NumberIntVal(-1), cty.NumberIntVal(math.MaxInt64), cty.NumberIntVal(math.MinInt64), cty.NumberUIntVal(1 << 63), cty.NumberUIntVal(math.MaxUint64),
			parseNum("18446744073709551617"), cty.NumberFloatVal(0.5), parseNum("0.1"), cty.NumberFloatVal(0.1), parseNum("1e30"), parseNum("-0.80000000000000000001"),
			// short mantissa, exponent below / at the edge of the float64 range
			cty.NumberVal(new(big.Float).SetMantExp(big.NewFloat(1.5), -1100)), cty.NumberVal(new(big.Float).SetMantExp(big.NewFloat(-1.5), -1100)),
			cty.NumberFloatVal(math.SmallestNonzeroFloat64),
		}
		if thorough {
			bounds = append(bounds, cty.NumberFloatVal(math.MaxFloat32), cty.NumberFloatVal(math.MaxFloat64), parseNum("123456789012345678901234567890.5"), cty.NumberFloatVal(1e-7), bigIntNum(pow2(1024)), cty.NumberIntVal(1<<53+1))
		}
		for _, b := range bounds {
			b := b
			for _, inc := range []bool{true, false} {
				inc := inc
				add(func() cty.Value { return cty.UnknownVal(ty).Refine().NumberRangeLowerBound(b, inc).NewValue() })
				add(func() cty.Value {
					return cty.UnknownVal(ty).Refine().NotNull().NumberRangeUpperBound(b, inc).NewValue()
				})
			}
		}
		add(func() cty.Value {
			return cty.UnknownVal(ty).Refine().NotNull().NumberRangeLowerBound(cty.Zero, false).NumberRangeUpperBound(parseNum("18446744073709551617"), true).NewValue()
		})
		add(func() cty.Value {
			return cty.UnknownVal(ty).Refine().NumberRangeLowerBound(parseNum("0.1"), true).NumberRangeUpperBound(cty.NumberFloatVal(0.5), false).NewValue()
		})
	case ty == cty.String:
		prefixes := []string{"a", "é", "éx", "\U0001F44D\U0001F3FD", "ab-", "\r"}
		fill := []string{"é", "€", "\U0001F44D", "é", "\U0001F468‍\U0001F469"}
		lens := []int{250, 252, 253, 254, 255, 256, 257, 258, 300}
		if thorough {
			lens = []int{248, 249, 250, 251, 252, 253, 254, 255, 256, 257, 258, 259, 260, 299, 300, 511, 1000, 1100}
		}
		for _, n := range lens {
			for _, f := range fill {
				p := strings.Repeat("a", n-4)
				for len(p) < n+8 {
					p += f
				}
				prefixes = append(prefixes, p)
			}
			prefixes = append(prefixes, strings.Repeat("b", n))
		}
		for _, p := range prefixes {
			p := p
			add(func() cty.Value {
				return cty.UnknownVal(ty).Refine().StringPrefixFull(cty.NormalizeString(p)).NewValue()
			})
			add(func() cty.Value { return cty.UnknownVal(ty).Refine().NotNull().StringPrefix(p).NewValue() })
		}
	case ty.IsCollectionType():
		// equal bounds around the sizes at which a decoder may cap what it reserves (64, 1024)
		for _, n := range []int{63, 64, 65, 100, 1023, 1024} {
			n := n
			add(func() cty.Value {
				return cty.UnknownVal(ty).Refine().CollectionLengthLowerBound(n).CollectionLengthUpperBound(n).NewValue()
			})
			add(func() cty.Value {
				return cty.UnknownVal(ty).Refine().CollectionLengthLowerBound(n).CollectionLengthUpperBound(n + 1).NewValue()
			})
		}
		for _, lo := range []int{0, 1, 2} {
			for _, hi := range []int{-1, 0, 1, 3, math.MaxInt32} {
				lo, hi := lo, hi
				for _, nn := range []bool{true, false} {
					nn := nn
					add(func() cty.Value {
						b := cty.UnknownVal(ty).Refine()
						if nn {
							b = b.NotNull()
						}
						if lo > 0 {
							b = b.CollectionLengthLowerBound(lo)
						}
						if hi >= 0 {
							b = b.CollectionLengthUpperBound(hi)
						}
						return b.NewValue()
					})
				}
			}
		}
	}
	return dedupRaw(out)
}

func msgpackRoundTrip(v cty.Value, ct cty.Type) (b []byte, v2 cty.Value, stage string, err error, pan string) {
	defer func() {
		if r := recover(); r != nil {
			pan = fmt.Sprint(r)
		}
	}()
	stage = "marshal"
	b, err = ctymsgpack.Marshal(v, ct)
	if err != nil {
		return
	}
	stage = "unmarshal"
	v2, err = ctymsgpack.Unmarshal(b, ct)
	return
}

// rangeIncludes: does the range of the unknown value a include the range of
// the unknown value b (same type)?  why names the first clause that fails.
func rangeIncludes(a, b cty.Value) (bool, string) {
	ra, rb := a.Range(), b.Range()
	if rb.CouldBeNull() && !ra.CouldBeNull() {
		return false, "decoded value excludes null, the original did not"
	}
	ty := b.Type()
	switch {
	case ty == cty.Number:
		al, ali := ra.NumberLowerBound()
		bl, bli := rb.NumberLowerBound()
		ah, ahi := ra.NumberUpperBound()
		bh, bhi := rb.NumberUpperBound()
		unb := func(v cty.Value, sign int) bool {
			return !v.IsKnown() || v.IsNull() || (isInf(v) && bf(v).Sign() == sign)
		}
		if !unb(al, -1) {
			if unb(bl, -1) {
				return false, "decoded value has a lower bound, the original had none"
			}
			c := numCmpDoc(al, bl)
			if c > 0 || (c == 0 && !ali && bli) {
				return false, fmt.Sprintf("decoded lower bound %#v (inclusive=%v) is narrower than the original %#v (inclusive=%v)", al, ali, bl, bli)
			}
		}
		if !unb(ah, 1) {
			if unb(bh, 1) {
				return false, "decoded value has an upper bound, the original had none"
			}
			c := numCmpDoc(ah, bh)
			if c < 0 || (c == 0 && !ahi && bhi) {
				return false, fmt.Sprintf("decoded upper bound %#v (inclusive=%v) is narrower than the original %#v (inclusive=%v)", ah, ahi, bh, bhi)
			}
		}
	case ty == cty.String:
		if !strings.HasPrefix(rb.StringPrefix(), ra.StringPrefix()) {
			return false, fmt.Sprintf("decoded prefix %+q is not a prefix of the original %+q", ra.StringPrefix(), rb.StringPrefix())
		}
	case ty.IsCollectionType():
		if ra.LengthLowerBound() > rb.LengthLowerBound() || ra.LengthUpperBound() < rb.LengthUpperBound() {
			return false, fmt.Sprintf("decoded length bounds [%d,%d] are narrower than the original [%d,%d]", ra.LengthLowerBound(), ra.LengthUpperBound(), rb.LengthLowerBound(), rb.LengthUpperBound())
		}
	}
	return true, ""
}

// c16Same compares the decoded value with the original.
func c16Same(orig, dec cty.Value, path string) string {
	if !dec.Type().Equals(orig.Type()) {
		return fmt.Sprintf("%s: type %#v, original %#v", path, dec.Type(), orig.Type())
	}
	if dec.IsMarked() {
		return path + ": decoded value is marked"
	}
	if !orig.IsKnown() {
		if dec.IsKnown() {
			return fmt.Sprintf("%s: unknown %s came back known: %s", path, goStr(orig), goStr(dec))
		}
		if ok, why := rangeIncludes(dec, orig); !ok {
			return path + ": " + why
		}
		return ""
	}
	if !dec.IsKnown() {
		return fmt.Sprintf("%s: known value came back unknown", path)
	}
	if orig.IsNull() || dec.IsNull() {
		if orig.IsNull() != dec.IsNull() {
			return path + ": nullness changed"
		}
		return ""
	}
	ty := orig.Type()
	switch {
	case ty == cty.Number:
		of, df := bf(orig), bf(dec)
		exactF64 := false
		if !of.IsInf() {
			_, acc := of.Float64()
			exactF64 = acc == 0
		}
		if of.IsInf() || of.IsInt() || exactF64 {
			if of.Cmp(df) != 0 {
				return fmt.Sprintf("%s: number %s came back as %s (must be numerically identical)", path, of.Text('g', 60), df.Text('g', 60))
			}
			return ""
		}
		if !rawEq(orig, dec) {
			return fmt.Sprintf("%s: number %s came back as %s (not equal)", path, of.Text('g', 60), df.Text('g', 60))
		}
	case ty == cty.String:
		if orig.AsString() != dec.AsString() {
			return fmt.Sprintf("%s: string %+q came back as %+q", path, orig.AsString(), dec.AsString())
		}
	case ty == cty.Bool:
		if orig.True() != dec.True() {
			return path + ": bool changed"
		}
	case ty.IsListType() || ty.IsTupleType():
		oc, dc := children(orig), children(dec)
		if len(oc) != len(dc) {
			return fmt.Sprintf("%s: length %d came back as %d", path, len(oc), len(dc))
		}
		for i := range oc {
			if why := c16Same(oc[i], dc[i], fmt.Sprintf("%s[%d]", path, i)); why != "" {
				return why
			}
		}
	case ty.IsMapType() || ty.IsObjectType():
		om, dm := orig.AsValueMap(), dec.AsValueMap()
		if len(om) != len(dm) {
			return fmt.Sprintf("%s: %d members came back as %d", path, len(om), len(dm))
		}
		for k, ov := range om {
			dv, ok := dm[k]
			if !ok {
				return fmt.Sprintf("%s: key %q missing", path, k)
			}
			if why := c16Same(ov, dv, path+"."+k); why != "" {
				return why
			}
		}
	case ty.IsSetType():
		oc, dc := children(orig), children(dec)
		if len(oc) != len(dc) {
			return fmt.Sprintf("%s: set of %d members came back with %d", path, len(oc), len(dc))
		}
		if len(oc) > 5 {
			return ""
		}
		used := make([]bool, len(dc))
		var match func(i int) bool
		match = func(i int) bool {
			if i == len(oc) {
				return true
			}
			for j := range dc {
				if !used[j] && c16Same(oc[i], dc[j], path) == "" {
					used[j] = true
					if match(i + 1) {
						return true
					}
					used[j] = false
				}
			}
			return false
		}
		if !match(0) {
			return fmt.Sprintf("%s: set members do not correspond: %s vs %s", path, goStr(orig), goStr(dec))
		}
	}
	return ""
}

func c16Case(u *U, v cty.Value, ct *TS) {
	defer tolerateOptFor(v)()
	u.Eval(1)
	u.DistinctN(1)
	desc := func() string { return fmt.Sprintf("value %s against constraint %s", goStr(v), ct.Canon()) }
	shape := shapeOf(v) + " @ " + ct.Canon()
	b, v2, stage, err, pan := msgpackRoundTrip(v, ct.Build())
	if b != nil && pan == "" {
		checkRetained(u, "msgpack.marshal", b, goStr(v))
	}
	if pan != "" {
		u.Violation("msgpack."+stage+"-panics", shape, fmt.Sprintf("%s of %s panicked: %s", stage, desc(), firstLineOf(pan)))
		return
	}
	if err != nil {
		site := "msgpack." + stage + "-fails"
		if stage == "unmarshal" && losesNestedType(v, ct) {
			site += ".null-or-empty-above-placeholder"
		}
		u.Violation(site, shape, fmt.Sprintf("%s of %s failed: %v (bytes %x)", stage, desc(), err, b))
		return
	}
	if why := c16Same(v, v2, ""); why != "" {
		site := "msgpack.roundtrip"
		switch {
		case strings.Contains(why, "type "):
			site = "msgpack.roundtrip-type"
			if losesNestedType(v, ct) {
				site = "msgpack.roundtrip-type.null-or-empty-above-placeholder"
			}
		case strings.Contains(why, "narrower") || strings.Contains(why, "excludes null") || strings.Contains(why, "had none") || strings.Contains(why, "not a prefix"):
			site = "msgpack.roundtrip-narrows"
		case strings.Contains(why, "number "):
			site = "msgpack.roundtrip-number"
		}
		u.Violation(site, shape, fmt.Sprintf("%s: decoded as %s: %s", desc(), goStr(v2), why))
		return
	}
	if why := wf(v2); why != "" {
		u.Violation("msgpack.malformed", shape, fmt.Sprintf("%s: decoded value is malformed: %s", desc(), why))
		return
	}
	if whollyKnownRef(v) {
		u.Class("known-roundtrip-ok")
	} else {
		u.Class("unknown-roundtrip-ok")
	}
	if u.WantSample() {
		u.Sample(map[string]string{"value": goStr(v), "constraint": ct.Canon(), "bytes": fmt.Sprintf("%x", b)})
	}
}

func runC16(c *Ctx) {
	// history clause first, so that each worker process meets it in its initial state
	histFamily(c, "msgpack encoder and decoder calls", msgpackHistoryOps)
	// names and strings that need escaping (shared with C15), also with an unknown member
	for _, hv := range nameHazardValues() {
		hv := hv
		c.Unit(func(u *U) {
			for _, ct := range dynVariants(hv.t, 8) {
				c16Case(u, hv.v, ct)
			}
		})
	}
	// untyped nulls below tuples and objects, hand-built types with optional attributes (shared with C15)
	for _, hv := range untypedNullValues(true) {
		hv := hv
		c.Unit(func(u *U) {
			for _, ct := range dynVariants(hv.t, 16) {
				c16Case(u, hv.v, ct)
			}
		})
	}
	for _, t := range codecTypes(c.Thorough) {
		t := t
		o := defaultValOpts(c.Thorough)
		o.Nums = mkNums(numAlphabet(true))
		o.NestNums = []cty.Value{cty.NumberIntVal(0), cty.NumberFloatVal(2.5), parseNum("0.1"), cty.NumberUIntVal(1 << 63), parseNum("1e30"), cty.PositiveInfinity}
		o.NestStrs = []string{"a", "", "é"}
		o.CapPerTy = 60
		if c.Thorough {
			o.CapPerTy = 400
		}
		vals := codecKnownValues(t, o, true)
		cons := dynVariants(t, 40)
		for lo := 0; lo < len(vals); lo += 4 {
			hi := lo + 4
			if hi > len(vals) {
				hi = len(vals)
			}
			part := vals[lo:hi]
			c.Unit(func(u *U) {
				for _, v := range part {
					if c.Stopped() {
						return
					}
					variants := []cty.Value{v}
					type single struct {
						p Pos
						w cty.Value
					}
					var singles []single
					for _, p := range allPositions(v, 2) {
						x := getAt(v, p)
						ws := unknownAlphabet(x.Type(), c.Thorough)
						if len(p) > 0 {
							ws = append(ws, cty.DynamicVal)
						}
						for _, w := range ws {
							if nv, ok := replaceAt(v, p, w); ok {
								variants = append(variants, nv)
								if len(singles) < 400 {
									singles = append(singles, single{p, w})
								}
							}
						}
					}
					if c.Thorough {
						// two positions: a reduced refinement alphabet per position
						for i, a := range singles {
							if i%7 != 0 {
								continue
							}
							for j, b := range singles {
								if j <= i || j%5 != 0 || isPrefix(a.p, b.p) || isPrefix(b.p, a.p) {
									continue
								}
								nv, ok := replaceAt(v, a.p, a.w)
								if !ok || !stillAddresses(v, nv, b.p) {
									continue
								}
								if nv2, ok := replaceAt(nv, b.p, b.w); ok {
									variants = append(variants, nv2)
								}
							}
						}
					}
					for _, x := range variants {
						xcons := cons
						if !x.Type().Equals(v.Type()) {
							// a DynamicVal member changed the value's type: only the constraints it still conforms to
							xcons = nil
							for _, ct := range cons {
								if refConforms(tsOf(x.Type()), ct) {
									xcons = append(xcons, ct)
								}
							}
						}
						for _, ct := range xcons {
							c16Case(u, x, ct)
						}
					}
				}
			})
		}
	}
	// marked values are rejected
	c.Unit(func(u *U) {
		bad := []cty.Value{
			cty.StringVal("a").Mark(markM1), cty.UnknownVal(cty.String).Mark(markM1), cty.NullVal(cty.Number).Mark(markM2), cty.DynamicVal.Mark(markM1),
			cty.ListVal([]cty.Value{cty.StringVal("a").Mark(markM1)}), cty.ListVal([]cty.Value{cty.StringVal("a")}).Mark(markM2),
			cty.TupleVal([]cty.Value{cty.Zero, cty.UnknownVal(cty.Bool).Mark(markM3)}), cty.ObjectVal(map[string]cty.Value{"a": cty.ListVal([]cty.Value{cty.True.Mark(markM3)})}),
			cty.MapVal(map[string]cty.Value{"k": cty.Zero.Mark(markM1)}), cty.SetVal([]cty.Value{cty.StringVal("s").Mark(markM1)}),
		}
		for _, v := range bad {
			for _, ct := range []cty.Type{v.Type(), cty.DynamicPseudoType} {
				u.Eval(1)
				u.DistinctN(1)
				b, _, stage, err, pan := msgpackRoundTrip(v, ct)
				switch {
				case pan != "":
					u.Violation("msgpack.reject-panics", shapeOf(v), fmt.Sprintf("Marshal(%s, %#v) panicked instead of returning an error: %s", goStr(v), ct, firstLineOf(pan)))
				case err == nil || stage != "marshal":
					u.Violation("msgpack.mis-encodes", shapeOf(v), fmt.Sprintf("Marshal(%s, %#v) = %x although the value is marked", goStr(v), ct, b))
				default:
					u.Class("rejected-as-required")
				}
			}
		}
	})
}
