package main

import (
	"fmt"

	"github.com/zclconf/go-cty/cty"
	ctyjson "github.com/zclconf/go-cty/cty/json"
)

func init() {
	register(&Check{
		ID:    "C07",
		Level: "exploration",
		Rule: "every type of the bounded universe T(d,w) (all kinds, dynamic placeholders, optional-attribute subsets, two capsule types, NFD/NFC attribute spellings) " +
			"and every ordered pair of them is enumerated; each type is built twice through the public constructors; a case is distinct by the canonical strings of the modelled types; " +
			"non-trivial = composite type or pair with at least one composite member",
		Assumptions: []string{
			"reference model = checker-side structural type model (TS) with injective canonical string",
			"types outside the bounded universe (depth > 3, > 2 attributes, tuple width > 2) are not explored",
		},
		Run: runC07,
	})
}

func c07Universe(c *Ctx) []*TS {
	var u []*TS
	if c.Thorough {
		// full T(2,2) without optionals/capsules (8066 types) ...
		u = typeUniverse(2, TypeOpts{Leaves: tsLeaves, Tuples: 2, Attrs: []string{"a", "b"}, MaxObj: 2})
	} else {
		// depth 2 over a reduced alphabet
		u = typeUniverse(2, TypeOpts{Leaves: []*TS{tsStr, tsDyn}, Tuples: 2, Attrs: []string{"a", "b"}, MaxObj: 2})
	}
	// ... plus depth-1 with everything: optionals, capsules, all leaves
	leavesAll := append(append([]*TS(nil), tsLeaves...), tsCaps0, tsCaps1)
	u = append(u, typeUniverse(1, TypeOpts{Leaves: leavesAll, Tuples: 2, Attrs: []string{"a", "b"}, MaxObj: 2, Optional: true})...)
	// ... plus depth-2 optionals over a small alphabet
	optLeaves := []*TS{tsNum}
	if c.Thorough {
		optLeaves = []*TS{tsNum, tsDyn}
	}
	u = append(u, typeUniverse(2, TypeOpts{Leaves: optLeaves, Tuples: 1, Attrs: []string{"a", "b"}, MaxObj: 2, Optional: true})...)
	// ... plus every tuple of width 2 and 3 over the depth-1 optional family (an
	// annotation in a non-final position, several positions, none)
	d1opt := typeUniverse(1, TypeOpts{Leaves: []*TS{tsNum}, Tuples: 1, Attrs: []string{"a", "b"}, MaxObj: 2, Optional: true})
	for _, e1 := range d1opt {
		for _, e2 := range d1opt {
			u = append(u, tTuple(e1, e2))
		}
	}
	d1small := []*TS{tsNum, tObj(ato("a", tsNum)), tObj(at("a", tsNum)), tList(tsNum)}
	for _, e1 := range d1small {
		for _, e2 := range d1small {
			for _, e3 := range d1small {
				u = append(u, tTuple(e1, e2, e3), tList(tTuple(e1, e2, e3)), tObj(at("a", tTuple(e1, e2, e3))))
			}
		}
	}
	// ... plus normalisation cases
	nfd, nfcN := "e\u0301", "\u00e9"
	u = append(u,
		tObj(at(nfd, tsStr)), tObj(at(nfcN, tsStr)), tObj(ato(nfd, tsStr)), tObj(ato(nfcN, tsStr)),
		tObj(at(nfd, tsStr), at("a", tsNum)), tObj(at(nfcN, tsStr), at("a", tsNum)),
		tObj(at("a", tsStr), at("b", tsStr), at("c", tsStr)),
		tObj(at("a", tsStr), at("b", tsStr), ato("c", tsStr)),
		tTuple(tsStr, tsStr, tsStr), tTuple(tsStr, tsStr, tsNum), tTuple(tsStr, tsStr, tsStr, tsStr), tTuple(tsStr, tsStr, tsStr, tsNum),
		tTuple(tsNum, tsStr, tsStr, tsStr), tTuple(tsStr, tsNum, tsStr, tsStr), tTuple(tsStr, tsStr, tsNum, tsStr),
	)
	// ... canonically equivalent spellings that hold no combining mark: conjoining Hangul jamo vs
	// the precomposed syllable, singleton decompositions (ohm, angstrom, kelvin signs), a CJK
	// compatibility ideograph
	for _, pair := range [][2]string{{"\u1112\u1161\u11ab", "\ud55c"}, {"\u2126", "\u03a9"}, {"\u212b", "\u00c5"}, {"\u212a", "K"}, {"\uf900", "\u8c48"}, {"x\u2126y", "x\u03a9y"}} {
		for _, n := range pair {
			u = append(u, tObj(at(n, tsStr)), tObj(ato(n, tsStr)), tObj(at(n, tsStr), at("a", tsNum)), tList(tObj(at(n, tsNum))))
		}
	}
	// ... plus attribute names that need care when written as text: quotes, backslashes,
	// control characters, DEL, line separators, characters beyond the BMP, the last BMP code
	// points, an empty name
	for _, n := range []string{"", "a\"b", "back\\slash", "tab\there", "bell\a", "nul\x00", "del\x7f", "ls\u2028ps\u2029", "\U0001F600", "x\U0001F44D\U0001F3FDy", "\uffff", "\ufffd", "\U0010FFFF", "</script>", "a b", "\u00e9\U0001D11E"} {
		u = append(u, tObj(at(n, tsStr)), tObj(ato(n, tsNum), at("a", tsStr)), tList(tObj(at(n, tsDyn))), tTuple(tsStr, tObj(ato(n, tsStr))))
	}
	// de-duplicate by canonical string, keep first (simplest-first order);
	// NFD/NFC spellings of the same type are deliberately kept apart by spelling.
	seen := map[string]bool{}
	var out []*TS
	for _, t := range u {
		k := t.Canon() + "|" + spelling(t)
		if !seen[k] {
			seen[k] = true
			out = append(out, t)
		}
	}
	return out
}

func spelling(t *TS) string {
	s := ""
	if t.K == 'O' {
		for _, a := range t.Attrs {
			s += a.Name + ","
		}
	}
	return s
}

func runC07(c *Ctx) {
	u := c07Universe(c)
	c.Note("universe_types", fmt.Sprint(len(u)))
	built := make([]cty.Type, len(u))
	built2 := make([]cty.Type, len(u))
	canon := make([]string, len(u))
	canonNO := make([]string, len(u))
	for i, t := range u {
		built[i] = t.Build()
		built2[i] = t.BuildAlt()
		canon[i] = t.Canon()
		canonNO[i] = t.CanonNoOpt()
	}
	// per-type checks
	for i := range u {
		i := i
		c.Unit(func(un *U) {
			t := u[i]
			ty := built[i]
			un.Eval(1)
			if t.Depth() > 0 {
				un.Distinct("T:" + canon[i])
			}
			c07TypeChecks(un, t, ty, built2[i], canon[i], canonNO[i])
			if un.WantSample() {
				un.Sample(map[string]string{"type": ty.GoString(), "model": canon[i]})
			}
		})
	}
	// pairs: one unit per row
	for i := range u {
		i := i
		c.Unit(func(un *U) {
			a := built[i]
			for j := range u {
				b := built2[j]
				un.Eval(1)
				if u[i].Depth() > 0 || u[j].Depth() > 0 {
					un.DistinctN(1) // the universe is de-duplicated, so ordered pairs are distinct by construction
				}
				pairCheck(un, u[i], u[j], a, b, canon[i], canon[j])
			}
			if un.WantSample() {
				un.Sample(map[string]string{"pair_row": a.GoString(), "against": fmt.Sprintf("%d types", len(u))})
			}
		})
	}
	// single-position mutants of a depth-3 family
	fam := c07DeepFamily()
	for fi := range fam {
		fi := fi
		c.Unit(func(un *U) {
			base := fam[fi]
			bt := base.Build()
			bc := base.Canon()
			n := countPos(base)
			alts := []*TS{tsBool, tsNum, tsStr, tsDyn, tList(tsStr), tSet(tsStr), tMap(tsStr), tTuple(), tTuple(tsStr), tObj(), tObj(at("a", tsStr)), tObj(ato("a", tsStr)), tsCaps0}
			for p := 0; p < n; p++ {
				for _, alt := range alts {
					k := p
					m := replacePos(base, &k, alt)
					mt := m.Build()
					un.Eval(1)
					un.DistinctH(hash64(bc) ^ (hash64(m.Canon()) * 1099511628211))
					pairCheck(un, base, m, bt, mt, bc, m.Canon())
					pairCheck(un, m, base, mt, bt, m.Canon(), bc)
					c07TypeChecks(un, m, mt, m.Build(), m.Canon(), m.CanonNoOpt())
				}
			}
			// toggling one optional marker / flipping one attr name
			togs := toggleOpts(base)
			for _, m := range togs {
				mt := m.Build()
				un.Eval(1)
				pairCheck(un, base, m, bt, mt, bc, m.Canon())
				pairCheck(un, m, base, mt, bt, m.Canon(), bc)
				c07TypeChecks(un, m, mt, m.Build(), m.Canon(), m.CanonNoOpt())
			}
		})
	}
	c07Aliased(c, u)
}

// c07Aliased builds types whose constructor arguments share storage (prefixes of one
// element-type array given to cty.Tuple, one attribute map given to cty.Object and to
// cty.ObjectWithOptionalAttrs with every optional subset, element types obtained from
// another type's accessors) and compares every pair with the structural model: sharing
// read-only storage between types is legitimate use and must be unobservable.
func c07Aliased(c *Ctx, u []*TS) {
	for i := range u {
		t := u[i]
		if !((t.K == 'T' && len(t.Elems) > 0) || (t.K == 'O' && len(t.Attrs) > 0)) {
			continue
		}
		c.Unit(func(un *U) {
			var ms []*TS
			var ts []cty.Type
			switch t.K {
			case 'T':
				arr := make([]cty.Type, len(t.Elems))
				for k, e := range t.Elems {
					arr[k] = e.Build()
				}
				for k := 0; k <= len(arr); k++ {
					ms = append(ms, tTuple(t.Elems[:k]...))
					ts = append(ts, cty.Tuple(arr[:k]))
				}
				// the same prefixes taken from the accessor of the full type, as stdlib slice() does
				full := ts[len(ts)-1]
				for k := 0; k < len(arr); k++ {
					ms = append(ms, tTuple(t.Elems[:k]...))
					ts = append(ts, cty.Tuple(full.TupleElementTypes()[:k]))
				}
			case 'O':
				m := make(map[string]cty.Type, len(t.Attrs))
				for _, a := range t.Attrs {
					m[a.Name] = a.T.Build()
				}
				n := len(t.Attrs)
				for mask := 0; mask < 1<<n; mask++ {
					var as []TAttr
					var opt []string
					for k, a := range t.Attrs {
						a.Opt = mask&(1<<k) != 0
						as = append(as, a)
						if a.Opt {
							opt = append(opt, a.Name)
						}
					}
					ms = append(ms, tObj(as...))
					if mask == 0 {
						ts = append(ts, cty.Object(m))
					} else {
						ts = append(ts, cty.ObjectWithOptionalAttrs(m, opt))
					}
				}
				// a type rebuilt from another type's attribute-type accessor
				ms = append(ms, ms[0])
				ts = append(ts, cty.Object(ts[len(ts)-1].AttributeTypes()))
			}
			for a := range ts {
				for b := range ts {
					un.Eval(1)
					un.DistinctH(hash64("alias:"+ms[a].Canon()) ^ (hash64(ms[b].Canon()) * 1099511628211) ^ uint64(a*64+b))
					pairCheck(un, ms[a], ms[b], ts[a], ts[b], ms[a].Canon(), ms[b].Canon())
				}
				c07TypeChecks(un, ms[a], ts[a], ms[a].Build(), ms[a].Canon(), ms[a].CanonNoOpt())
			}
		})
	}
}

// c07TypeChecks runs the single-type clauses on one modelled type t built twice (ty, ty2).
func c07TypeChecks(un *U, t *TS, ty, ty2 cty.Type, cn, cnNO string) {
	site := "type"
	shape := cn
	fail := func(clause, detail string) {
		un.Violation(site+"."+clause, shape, fmt.Sprintf("%s: type %#v: %s", clause, ty, detail))
	}
	guard := func(clause string, f func()) {
		defer func() {
			if r := recover(); r != nil {
				fail(clause, fmt.Sprintf("panic: %v", r))
			}
		}()
		f()
	}
	guard("reflexive", func() {
		if !ty.Equals(ty) || !ty.Equals(ty2) || !ty2.Equals(ty) {
			fail("reflexive", "type not equal to itself / to an independently built copy")
		}
	})
	guard("hasdynamic", func() {
		if got := ty.HasDynamicTypes(); got != t.HasDyn() {
			fail("hasdynamic", fmt.Sprintf("HasDynamicTypes=%v, model says %v", got, t.HasDyn()))
		}
	})
	guard("conform-self", func() {
		if errs := ty.TestConformance(ty); len(errs) != 0 {
			fail("conform-self", fmt.Sprintf("type does not conform to itself: %v", errs))
		}
		if errs := ty.TestConformance(cty.DynamicPseudoType); len(errs) != 0 {
			fail("conform-self", fmt.Sprintf("type does not conform to dynamic: %v", errs))
		}
	})
	guard("strip", func() {
		s1 := ty.WithoutOptionalAttributesDeep()
		s2 := s1.WithoutOptionalAttributesDeep()
		m1 := tsOf(s1)
		if m1.Canon() != cnNO {
			fail("strip", fmt.Sprintf("stripped type is %#v (%s), expected %s", s1, m1.Canon(), cnNO))
		}
		if m1.HasOpt() {
			fail("strip", fmt.Sprintf("stripped type %#v still has optional annotations", s1))
		}
		if !s1.Equals(s2) || tsOf(s2).Canon() != m1.Canon() {
			fail("strip", fmt.Sprintf("stripping is not idempotent: %#v vs %#v", s1, s2))
		}
		if !t.HasOpt() && !s1.Equals(ty) {
			fail("strip", "stripping changed a type without optional annotations")
		}
		if t.HasOpt() {
			// the stripped type is derived from the annotated one (it may share storage with it) and
			// differs from it in its optional-attribute sets: equality must tell them apart, in both
			// directions, also inside enclosing types built around the two
			if s1.Equals(ty) || ty.Equals(s1) {
				fail("strip-equals-annotated", fmt.Sprintf("%#v Equals its own stripped form %#v (%v / %v)", ty, s1, s1.Equals(ty), ty.Equals(s1)))
			}
			for _, wrap := range []func(cty.Type) cty.Type{
				func(x cty.Type) cty.Type { return cty.List(x) },
				func(x cty.Type) cty.Type { return cty.Map(x) },
				func(x cty.Type) cty.Type { return cty.Tuple([]cty.Type{cty.String, x}) },
				func(x cty.Type) cty.Type { return cty.Object(map[string]cty.Type{"w": x}) },
			} {
				wa, ws := wrap(ty), wrap(s1)
				if wa.Equals(ws) || ws.Equals(wa) {
					fail("strip-equals-annotated", fmt.Sprintf("%#v Equals %#v, which differs in optional-attribute sets", wa, ws))
				}
				if ws2 := wa.WithoutOptionalAttributesDeep(); !ws2.Equals(ws) || !ws.Equals(ws2) {
					fail("strip", fmt.Sprintf("stripping %#v gives %#v, expected %#v", wa, ws2, ws))
				}
			}
			// and the annotated type is unchanged by having been stripped
			if got := tsOf(ty).Canon(); got != cn {
				fail("strip-changed-receiver", fmt.Sprintf("after WithoutOptionalAttributesDeep the receiver reads %s, it was %s", got, cn))
			}
		}
	})
	guard("json", func() {
		b, err := ty.MarshalJSON()
		if t.HasCaps() {
			if err == nil {
				fail("json", "capsule type serialised without error")
			}
			return
		}
		if err != nil {
			fail("json", fmt.Sprintf("MarshalJSON failed: %v", err))
			return
		}
		checkRetained(un, "type.marshaljson", b, cn)
		var back cty.Type
		if err := back.UnmarshalJSON(b); err != nil {
			fail("json", fmt.Sprintf("UnmarshalJSON(%s) failed: %v", b, err))
			return
		}
		if !back.Equals(ty) || !ty.Equals(back) || tsOf(back).Canon() != cn {
			fail("json", fmt.Sprintf("round trip through %s gives %#v", b, back))
		}
		b2, err := ctyjson.MarshalType(ty)
		if err != nil || string(b2) != string(b) {
			fail("json", "json.MarshalType disagrees with Type.MarshalJSON")
		}
		back2, err := ctyjson.UnmarshalType(b)
		if err != nil || !back2.Equals(ty) {
			fail("json", "json.UnmarshalType round trip not equal")
		}
	})
	// accessor model: tsOf must read back the model
	guard("accessors", func() {
		if got := tsOf(ty).Canon(); got != cn {
			fail("accessors", fmt.Sprintf("accessors describe %s, constructed %s", got, cn))
		}
	})
}

func pairCheck(un *U, ta, tb *TS, a, b cty.Type, ca, cb string) {
	wantEq := ca == cb
	func() {
		defer func() {
			if r := recover(); r != nil {
				un.Violation("pair.equals", "panic", fmt.Sprintf("Equals panicked on %#v vs %#v: %v", a, b, r))
			}
		}()
		gotAB, gotBA := a.Equals(b), b.Equals(a)
		if gotAB != gotBA {
			un.Violation("pair.equals-symmetric", ca+" ~ "+cb, fmt.Sprintf("%#v.Equals(%#v)=%v but reverse=%v", a, b, gotAB, gotBA))
		}
		if gotAB != wantEq {
			un.Violation("pair.equals-model", ca+" ~ "+cb, fmt.Sprintf("%#v.Equals(%#v)=%v, structural model says %v", a, b, gotAB, wantEq))
		}
	}()
	func() {
		defer func() {
			if r := recover(); r != nil {
				un.Violation("pair.conform", "panic", fmt.Sprintf("TestConformance panicked on %#v vs %#v: %v", a, b, r))
			}
		}()
		want := refConforms(ta, tb)
		errs := a.TestConformance(b)
		if (len(errs) == 0) != want {
			un.Violation("pair.conform-model", ca+" <: "+cb, fmt.Sprintf("%#v.TestConformance(%#v) = %v, model says conforms=%v", a, b, errs, want))
		}
		if errs != nil && len(errs) == 0 {
			un.Violation("pair.conform-errors", ca+" <: "+cb, "non-nil but empty error list")
		}
		if want {
			un.Class("conforms")
		} else {
			un.Class("not-conforms")
		}
	}()
	if wantEq {
		un.Class("equal")
	} else {
		un.Class("not-equal")
	}
}

func c07DeepFamily() []*TS {
	var fam []*TS
	d1 := []*TS{tsStr, tsDyn, tList(tsNum), tTuple(tsStr, tsNum), tObj(at("a", tsStr), ato("b", tsNum)), tMap(tsBool)}
	for _, x := range d1 {
		for _, y := range d1 {
			fam = append(fam,
				tObj(at("a", tList(x)), at("b", tTuple(y, tsNum))),
				tTuple(tMap(x), tObj(ato("a", y), at("b", tsStr))),
				tSet(tObj(at("a", x), at("b", tList(y)))),
			)
		}
	}
	return fam
}

func countPos(t *TS) int {
	n := 1
	switch t.K {
	case 'L', 'S', 'M':
		n += countPos(t.Elem)
	case 'T':
		for _, e := range t.Elems {
			n += countPos(e)
		}
	case 'O':
		for _, a := range t.Attrs {
			n += countPos(a.T)
		}
	}
	return n
}

// replacePos returns a copy of t with the k-th position (pre-order) replaced.
func replacePos(t *TS, k *int, alt *TS) *TS {
	if *k == 0 {
		*k = -1
		return alt
	}
	*k--
	cp := *t
	switch t.K {
	case 'L', 'S', 'M':
		cp.Elem = replacePos(t.Elem, k, alt)
	case 'T':
		cp.Elems = make([]*TS, len(t.Elems))
		for i, e := range t.Elems {
			if *k >= 0 {
				cp.Elems[i] = replacePos(e, k, alt)
			} else {
				cp.Elems[i] = e
			}
		}
	case 'O':
		cp.Attrs = make([]TAttr, len(t.Attrs))
		for i, a := range t.Attrs {
			cp.Attrs[i] = a
			if *k >= 0 {
				cp.Attrs[i].T = replacePos(a.T, k, alt)
			}
		}
	}
	return &cp
}

// toggleOpts returns every variant of t with exactly one optional marker
// toggled or one attribute renamed.
func toggleOpts(t *TS) []*TS {
	var out []*TS
	switch t.K {
	case 'L', 'S', 'M':
		for _, e := range toggleOpts(t.Elem) {
			cp := *t
			cp.Elem = e
			out = append(out, &cp)
		}
	case 'T':
		for i, e := range t.Elems {
			for _, v := range toggleOpts(e) {
				cp := *t
				cp.Elems = append([]*TS(nil), t.Elems...)
				cp.Elems[i] = v
				out = append(out, &cp)
			}
		}
		// swapped order
		if len(t.Elems) == 2 {
			out = append(out, tTuple(t.Elems[1], t.Elems[0]))
		}
	case 'O':
		for i, a := range t.Attrs {
			cp := *t
			cp.Attrs = append([]TAttr(nil), t.Attrs...)
			cp.Attrs[i].Opt = !a.Opt
			out = append(out, &cp)
			ren := *t
			ren.Attrs = append([]TAttr(nil), t.Attrs...)
			ren.Attrs[i].Name = a.Name + "x"
			out = append(out, tObj(ren.Attrs...))
			for _, v := range toggleOpts(a.T) {
				cp2 := *t
				cp2.Attrs = append([]TAttr(nil), t.Attrs...)
				cp2.Attrs[i].T = v
				out = append(out, &cp2)
			}
		}
	}
	return out
}
