package main

import (
	"encoding/json"
	"fmt"
	"math/big"
	"os"
	"reflect"
	"sort"
	"strconv"
	"strings"

	"github.com/zclconf/go-cty/cty"
	"github.com/zclconf/go-cty/cty/convert"
	"github.com/zclconf/go-cty/cty/function/stdlib"
	ctyjson "github.com/zclconf/go-cty/cty/json"
	ctymsgpack "github.com/zclconf/go-cty/cty/msgpack"
)

func init() {
	register(&Check{
		ID:    "C20",
		Level: "model_checking",
		Rule: "breadth-first search over all histories (depth 3, thorough 4) of an operation alphabet acting on a pool of live objects (6 values chosen to share payloads, 2 value sets with members forced into one hash bucket, a refinement builder, retained encoder outputs): operation methods, conversions, stdlib calls, codecs, accessor-then-mutate-the-returned-Go-data, constructor-then-mutate-the-argument, value-set Add/Remove/Copy/algebra, builder calls after NewValue; " +
			"after EVERY transition the raw-memory fingerprint (every reachable word, slices up to capacity, maps, big.Float mantissas, aliasing) of every pre-existing object other than the one helper the call is documented to mutate, and of every package-level variable of all go-cty packages, must be unchanged, and a repeated call must give a RawEquals result; states keyed on the fingerprints; " +
			"schedule part: the invariant 'no operation writes memory reachable from a pre-existing object or a package-level variable' (decided above for every explored transition) makes every pair of operations conflict-free, so every interleaving is Mazurkiewicz-equivalent to a serial run; a free-running concurrent pass over the same operation bodies (goroutines 2..16, -race when built so) is supplementary; " +
			"distinct = states; non-trivial = every transition",
		Assumptions: []string{
			"raw-memory fingerprint per DESIGN appendix D (reflect + unsafe walk; pointer identity by first-visit ordinal)",
			"package-level variables are reached through accessor files generated from the working tree and injected with `go build -overlay` (build tag verifoverlay); when that overlay cannot be built the evidence says globals_fingerprinted=false",
			"documented caller obligations are not exercised as faults: ownership-transfer constructors (NumberVal), concurrent mutation of one ValueSet / PathSet / builder",
			"a write that restores the old contents before the operation returns is invisible to the fingerprint; it is what the supplementary concurrent pass looks for",
		},
		Run: runC20,
	})
}

// immState is the pool of live objects.
type immState struct {
	V     [6]cty.Value
	S     [2]cty.ValueSet
	B     *cty.RefinementBuilder
	Bytes [2][]byte
	T     [2]cty.Type
	P     cty.PathSet
	// Args: one argument slice handed to Function.Call by several callers (it is the caller's)
	Args []cty.Value
	// PA: paths; PA[0] is a parent from which children are derived
	PA [3]cty.Path
	// Conv: conversions looked up once and retained (closures the library returned)
	Conv [2]convert.Conversion
	// G: Go data that was passed to a constructor and is still held by the
	// caller, who mutates it later ("clobber retained arguments")
	G struct {
		sl    []cty.Value
		m     map[string]cty.Value
		marks cty.ValueMarks
		pvm   []cty.PathValueMarks
	}
}

type immOp struct {
	name    string
	mutates string // name of the one object the call is documented to mutate ("" = none)
	pure    bool   // repeat the call and compare results
	run     func(st *immState) (result cty.Value, ok bool)
}

var c20Caps = []*capsNative{{20}, {21}, {22}, {23}}

var immStateBuilt bool

// newImmState builds the initial pool.  Once it has succeeded, a later failure means that
// an explored operation corrupted package-level state of the library (e.g. a shared number
// such as cty.PositiveInfinity): that is reported as a violation (libraryStatePanic).
func newImmState() (st *immState) {
	defer func() {
		if r := recover(); r != nil {
			if immStateBuilt {
				panic(libraryStatePanic{fmt.Sprintf("the constructors that built the initial pool of values at start now panic (%v): an operation explored earlier in this process changed package-level state of the library", r)})
			}
			panic(r)
		}
		immStateBuilt = true
	}()
	return newImmState1()
}

func newImmState1() *immState {
	st := &immState{}
	ints := hashCollidingInts()
	st.V[0] = cty.ListVal([]cty.Value{cty.NumberIntVal(1), cty.NumberFloatVal(2.5), parseNum("18446744073709551616")})
	st.V[1] = cty.ObjectVal(map[string]cty.Value{
		"a": cty.StringVal("x").Mark(markM1),
		"b": cty.TupleVal([]cty.Value{cty.StringVal("y"), cty.NumberIntVal(3)}),
		"c": cty.SetVal([]cty.Value{cty.StringVal("p"), cty.StringVal("q")}),
	}).Mark(markM2)
	st.V[2] = cty.SetVal([]cty.Value{ints[0], ints[1], ints[2]})
	st.V[3] = cty.UnknownVal(cty.Number).Refine().NotNull().NumberRangeLowerBound(cty.Zero, true).NewValue()
	st.V[4] = cty.MapVal(map[string]cty.Value{"k1": cty.StringVal("a"), "k2": cty.StringVal("é")})
	st.V[5] = cty.NumberFloatVal(0.1)
	st.S[0] = cty.NewValueSet(cty.Number)
	for _, i := range ints[:3] {
		st.S[0].Add(i)
	}
	st.S[1] = cty.NewValueSet(capsTypes[0])
	for _, c := range c20Caps[:3] {
		st.S[1].Add(cty.CapsuleVal(capsTypes[0], c))
	}
	st.T[0] = cty.Object(map[string]cty.Type{"a": cty.String, "b": cty.Tuple([]cty.Type{cty.Number, cty.Bool})})
	st.T[1] = cty.ObjectWithOptionalAttrs(map[string]cty.Type{"a": cty.List(cty.String), "b": cty.Number}, []string{"b"})
	st.P = cty.NewPathSet(cty.GetAttrPath("a").IndexInt(0))
	st.PA[0] = cty.GetAttrPath("a").IndexInt(0).GetAttr("x")
	st.Args = []cty.Value{cty.StringVal("%s|%v").Mark(markM1), cty.StringVal("s").Mark(markM2), cty.ListVal([]cty.Value{cty.NumberIntVal(1).Mark(markM3)})}
	st.Conv[0] = convert.GetConversionUnsafe(cty.Tuple([]cty.Type{cty.String, cty.Number}), cty.Tuple([]cty.Type{cty.String, cty.String}))
	st.Conv[1] = convert.GetConversionUnsafe(cty.Map(cty.String), cty.Object(map[string]cty.Type{"k1": cty.String, "k2": cty.String}))
	return st
}

// push stores a result in the rotating result slots V[4], V[5].
func (st *immState) push(v cty.Value) {
	st.V[5] = st.V[4]
	st.V[4] = v
}

func (st *immState) roots() (names []string, objs []interface{}) {
	for i := range st.V {
		names = append(names, fmt.Sprintf("V%d", i))
		objs = append(objs, st.V[i])
	}
	for i := range st.S {
		names = append(names, fmt.Sprintf("S%d", i))
		objs = append(objs, st.S[i])
	}
	names = append(names, "B")
	objs = append(objs, st.B)
	for i := range st.Bytes {
		names = append(names, fmt.Sprintf("Bytes%d", i))
		objs = append(objs, st.Bytes[i])
	}
	for i := range st.T {
		names = append(names, fmt.Sprintf("T%d", i))
		objs = append(objs, st.T[i])
	}
	names = append(names, "P")
	objs = append(objs, st.P)
	names = append(names, "Args")
	objs = append(objs, st.Args)
	for i := range st.PA {
		names = append(names, fmt.Sprintf("PA%d", i))
		objs = append(objs, st.PA[i])
	}
	// Go data the caller handed to the library and still holds: the library may read it during
	// the call but must leave it as it was
	names = append(names, "G")
	objs = append(objs, &st.G)
	return
}

var gBaseline map[string]string

// globalsBaseline: package-level variables must never change, so every
// transition is compared with the fingerprint taken at process start (and
// re-based after a reported change, so that one write is reported once).
func globalsBaseline() map[string]string {
	if gBaseline == nil {
		gBaseline = fingerprintGlobals()
	}
	return gBaseline
}

func fingerprintGlobals() map[string]string {
	out := map[string]string{}
	for pkg, vars := range packageGlobals() {
		for name, ptr := range vars {
			out[pkg+"."+name] = strconv.FormatUint(fingerprintHash(true, ptr), 16)
		}
	}
	return out
}

func (st *immState) fingerprints() map[string]string {
	out := map[string]string{}
	names, objs := st.roots()
	for i, n := range names {
		out[n] = fingerprint(true, objs[i])
	}
	return out
}

func mutateSlice(s []cty.Value) {
	for i := range s {
		s[i] = cty.StringVal("CLOBBERED")
	}
	if cap(s) > len(s) {
		s = s[:cap(s)]
		for i := range s {
			s[i] = cty.StringVal("CLOBBERED")
		}
	}
}

func mutateMap(m map[string]cty.Value) {
	for k := range m {
		m[k] = cty.StringVal("CLOBBERED")
	}
	m["zz-added"] = cty.True
}

func mutateMarks(m cty.ValueMarks) {
	for k := range m {
		delete(m, k)
	}
	m["INJECTED"] = struct{}{}
}

func c20Ops() []immOp {
	var ops []immOp
	add := func(name, mutates string, pure bool, run func(st *immState) (cty.Value, bool)) {
		ops = append(ops, immOp{name, mutates, pure, run})
	}
	guard := func(f func() cty.Value) (v cty.Value, ok bool) {
		defer func() {
			if r := recover(); r != nil {
				ok = false
			}
		}()
		return f(), true
	}
	// --- operation methods on pool values (results pushed)
	add("V4=V0.Index(1).Add(V5)", "", true, func(st *immState) (cty.Value, bool) {
		return guard(func() cty.Value { return st.V[0].Index(cty.NumberIntVal(1)).Add(st.V[5]) })
	})
	add("V4=V5.Multiply(V0[2]).Negate()", "", true, func(st *immState) (cty.Value, bool) {
		return guard(func() cty.Value { return st.V[5].Multiply(st.V[0].Index(cty.NumberIntVal(2))).Negate() })
	})
	add("V4=V3.Add(V5)", "", true, func(st *immState) (cty.Value, bool) {
		return guard(func() cty.Value { return st.V[3].Add(st.V[5]) })
	})
	add("V4=V1.GetAttr(b)", "", true, func(st *immState) (cty.Value, bool) {
		return guard(func() cty.Value { return st.V[1].GetAttr("b") })
	})
	add("V4=V1.Equals(V1)", "", true, func(st *immState) (cty.Value, bool) {
		return guard(func() cty.Value { return st.V[1].Equals(st.V[1]) })
	})
	add("V4=V2.HasElement(V5)", "", true, func(st *immState) (cty.Value, bool) {
		return guard(func() cty.Value { return st.V[2].HasElement(st.V[5]) })
	})
	add("V4=V4.Equals(V5)", "", true, func(st *immState) (cty.Value, bool) {
		return guard(func() cty.Value { return st.V[4].Equals(st.V[5]) })
	})
	add("V4=V0.Length()", "", true, func(st *immState) (cty.Value, bool) {
		return guard(func() cty.Value { return st.V[0].Length() })
	})
	add("V4=V1.UnmarkDeep()", "", true, func(st *immState) (cty.Value, bool) {
		return guard(func() cty.Value { u, _ := st.V[1].UnmarkDeep(); return u })
	})
	add("V4=V4.Mark(M3)", "", true, func(st *immState) (cty.Value, bool) {
		return guard(func() cty.Value { return st.V[4].Mark(markM3) })
	})
	add("V4=UnknownAsNull(tuple(V3,V0))", "", true, func(st *immState) (cty.Value, bool) {
		return guard(func() cty.Value { return cty.UnknownAsNull(cty.TupleVal([]cty.Value{st.V[3], st.V[0]})) })
	})
	// --- conversions, stdlib, codecs
	add("V4=Convert(V0,set(string))", "", true, func(st *immState) (cty.Value, bool) {
		return guard(func() cty.Value { v, err := convert.Convert(st.V[0], cty.Set(cty.String)); must(err); return v })
	})
	add("V4=Convert(V1.b,list(string))", "", true, func(st *immState) (cty.Value, bool) {
		return guard(func() cty.Value {
			v, err := convert.Convert(st.V[1].GetAttr("b"), cty.List(cty.String))
			must(err)
			return v
		})
	})
	add("V4=Convert(V4,T1 with optional attrs)", "", true, func(st *immState) (cty.Value, bool) {
		return guard(func() cty.Value {
			v, err := convert.Convert(cty.ObjectVal(map[string]cty.Value{"a": cty.ListVal([]cty.Value{cty.StringVal("s")})}), st.T[1])
			must(err)
			return v
		})
	})
	add("V4=stdlib.Concat(V0,V0)", "", true, func(st *immState) (cty.Value, bool) {
		return guard(func() cty.Value { v, err := stdlib.Concat(st.V[0], st.V[0]); must(err); return v })
	})
	add("V4=stdlib.SetUnion(V2,V2)", "", true, func(st *immState) (cty.Value, bool) {
		return guard(func() cty.Value { v, err := stdlib.SetUnion(st.V[2], st.V[2]); must(err); return v })
	})
	add("V4=stdlib.Merge(V4map,V4map)", "", true, func(st *immState) (cty.Value, bool) {
		return guard(func() cty.Value {
			m := cty.MapVal(map[string]cty.Value{"k": st.V[5]})
			v, err := stdlib.Merge(m, m)
			must(err)
			return v
		})
	})
	add("V4=stdlib.Sort/Reverse/Upper", "", true, func(st *immState) (cty.Value, bool) {
		return guard(func() cty.Value {
			l := cty.ListVal([]cty.Value{cty.StringVal("b"), cty.StringVal("a")})
			s, err := stdlib.Sort(l)
			must(err)
			r, err := stdlib.ReverseList(s)
			must(err)
			u, err := stdlib.Upper(r.Index(cty.Zero))
			must(err)
			return cty.TupleVal([]cty.Value{s, r, u, l})
		})
	})
	add("V4=stdlib.Format(%v,V0)", "", true, func(st *immState) (cty.Value, bool) {
		return guard(func() cty.Value {
			v, err := stdlib.Format(cty.StringVal("%v|%5.1f"), st.V[0], st.V[5])
			must(err)
			return v
		})
	})
	add("Bytes0=json.Marshal(V0)", "Bytes0", false, func(st *immState) (cty.Value, bool) {
		return guard(func() cty.Value {
			b, err := ctyjson.Marshal(st.V[0], st.V[0].Type())
			must(err)
			st.Bytes[0] = b
			return cty.StringVal(string(b))
		})
	})
	add("Bytes1=json.Marshal(V4)", "Bytes1", false, func(st *immState) (cty.Value, bool) {
		return guard(func() cty.Value {
			u, _ := st.V[4].UnmarkDeep()
			b, err := ctyjson.Marshal(u, u.Type())
			must(err)
			st.Bytes[1] = b
			return cty.StringVal(string(b))
		})
	})
	add("Bytes0=msgpack.Marshal(V4)", "Bytes0", false, func(st *immState) (cty.Value, bool) {
		return guard(func() cty.Value {
			u, _ := st.V[4].UnmarkDeep()
			b, err := ctymsgpack.Marshal(u, u.Type())
			must(err)
			st.Bytes[0] = b
			return cty.StringVal(fmt.Sprintf("%x", b))
		})
	})
	add("Bytes1=msgpack.Marshal(tuple(V3,V0))", "Bytes1", false, func(st *immState) (cty.Value, bool) {
		return guard(func() cty.Value {
			v := cty.TupleVal([]cty.Value{st.V[3], st.V[0]})
			b, err := ctymsgpack.Marshal(v, v.Type())
			must(err)
			st.Bytes[1] = b
			return cty.StringVal(fmt.Sprintf("%x", b))
		})
	})
	add("Bytes0=T0.MarshalJSON", "Bytes0", false, func(st *immState) (cty.Value, bool) {
		return guard(func() cty.Value {
			b, err := st.T[0].MarshalJSON()
			must(err)
			st.Bytes[0] = b
			return cty.StringVal(string(b))
		})
	})
	add("Bytes1=T1.MarshalJSON", "Bytes1", false, func(st *immState) (cty.Value, bool) {
		return guard(func() cty.Value {
			b, err := ctyjson.MarshalType(st.T[1])
			must(err)
			st.Bytes[1] = b
			return cty.StringVal(string(b))
		})
	})
	add("V4=json.Unmarshal(Bytes0)", "", true, func(st *immState) (cty.Value, bool) {
		return guard(func() cty.Value {
			if st.Bytes[0] == nil {
				panic("nothing marshalled yet")
			}
			ty, err := ctyjson.ImpliedType(st.Bytes[0])
			must(err)
			v, err := ctyjson.Unmarshal(st.Bytes[0], ty)
			must(err)
			return v
		})
	})
	add("V4=Conv0(V1.b) and Conv0(other tuple): a retained conversion applied to two values", "", true, func(st *immState) (cty.Value, bool) {
		return guard(func() cty.Value {
			u, _ := st.V[1].Unmark()
			a, err := st.Conv[0](u.GetAttr("b"))
			must(err)
			b, err := st.Conv[0](cty.TupleVal([]cty.Value{cty.StringVal("other"), cty.NumberIntVal(77)}))
			must(err)
			return cty.TupleVal([]cty.Value{a, b})
		})
	})
	add("V4=Conv1(map k1,k2) then Conv1(V4map): a retained map->object conversion", "", true, func(st *immState) (cty.Value, bool) {
		return guard(func() cty.Value {
			a, err := st.Conv[1](cty.MapVal(map[string]cty.Value{"k1": cty.StringVal("p"), "k2": cty.StringVal("q")}))
			must(err)
			b, err := st.Conv[1](cty.MapVal(map[string]cty.Value{"k1": cty.StringVal("a"), "k2": cty.StringVal("é")}))
			must(err)
			return cty.TupleVal([]cty.Value{a, b})
		})
	})
	add("V4=Unify(list(dyn), tuple3) / Unify(tuple3, set(dyn), dyn) / Unify(T0,T1,map)", "", true, func(st *immState) (cty.Value, bool) {
		return guard(func() cty.Value {
			sig := func(t cty.Type, cs []convert.Conversion) cty.Value {
				if t == cty.NilType {
					return cty.StringVal("no common type")
				}
				return cty.StringVal(fmt.Sprintf("%s/%d", tsOf(t).Canon(), len(cs)))
			}
			t1, c1 := convert.Unify([]cty.Type{cty.List(cty.DynamicPseudoType), cty.Tuple([]cty.Type{cty.List(cty.Bool), cty.Number, cty.String})})
			t2, c2 := convert.Unify([]cty.Type{cty.Tuple([]cty.Type{cty.Number, cty.Bool, cty.String}), cty.Set(cty.DynamicPseudoType), cty.DynamicPseudoType})
			t3, c3 := convert.UnifyUnsafe([]cty.Type{st.T[0], st.T[1], cty.Map(cty.String)})
			return cty.TupleVal([]cty.Value{sig(t1, c1), sig(t2, c2), sig(t3, c3)})
		})
	})
	add("V4=V5.Divide(0) (+Inf)", "", true, func(st *immState) (cty.Value, bool) {
		return guard(func() cty.Value { return st.V[5].Divide(cty.Zero) })
	})
	add("V4=Zero.Negate() / NumberIntVal(0)", "", true, func(st *immState) (cty.Value, bool) {
		return guard(func() cty.Value {
			return cty.TupleVal([]cty.Value{cty.Zero.Negate(), cty.NumberIntVal(0), cty.NegativeInfinity})
		})
	})
	add("V4=GetAttrPath(a).IndexInt(0) extended twice (paths as values)", "", true, func(st *immState) (cty.Value, bool) {
		return guard(func() cty.Value {
			base := cty.GetAttrPath("a").IndexInt(0).GetAttr("x")
			p1 := base.GetAttr("b")
			p2 := base.GetAttr("c")
			p3 := base.IndexString("k")
			return cty.StringVal(pathStr(p1) + " " + pathStr(p2) + " " + pathStr(p3) + " " + pathStr(base))
		})
	})
	add("V4=slice(V1.b,0,1) then concat with an unknown first tuple of that type", "", true, func(st *immState) (cty.Value, bool) {
		return guard(func() cty.Value {
			u, _ := st.V[1].Unmark()
			tup := u.GetAttr("b") // tuple("y", 3), part of a pool value
			sl, err := stdlib.Slice(tup, cty.Zero, cty.NumberIntVal(1))
			must(err)
			// the type a type checker computes for the slice (it may share storage with V1.b's type)
			headTy, err := stdlib.SliceFunc.ReturnTypeForValues([]cty.Value{tup, cty.Zero, cty.NumberIntVal(1)})
			must(err)
			cc, err := stdlib.Concat(cty.UnknownVal(headTy), cty.TupleVal([]cty.Value{cty.False}))
			must(err)
			cc2, err := stdlib.Concat(cty.UnknownVal(headTy), cty.TupleVal([]cty.Value{cty.StringVal("z"), cty.Zero}))
			must(err)
			cc3, err := stdlib.Concat(sl, cty.TupleVal([]cty.Value{cty.ListValEmpty(cty.Bool)}))
			must(err)
			return cty.TupleVal([]cty.Value{sl, cc, cc2, cc3})
		})
	})
	// --- paths as live objects: deriving a second child from a parent leaves the first alone
	add("PA1=PA0.GetAttr(b)", "PA1", false, func(st *immState) (cty.Value, bool) {
		return guard(func() cty.Value { st.PA[1] = st.PA[0].GetAttr("b"); return cty.NilVal })
	})
	add("PA2=PA0.GetAttr(c)", "PA2", false, func(st *immState) (cty.Value, bool) {
		return guard(func() cty.Value { st.PA[2] = st.PA[0].GetAttr("c"); return cty.NilVal })
	})
	add("PA1=PA0.IndexInt(7)", "PA1", false, func(st *immState) (cty.Value, bool) {
		return guard(func() cty.Value { st.PA[1] = st.PA[0].IndexInt(7); return cty.NilVal })
	})
	add("PA2=PA0.IndexString(k)", "PA2", false, func(st *immState) (cty.Value, bool) {
		return guard(func() cty.Value { st.PA[2] = st.PA[0].IndexString("k"); return cty.NilVal })
	})
	add("PA0=PA1.Index(V5) / PA1 nil-safe", "PA0", false, func(st *immState) (cty.Value, bool) {
		return guard(func() cty.Value {
			if st.PA[1] == nil {
				panic("no derived path yet")
			}
			st.PA[0] = st.PA[1].Index(cty.StringVal("q"))
			return cty.NilVal
		})
	})
	add("P.Add(PA1) then P.Has", "P", false, func(st *immState) (cty.Value, bool) {
		return guard(func() cty.Value {
			if st.PA[1] == nil {
				panic("no derived path yet")
			}
			st.P.Add(st.PA[1].Copy())
			return cty.BoolVal(st.P.Has(st.PA[1]))
		})
	})
	add("V4=FormatFunc.Call(shared Args) / ReturnTypeForValues(shared Args)", "", true, func(st *immState) (cty.Value, bool) {
		return guard(func() cty.Value {
			v, err := stdlib.FormatFunc.Call(st.Args)
			must(err)
			_, err = stdlib.FormatFunc.ReturnTypeForValues(st.Args)
			must(err)
			return v
		})
	})
	add("V4=JSONEncodeFunc.Call(shared Args[2:]) / CoalesceFunc.Call(shared Args)", "", true, func(st *immState) (cty.Value, bool) {
		return guard(func() cty.Value {
			a, err := stdlib.JSONEncodeFunc.Call(st.Args[2:])
			must(err)
			b, err := stdlib.CoalesceFunc.Call(st.Args[:2])
			must(err)
			return cty.TupleVal([]cty.Value{a, b})
		})
	})
	// --- accessor, then mutate the returned Go data
	add("mutate V4.AsBigFloat() (any number, also infinities and zeros) and PositiveInfinity.AsBigFloat()", "", false, func(st *immState) (cty.Value, bool) {
		return guard(func() cty.Value {
			clobber := func(v cty.Value) {
				u, _ := v.Unmark()
				if u.Type() == cty.Number && u.IsKnown() && !u.IsNull() {
					f := u.AsBigFloat()
					f.SetInt64(7).Neg(f)
				}
			}
			clobber(st.V[4])
			u, _ := st.V[4].Unmark()
			if u.IsKnown() && !u.IsNull() && u.CanIterateElements() && !u.Type().IsSetType() {
				for it := u.ElementIterator(); it.Next(); {
					_, e := it.Element()
					clobber(e)
				}
			}
			clobber(cty.PositiveInfinity)
			clobber(cty.NegativeInfinity)
			clobber(cty.Zero)
			return cty.NilVal
		})
	})
	add("mutate V5.AsBigFloat()", "", false, func(st *immState) (cty.Value, bool) {
		return guard(func() cty.Value {
			f := st.V[5].AsBigFloat()
			f.Add(f, big.NewFloat(1)).SetPrec(10)
			return cty.NilVal
		})
	})
	add("mutate V0[2].AsBigFloat()", "", false, func(st *immState) (cty.Value, bool) {
		return guard(func() cty.Value {
			f := st.V[0].Index(cty.NumberIntVal(2)).AsBigFloat()
			f.SetInt64(7)
			return cty.NilVal
		})
	})
	add("mutate V1.Marks()", "", false, func(st *immState) (cty.Value, bool) {
		return guard(func() cty.Value { mutateMarks(st.V[1].Marks()); return cty.NilVal })
	})
	add("mutate marks of V1.Unmark()", "", false, func(st *immState) (cty.Value, bool) {
		return guard(func() cty.Value { _, m := st.V[1].Unmark(); mutateMarks(m); return cty.NilVal })
	})
	add("mutate marks of V1.UnmarkDeep()", "", false, func(st *immState) (cty.Value, bool) {
		return guard(func() cty.Value { _, m := st.V[1].UnmarkDeep(); mutateMarks(m); return cty.NilVal })
	})
	add("mutate V1.UnmarkDeepWithPaths() paths+marks", "", false, func(st *immState) (cty.Value, bool) {
		return guard(func() cty.Value {
			un, pvm := st.V[1].UnmarkDeepWithPaths()
			for i := range pvm {
				mutateMarks(pvm[i].Marks)
				for j := range pvm[i].Path {
					pvm[i].Path[j] = cty.GetAttrStep{Name: "clobbered"}
				}
			}
			return un
		})
	})
	add("mutate V0.AsValueSlice()", "", false, func(st *immState) (cty.Value, bool) {
		return guard(func() cty.Value { mutateSlice(st.V[0].AsValueSlice()); return cty.NilVal })
	})
	add("mutate V1.b.AsValueSlice()", "", false, func(st *immState) (cty.Value, bool) {
		return guard(func() cty.Value {
			u, _ := st.V[1].Unmark()
			mutateSlice(u.GetAttr("b").AsValueSlice())
			return cty.NilVal
		})
	})
	add("mutate V4.AsValueMap()/AsValueSlice()", "", false, func(st *immState) (cty.Value, bool) {
		return guard(func() cty.Value {
			u, _ := st.V[4].Unmark()
			if u.IsKnown() && !u.IsNull() {
				switch {
				case u.Type().IsMapType() || u.Type().IsObjectType():
					mutateMap(u.AsValueMap())
				case u.CanIterateElements():
					mutateSlice(u.AsValueSlice())
				}
			}
			return cty.NilVal
		})
	})
	add("mutate V2.AsValueSet() (Add/Remove)", "", false, func(st *immState) (cty.Value, bool) {
		return guard(func() cty.Value {
			vs := st.V[2].AsValueSet()
			for _, e := range vs.Values() {
				vs.Remove(e)
				break
			}
			vs.Add(cty.NumberIntVal(-99))
			return cty.NilVal
		})
	})
	add("mutate S0.Values()", "", false, func(st *immState) (cty.Value, bool) {
		return guard(func() cty.Value { mutateSlice(st.S[0].Values()); return cty.NilVal })
	})
	add("mutate T0.AttributeTypes() copy? (read-only accessor: not mutated) / T1.OptionalAttributes read", "", false, func(st *immState) (cty.Value, bool) {
		return guard(func() cty.Value {
			_ = st.T[0].AttributeTypes()
			_ = st.T[1].OptionalAttributes()
			_ = st.T[1].WithoutOptionalAttributesDeep()
			return cty.NilVal
		})
	})
	// --- constructor keeps nothing of its argument: the argument is retained
	// in G and clobbered by a LATER operation
	add("V4=ListVal(G.sl)", "G", false, func(st *immState) (cty.Value, bool) {
		return guard(func() cty.Value {
			sl := make([]cty.Value, 2, 4)
			sl[0], sl[1] = st.V[5], cty.NumberIntVal(4)
			st.G.sl = sl
			return cty.ListVal(sl)
		})
	})
	add("V4=TupleVal(G.sl)", "G", false, func(st *immState) (cty.Value, bool) {
		return guard(func() cty.Value {
			st.G.sl = []cty.Value{st.V[0], st.V[5]}
			return cty.TupleVal(st.G.sl)
		})
	})
	add("V4=SetVal(G.sl)", "G", false, func(st *immState) (cty.Value, bool) {
		return guard(func() cty.Value {
			st.G.sl = []cty.Value{st.V[5], cty.NumberIntVal(4)}
			return cty.SetVal(st.G.sl)
		})
	})
	add("V4=MapVal(G.m)", "G", false, func(st *immState) (cty.Value, bool) {
		return guard(func() cty.Value {
			st.G.m = map[string]cty.Value{"a": st.V[5], "b": cty.NumberIntVal(4)}
			return cty.MapVal(st.G.m)
		})
	})
	add("V4=ObjectVal(G.m)", "G", false, func(st *immState) (cty.Value, bool) {
		return guard(func() cty.Value {
			st.G.m = map[string]cty.Value{"a": st.V[0], "b": st.V[5]}
			return cty.ObjectVal(st.G.m)
		})
	})
	add("V4=unmarked(V5).WithMarks(G.marks)", "G", false, func(st *immState) (cty.Value, bool) {
		return guard(func() cty.Value {
			st.G.marks = cty.NewValueMarks("sensitive")
			v, _ := st.V[5].Unmark()
			return v.WithMarks(st.G.marks)
		})
	})
	add("V4=V1.WithMarks(G.marks)", "G", false, func(st *immState) (cty.Value, bool) {
		return guard(func() cty.Value {
			st.G.marks = cty.NewValueMarks("sensitive", "other")
			return st.V[1].WithMarks(st.G.marks)
		})
	})
	add("V4=V1un.MarkWithPaths(G.pvm)", "G", false, func(st *immState) (cty.Value, bool) {
		return guard(func() cty.Value {
			un, pvm := st.V[1].UnmarkDeepWithPaths()
			st.G.pvm = pvm
			return un.MarkWithPaths(pvm)
		})
	})
	// the retained arguments handed to the library once more: it must not modify them
	add("V4=V1un.MarkWithPaths(retained G.pvm) again", "", true, func(st *immState) (cty.Value, bool) {
		return guard(func() cty.Value {
			if st.G.pvm == nil {
				panic("nothing retained")
			}
			un, _ := st.V[1].UnmarkDeep()
			return un.MarkWithPaths(st.G.pvm)
		})
	})
	add("V4=TupleVal/ListVal/SetVal(retained G.sl) again", "", true, func(st *immState) (cty.Value, bool) {
		return guard(func() cty.Value {
			if st.G.sl == nil {
				panic("nothing retained")
			}
			t := cty.TupleVal(st.G.sl)
			out := []cty.Value{t}
			if l, ok := guard(func() cty.Value { return cty.ListVal(st.G.sl) }); ok {
				out = append(out, l)
			}
			if l, ok := guard(func() cty.Value { return cty.SetVal(st.G.sl) }); ok {
				out = append(out, l)
			}
			return cty.TupleVal(out)
		})
	})
	add("V4=ObjectVal/MapVal(retained G.m), WithMarks(retained G.marks) again", "", true, func(st *immState) (cty.Value, bool) {
		return guard(func() cty.Value {
			if st.G.m == nil && st.G.marks == nil {
				panic("nothing retained")
			}
			out := []cty.Value{}
			if st.G.m != nil {
				out = append(out, cty.ObjectVal(st.G.m))
				if l, ok := guard(func() cty.Value { return cty.MapVal(st.G.m) }); ok {
					out = append(out, l)
				}
			}
			if st.G.marks != nil {
				u, _ := st.V[5].Unmark()
				out = append(out, u.WithMarks(st.G.marks), st.V[1].WithMarks(st.G.marks, cty.NewValueMarks("q")))
			}
			return cty.TupleVal(out)
		})
	})
	add("clobber retained arguments G", "G", false, func(st *immState) (cty.Value, bool) {
		return guard(func() cty.Value {
			if st.G.sl == nil && st.G.m == nil && st.G.marks == nil && st.G.pvm == nil {
				panic("nothing retained")
			}
			mutateSlice(st.G.sl)
			if st.G.m != nil {
				mutateMap(st.G.m)
			}
			if st.G.marks != nil {
				mutateMarks(st.G.marks)
			}
			for i := range st.G.pvm {
				mutateMarks(st.G.pvm[i].Marks)
				for j := range st.G.pvm[i].Path {
					st.G.pvm[i].Path[j] = cty.GetAttrStep{Name: "clobbered"}
				}
			}
			st.G.sl, st.G.m, st.G.marks, st.G.pvm = nil, nil, nil, nil
			return cty.NilVal
		})
	})
	add("T0=Object(m)/Tuple(sl) read back (ownership transfer documented: not mutated)", "T0", false, func(st *immState) (cty.Value, bool) {
		return guard(func() cty.Value {
			st.T[0] = cty.Object(map[string]cty.Type{"a": cty.String, "z": st.T[0]})
			return cty.NilVal
		})
	})
	// --- value sets
	ints := hashCollidingInts()
	for k := 0; k < 4; k++ {
		k := k
		add(fmt.Sprintf("S0.Add(i%d)", k), "S0", false, func(st *immState) (cty.Value, bool) {
			return guard(func() cty.Value { st.S[0].Add(ints[k]); return cty.NilVal })
		})
		add(fmt.Sprintf("S0.Remove(i%d)", k), "S0", false, func(st *immState) (cty.Value, bool) {
			return guard(func() cty.Value { st.S[0].Remove(ints[k]); return cty.NilVal })
		})
	}
	for k := 0; k < 4; k++ {
		k := k
		add(fmt.Sprintf("S1.Remove(c%d)", k), "S1", false, func(st *immState) (cty.Value, bool) {
			return guard(func() cty.Value { st.S[1].Remove(cty.CapsuleVal(capsTypes[0], c20Caps[k])); return cty.NilVal })
		})
	}
	add("S1.Add(c3)", "S1", false, func(st *immState) (cty.Value, bool) {
		return guard(func() cty.Value { st.S[1].Add(cty.CapsuleVal(capsTypes[0], c20Caps[3])); return cty.NilVal })
	})
	add("S0,S1 = S0.Copy(), old S0 kept as V-set", "", false, func(st *immState) (cty.Value, bool) {
		return guard(func() cty.Value {
			old := st.S[0]
			st.S[0] = old.Copy()
			return cty.SetValFromValueSet(old)
		})
	})
	add("V4=SetValFromValueSet(S0)", "", true, func(st *immState) (cty.Value, bool) {
		return guard(func() cty.Value {
			return cty.SetValFromValueSet(st.S[0])
		})
	})
	add("V4=SetValFromValueSet(S1)", "", true, func(st *immState) (cty.Value, bool) {
		return guard(func() cty.Value {
			return cty.SetValFromValueSet(st.S[1])
		})
	})
	// copies taken while the set is empty (an empty set has no bucket to copy)
	add("S0=NewValueSet(number) (empty)", "", false, func(st *immState) (cty.Value, bool) {
		return guard(func() cty.Value { st.S[0] = cty.NewValueSet(cty.Number); return cty.NilVal })
	})
	add("S0=V(empty set).AsValueSet()", "", false, func(st *immState) (cty.Value, bool) {
		return guard(func() cty.Value {
			e := cty.SetValEmpty(cty.Number)
			st.S[0] = e.AsValueSet()
			return e
		})
	})
	add("S0=V2.AsValueSet()", "", false, func(st *immState) (cty.Value, bool) {
		return guard(func() cty.Value { st.S[0] = st.V[2].AsValueSet(); return cty.NilVal })
	})
	add("S0=S0.Union(V2set)", "", false, func(st *immState) (cty.Value, bool) {
		return guard(func() cty.Value { st.S[0] = st.S[0].Union(st.V[2].AsValueSet()); return cty.NilVal })
	})
	add("S1copy=S1.Copy(); S1copy.Remove(first)", "", false, func(st *immState) (cty.Value, bool) {
		return guard(func() cty.Value {
			c := st.S[1].Copy()
			for _, e := range c.Values() {
				c.Remove(e)
				break
			}
			return cty.NilVal
		})
	})
	// --- refinement builder
	add("B=V3.Refine()", "B", false, func(st *immState) (cty.Value, bool) {
		return guard(func() cty.Value { st.B = st.V[3].Refine(); return cty.NilVal })
	})
	add("B.NumberRangeUpperBound(10)", "B", false, func(st *immState) (cty.Value, bool) {
		return guard(func() cty.Value {
			if st.B == nil {
				panic("no builder")
			}
			st.B = st.B.NumberRangeUpperBound(cty.NumberIntVal(10), true)
			return cty.NilVal
		})
	})
	add("B.NumberRangeLowerBound(5)", "B", false, func(st *immState) (cty.Value, bool) {
		return guard(func() cty.Value {
			if st.B == nil {
				panic("no builder")
			}
			st.B = st.B.NumberRangeLowerBound(cty.NumberIntVal(5), false)
			return cty.NilVal
		})
	})
	add("V4=B.NewValue()", "", false, func(st *immState) (cty.Value, bool) {
		return guard(func() cty.Value {
			if st.B == nil {
				panic("no builder")
			}
			return st.B.NewValue()
		})
	})
	add("V4=V3.RefineWith(upper 7)", "", true, func(st *immState) (cty.Value, bool) {
		return guard(func() cty.Value {
			return st.V[3].RefineWith(func(b *cty.RefinementBuilder) *cty.RefinementBuilder {
				return b.NumberRangeUpperBound(cty.NumberIntVal(7), false)
			})
		})
	})
	// --- refined unknowns whose nullness is still open, refined again (the refinement record of
	// the value a builder starts from belongs to that value)
	add("V4=unknown(string) prefix p (nullness open)", "", true, func(st *immState) (cty.Value, bool) {
		return guard(func() cty.Value { return cty.UnknownVal(cty.String).Refine().StringPrefixFull("p").NewValue() })
	})
	add("V4=unknown(list) length >= 1 (nullness open)", "", true, func(st *immState) (cty.Value, bool) {
		return guard(func() cty.Value {
			return cty.UnknownVal(cty.List(cty.String)).Refine().CollectionLengthLowerBound(1).NewValue()
		})
	})
	add("V4=unknown(number) <= 9 (nullness open)", "", true, func(st *immState) (cty.Value, bool) {
		return guard(func() cty.Value {
			return cty.UnknownVal(cty.Number).Refine().NumberRangeUpperBound(cty.NumberIntVal(9), true).NewValue()
		})
	})
	add("V4=V4.Refine().Null().NewValue()", "", true, func(st *immState) (cty.Value, bool) {
		return guard(func() cty.Value { return st.V[4].Refine().Null().NewValue() })
	})
	add("V4=V4.RefineNotNull()", "", true, func(st *immState) (cty.Value, bool) {
		return guard(func() cty.Value { return st.V[4].RefineNotNull() })
	})
	add("V4=V4.Refine().NewValue()", "", true, func(st *immState) (cty.Value, bool) {
		return guard(func() cty.Value { return st.V[4].Refine().NewValue() })
	})
	add("B=V4.Refine()", "B", false, func(st *immState) (cty.Value, bool) {
		return guard(func() cty.Value { st.B = st.V[4].Refine(); return cty.NilVal })
	})
	add("B.Null()", "B", false, func(st *immState) (cty.Value, bool) {
		return guard(func() cty.Value {
			if st.B == nil {
				panic("no builder")
			}
			st.B = st.B.Null()
			return cty.NilVal
		})
	})
	add("B.NotNull()", "B", false, func(st *immState) (cty.Value, bool) {
		return guard(func() cty.Value {
			if st.B == nil {
				panic("no builder")
			}
			st.B = st.B.NotNull()
			return cty.NilVal
		})
	})
	// --- path set
	add("P.Add / P.AddAllSteps", "P", false, func(st *immState) (cty.Value, bool) {
		return guard(func() cty.Value {
			p := cty.GetAttrPath("b").IndexInt(1).GetAttr("c")
			st.P.AddAllSteps(p)
			return cty.NilVal
		})
	})
	return ops
}

func must(err error) {
	if err != nil {
		panic(err)
	}
}

type immSys struct {
	ops []immOp
}

func (s *immSys) NumOps() int         { return len(s.ops) }
func (s *immSys) OpName(i int) string { return s.ops[i].name }
func (s *immSys) New() E2Inst         { return &immInst{sys: s, st: newImmState()} }

type immInst struct {
	sys *immSys
	st  *immState
}

func (in *immInst) Key() string {
	fp := in.st.fingerprints()
	names := make([]string, 0, len(fp))
	for n := range fp {
		names = append(names, n)
	}
	sort.Strings(names)
	var b strings.Builder
	for _, n := range names {
		b.WriteString(n + "=" + fp[n] + ";")
	}
	return b.String()
}

func (in *immInst) Apply(opi int, check bool, report func(site, shape, detail string)) bool {
	op := in.sys.ops[opi]
	if !check {
		if r, ok := op.run(in.st); ok && r != cty.NilVal && strings.HasPrefix(op.name, "V4=") {
			in.st.push(r)
		} else if ok && r != cty.NilVal && strings.Contains(op.name, "old S0 kept") {
			in.st.push(r)
		}
		return true
	}
	before := in.st.fingerprints()
	obsBefore := in.observe()
	gBefore := globalsBaseline()
	// values referenced before the call (to compare observations after it)
	r, ok := op.run(in.st)
	if !ok {
		// the operation is not enabled in this state (rejected / precondition)
		after := in.st.fingerprints()
		in.compare(op, before, after, obsBefore, gBefore, report, true)
		return false
	}
	var r2 cty.Value
	ok2 := true
	if op.pure {
		r2, ok2 = op.run(in.st)
	}
	after := in.st.fingerprints()
	in.compare(op, before, after, obsBefore, gBefore, report, false)
	if op.pure {
		if !ok2 || !rawEq(r, r2) {
			report("impure", op.name, fmt.Sprintf("repeating %s on the same operands gave %s, then %s", op.name, goStr(r), goStr(r2)))
		}
	}
	if r != cty.NilVal && (strings.HasPrefix(op.name, "V4=") || strings.Contains(op.name, "old S0 kept")) {
		if why := wf(r); why != "" {
			report("malformed", op.name, fmt.Sprintf("%s returned a malformed value: %s", op.name, why))
		}
		in.st.push(r)
	}
	report("__class", "transition", "")
	return true
}

// observe records what every pool object reports through the public API.
func (in *immInst) observe() map[string]string {
	out := map[string]string{}
	st := in.st
	for i, v := range st.V {
		out[fmt.Sprintf("V%d", i)] = goStr(v)
	}
	for i, s := range st.S {
		var parts []string
		for _, e := range s.Values() {
			parts = append(parts, goStr(e))
		}
		out[fmt.Sprintf("S%d", i)] = strings.Join(parts, ",")
	}
	for i, b := range st.Bytes {
		out[fmt.Sprintf("Bytes%d", i)] = string(b)
	}
	for i, t := range st.T {
		out[fmt.Sprintf("T%d", i)] = tsOf(t).Canon()
	}
	var ps []string
	for _, p := range st.P.List() {
		ps = append(ps, canonPath(p))
	}
	sort.Strings(ps)
	out["P"] = strings.Join(ps, ",")
	for i, p := range st.PA {
		out[fmt.Sprintf("PA%d", i)] = pathStr(p)
	}
	return out
}

func (in *immInst) compare(op immOp, before, after map[string]string, obsBefore, gBefore map[string]string, report func(site, shape, detail string), rejected bool) {
	obsAfter := in.observe()
	// objects the call replaces in the pool (assignment to a slot, not a mutation)
	replaced := map[string]bool{}
	switch {
	case strings.HasPrefix(op.name, "V4="):
		// V4/V5 rotate after compare (push happens later), nothing replaced yet
	case strings.HasPrefix(op.name, "S0=") || strings.HasPrefix(op.name, "S0,S1"):
		replaced["S0"] = true
	case strings.HasPrefix(op.name, "B="):
		replaced["B"] = true
	}
	if op.mutates != "" {
		replaced[op.mutates] = true
	}
	names := make([]string, 0, len(before))
	for n := range before {
		names = append(names, n)
	}
	sort.Strings(names)
	for _, n := range names {
		if replaced[n] {
			continue
		}
		if before[n] != after[n] {
			detail := fmt.Sprintf("%s changed the memory reachable from pre-existing object %s", op.name, n)
			if obsBefore[n] != obsAfter[n] {
				detail += fmt.Sprintf(": it reported %s before and %s after", trunc(obsBefore[n], 300), trunc(obsAfter[n], 300))
				report("mutates-existing-object", op.name+" -> "+n, detail)
			} else {
				report("writes-shared-memory", op.name+" -> "+n, detail+" (not visible through the public API, but a write to shared memory)")
			}
		}
	}
	gAfter := fingerprintGlobals()
	gnames := make([]string, 0, len(gBefore))
	for n := range gBefore {
		gnames = append(gnames, n)
	}
	sort.Strings(gnames)
	for _, n := range gnames {
		if gBefore[n] != gAfter[n] {
			gBaseline = gAfter
			if pkg := strings.SplitN(n, ".", 2)[0]; pkgHasSyncVars(pkg) {
				// the package owns synchronisation objects, so the write may be protected by
				// one; this binary cannot tell.  The schedule engine can (its shims know which
				// locks a thread holds at the statement that writes) and decides it.
				report("__class", "global-write-in-package-with-synchronisation-objects", "")
				continue
			}
			report("writes-package-variable", op.name+" -> "+n, fmt.Sprintf("%s changed package-level variable %s (the package has no synchronisation object that could protect it)", op.name, n))
		}
	}
}

func trunc(s string, n int) string {
	if len(s) > n {
		return s[:n] + "…"
	}
	return s
}

func runC20(c *Ctx) {
	depth := 3
	if c.Thorough {
		depth = 4
	}
	c.Note("history_depth", fmtInt(depth))
	c.Note("globals_fingerprinted", fmt.Sprint(globalsAvailable))
	ng := 0
	for _, vars := range packageGlobals() {
		ng += len(vars)
	}
	c.Note("package_level_variables", fmtInt(ng))
	// coverage of the schedule engine (run.sh runs it first, in its own binary)
	if p := os.Getenv("VERIF_SCHED_EVIDENCE"); p != "" {
		var ev struct {
			Coverage map[string]interface{} `json:"coverage"`
			WallS    float64                `json:"wall_s"`
		}
		if b, err := os.ReadFile(p); err == nil && json.Unmarshal(b, &ev) == nil {
			c.Note("schedule_engine", "E4 controlled scheduler at statement granularity (tools/genyield + mc/c20sched.go)")
			for _, k := range []string{"states", "transitions", "evaluations", "exhaustive", "scenarios", "thread_bodies", "full_enumeration_when_statement_boundaries_at_most", "preemption_bound_2_when_statement_boundaries_at_most", "outcome_classes", "violations_total"} {
				if v, ok := ev.Coverage[k]; ok {
					vb, _ := json.Marshal(v)
					c.Note("schedule_"+k, string(vb))
				}
			}
			c.Note("schedule_wall_s", fmt.Sprintf("%.1f", ev.WallS))
		} else {
			c.Note("schedule_engine", "no result (the scheduler binary did not run or failed)")
		}
	} else {
		c.Note("schedule_engine", "not run in this invocation")
	}
	c20RepeatedReads(c)
	sys := &immSys{ops: c20Ops()}
	c.Note("operation_alphabet", fmtInt(len(sys.ops)))
	exploreE2(c, sys, depth, "history.")
	c20Purity(c)
	c20Concurrent(c, sys)
}

// pkgHasSyncVars reports whether a go-cty package declares a package-level variable that is
// or contains a synchronisation object (sync.Mutex, sync.Pool, sync.Map, atomics, ...).
func pkgHasSyncVars(pkg string) bool {
	for _, ptr := range packageGlobals()[pkg] {
		if t := reflect.TypeOf(ptr); t != nil && t.Kind() == reflect.Ptr && typeHasSync(t.Elem(), 0) {
			return true
		}
	}
	return false
}

// c20RepeatedReads: every operation is a function of its operands, so reading one value again and
// again gives the same answer each time.  The values are chosen so that an answer computed by
// ranging over a Go map (whose iteration order varies from one range statement to the next and is
// the one source of nondeterminism the harness cannot steer) would show: sets with members that
// no comparison orders and that live in different hash buckets, sets / maps / objects with more
// members than one map bucket holds, nested.  64 reads each; results compared as printed.
func c20RepeatedReads(c *Ctx) {
	c.Note("repeated_reads", "10 values x 6 accessors x 64 reads: Go map iteration order is not under the harness's control, so this clause repeats reads instead of enumerating orders (a result that depends on map order flips with probability >= 1/8 per read)")
	c.Unit(func(u *U) {
		a, b, w := cty.NumberFloatVal(0.1), cty.NumberFloatVal(0.1).Add(cty.NumberIntVal(0)), cty.NumberFloatVal(0.1).Multiply(parseNum("1"))
		var many []cty.Value
		manyMap := map[string]cty.Value{}
		for i := 0; i < 20; i++ {
			many = append(many, cty.NumberIntVal(int64(i*7919)))
			manyMap[fmt.Sprintf("k%02d", i)] = cty.StringVal(fmt.Sprint(i))
		}
		caps := []cty.Value{cty.CapsuleVal(capsTypes[0], &capsNative{1}), cty.CapsuleVal(capsTypes[0], &capsNative{2}), cty.CapsuleVal(capsTypes[0], &capsNative{3})}
		vals := []cty.Value{
			cty.SetVal([]cty.Value{a, b}), cty.SetVal([]cty.Value{a, b, w}), cty.SetVal([]cty.Value{w, a, cty.NumberIntVal(1), b}),
			cty.SetVal([]cty.Value{cty.TupleVal([]cty.Value{a}), cty.TupleVal([]cty.Value{b}), cty.TupleVal([]cty.Value{w})}),
			cty.ObjectVal(map[string]cty.Value{"s": cty.SetVal([]cty.Value{a, w})}),
			cty.SetVal(many), cty.MapVal(manyMap), cty.ObjectVal(manyMap), cty.SetVal(caps),
			cty.SetVal([]cty.Value{cty.StringVal("a"), cty.StringVal("b"), cty.UnknownVal(cty.String), cty.UnknownVal(cty.String).RefineNotNull()}),
		}
		reads := []struct {
			name string
			f    func(v cty.Value) string
		}{
			{"GoString", func(v cty.Value) string { return goStr(v) }},
			{"ElementIterator", func(v cty.Value) string {
				s := ""
				for it := v.ElementIterator(); it.Next(); {
					k, e := it.Element()
					s += goStr(k) + "=" + goStr(e) + ";"
				}
				return s
			}},
			{"RawEquals(self)", func(v cty.Value) string { return fmt.Sprint(v.RawEquals(v)) }},
			{"Equals(self)", func(v cty.Value) string { return goStr(v.Equals(v)) }},
			{"Type", func(v cty.Value) string { return v.Type().GoString() }},
			{"Range", func(v cty.Value) string {
				r := v.Range()
				return fmt.Sprint(r.DefinitelyNotNull(), r.LengthLowerBound(), r.LengthUpperBound())
			}},
		}
		for _, v := range vals {
			for _, rd := range reads {
				u.Eval(1)
				u.DistinctN(1)
				var first string
				ok := func() (ok bool) {
					defer func() { recover() }()
					first = rd.f(v)
					return true
				}()
				if !ok {
					continue
				}
				for k := 0; k < 64; k++ {
					again := ""
					func() {
						defer func() { recover() }()
						again = rd.f(v)
					}()
					if again != first {
						u.Violation("purity.repeated-read-differs", shapeOf(v)+" / "+rd.name, fmt.Sprintf("%s of one value read repeatedly gives %s and then %s", rd.name, trunc(first, 300), trunc(again, 300)))
						break
					}
				}
				u.Class("repeated-read-stable")
			}
		}
	})
}
