package main

import (
	"fmt"
	"math/big"
	"strings"

	"github.com/zclconf/go-cty/cty"
)

// opDef is one operation method of cty.Value as explored by C01/C02/C04.
type opDef struct {
	Name    string
	Arity   int
	Call    func(a []cty.Value) cty.Value
	NonNull bool   // result must never be null
	Kind    string // num2 num1 bool2 bool1 eq getattr index hasindex haselement length
}

var valueOps = []opDef{
	{"Add", 2, func(a []cty.Value) cty.Value { return a[0].Add(a[1]) }, true, "num2"},
	{"Subtract", 2, func(a []cty.Value) cty.Value { return a[0].Subtract(a[1]) }, true, "num2"},
	{"Multiply", 2, func(a []cty.Value) cty.Value { return a[0].Multiply(a[1]) }, true, "num2"},
	{"Divide", 2, func(a []cty.Value) cty.Value { return a[0].Divide(a[1]) }, true, "num2"},
	{"Modulo", 2, func(a []cty.Value) cty.Value { return a[0].Modulo(a[1]) }, true, "num2"},
	{"LessThan", 2, func(a []cty.Value) cty.Value { return a[0].LessThan(a[1]) }, true, "num2"},
	{"GreaterThan", 2, func(a []cty.Value) cty.Value { return a[0].GreaterThan(a[1]) }, true, "num2"},
	{"LessThanOrEqualTo", 2, func(a []cty.Value) cty.Value { return a[0].LessThanOrEqualTo(a[1]) }, true, "num2"},
	{"GreaterThanOrEqualTo", 2, func(a []cty.Value) cty.Value { return a[0].GreaterThanOrEqualTo(a[1]) }, true, "num2"},
	{"Negate", 1, func(a []cty.Value) cty.Value { return a[0].Negate() }, true, "num1"},
	{"Absolute", 1, func(a []cty.Value) cty.Value { return a[0].Absolute() }, true, "num1"},
	{"Not", 1, func(a []cty.Value) cty.Value { return a[0].Not() }, true, "bool1"},
	{"And", 2, func(a []cty.Value) cty.Value { return a[0].And(a[1]) }, true, "bool2"},
	{"Or", 2, func(a []cty.Value) cty.Value { return a[0].Or(a[1]) }, true, "bool2"},
	{"Equals", 2, func(a []cty.Value) cty.Value { return a[0].Equals(a[1]) }, true, "eq"},
	{"NotEqual", 2, func(a []cty.Value) cty.Value { return a[0].NotEqual(a[1]) }, true, "eq"},
	{"Index", 2, func(a []cty.Value) cty.Value { return a[0].Index(a[1]) }, false, "index"},
	{"HasIndex", 2, func(a []cty.Value) cty.Value { return a[0].HasIndex(a[1]) }, true, "hasindex"},
	{"HasElement", 2, func(a []cty.Value) cty.Value { return a[0].HasElement(a[1]) }, true, "haselement"},
	{"Length", 1, func(a []cty.Value) cty.Value { return a[0].Length() }, true, "length"},
	// GetAttr takes a Go string; modelled with a string-valued second operand
	// that is never weakened.
	{"GetAttr", 2, func(a []cty.Value) cty.Value { return a[0].GetAttr(a[1].AsString()) }, false, "getattr"},
}

// callOp runs an operation under recover.
func callOp(op *opDef, args []cty.Value) (ret cty.Value, panicked bool, msg string) {
	defer func() {
		if r := recover(); r != nil {
			panicked, msg = true, fmt.Sprint(r)
		}
	}()
	return op.Call(args), false, ""
}

// structTypes is the shared core of composite types used for value pools.
func structTypes(thorough bool) []*TS {
	ts := []*TS{
		tsBool, tsNum, tsStr,
		tList(tsStr), tList(tsNum), tSet(tsStr), tSet(tsNum), tMap(tsStr), tMap(tsNum),
		tTuple(), tTuple(tsStr), tTuple(tsStr, tsNum), tObj(), tObj(at("a", tsStr)), tObj(at("a", tsStr), at("b", tsNum)),
		tList(tList(tsNum)), tList(tObj(at("a", tsStr))), tSet(tTuple(tsStr, tsNum)), tMap(tList(tsStr)),
		tTuple(tList(tsStr), tObj(at("a", tsNum))), tObj(at("a", tList(tsStr))), tObj(at("a", tTuple(tsNum))),
		tSet(tList(tsNum)), tsCaps0, tsCaps1, tList(tsBool), tSet(tsBool), tObj(at("e\u0301", tsStr)),
		tTuple(tsDyn), tObj(at("a", tsDyn)), tList(tsDyn), tMap(tsDyn), tSet(tsDyn),
	}
	if thorough {
		ts = append(ts,
			tSet(tObj(at("a", tsStr), at("b", tsNum))), tMap(tMap(tsNum)), tList(tSet(tsStr)), tSet(tSet(tsNum)),
			tTuple(tsNum, tsNum), tTuple(tTuple(tsStr)), tObj(at("a", tObj(at("b", tsStr)))), tMap(tObj(at("a", tsNum))),
			tList(tTuple(tsStr, tsNum)), tSet(tMap(tsStr)), tMap(tSet(tsNum)), tMap(tBoolT()), tList(tsCaps1), tSet(tsCaps1),
		)
	}
	return ts
}

func tBoolT() *TS { return tsBool }

// structPool returns a pool of known values (nulls included) over structTypes.
func structPool(thorough bool) []cty.Value {
	o := defaultValOpts(thorough)
	o.Nums = []cty.Value{cty.NumberIntVal(0), cty.NumberIntVal(1), cty.NumberFloatVal(2.5), cty.NumberFloatVal(0.1), parseNum("0.1"), cty.PositiveInfinity}
	o.Strs = []string{"", "a", "b", "e\u0301", "\u00e9", "ab"}
	o.CapPerTy = 9
	if thorough {
		o.CapPerTy = 16
	}
	var pool []cty.Value
	for _, t := range structTypes(thorough) {
		pool = append(pool, knownValues(t, o, true)...)
	}
	pool = append(pool, cty.NullVal(cty.DynamicPseudoType))
	return pool
}

type opCase struct {
	op   *opDef
	args []cty.Value
}

func opByName(n string) *opDef {
	for i := range valueOps {
		if valueOps[i].Name == n {
			return &valueOps[i]
		}
	}
	panic(n)
}

// c01Cases enumerates (operation, wholly-known operand tuple) cases in a
// fixed simplest-first order.
func c01Cases(thorough bool, emit func(oc opCase)) {
	nums := mkNums(numAlphabet(thorough))
	bools := []cty.Value{cty.True, cty.False}
	for i := range valueOps {
		op := &valueOps[i]
		switch op.Kind {
		case "num2":
			for _, a := range nums {
				for _, b := range nums {
					emit(opCase{op, []cty.Value{a, b}})
				}
			}
		case "num1":
			for _, a := range nums {
				emit(opCase{op, []cty.Value{a}})
			}
		case "bool1":
			for _, a := range bools {
				emit(opCase{op, []cty.Value{a}})
			}
		case "bool2":
			for _, a := range bools {
				for _, b := range bools {
					emit(opCase{op, []cty.Value{a, b}})
				}
			}
		}
	}
	pool := structPool(thorough)
	// equality: all same-type pairs, plus every value against one
	// representative of every other type (cross-type and null pairs)
	eqOps := []*opDef{opByName("Equals"), opByName("NotEqual")}
	reps := map[string]int{}
	var repIdx []int
	for i, v := range pool {
		k := tsOf(v.Type()).Canon()
		if _, ok := reps[k]; !ok {
			reps[k] = i
			repIdx = append(repIdx, i)
		}
	}
	// also the last value of every type (the null)
	lastOf := map[string]int{}
	for i, v := range pool {
		lastOf[tsOf(v.Type()).Canon()] = i
	}
	for _, i := range lastOf {
		_ = i
	}
	for _, op := range eqOps {
		for i, a := range pool {
			ka := tsOf(a.Type()).Canon()
			for j, b := range pool {
				kb := tsOf(b.Type()).Canon()
				if ka == kb || reps[kb] == j || lastOf[kb] == j || refConforms(tsOf(a.Type()), tsOf(b.Type())) || refConforms(tsOf(b.Type()), tsOf(a.Type())) {
					emit(opCase{op, []cty.Value{a, b}})
				}
			}
			_ = i
		}
	}
	// keys
	keys := []cty.Value{
		cty.NumberIntVal(0), cty.NumberIntVal(1), cty.NumberIntVal(2), cty.NumberIntVal(-1), cty.NumberFloatVal(0.5),
		cty.StringVal("k1"), cty.StringVal("k2"), cty.StringVal("zz"), cty.StringVal("e\u0301"), cty.True,
	}
	if thorough {
		keys = append(keys, cty.NumberIntVal(3), cty.NumberUIntVal(1<<63), parseNum("18446744073709551616"), cty.StringVal("\u00e9"), cty.NullVal(cty.Number), cty.NullVal(cty.String))
	}
	attrNames := []string{"a", "b", "zz", "e\u0301", "\u00e9"}
	for _, v := range pool {
		ty := v.Type()
		if ty.IsListType() || ty.IsMapType() || ty.IsTupleType() {
			for _, k := range keys {
				emit(opCase{opByName("Index"), []cty.Value{v, k}})
				emit(opCase{opByName("HasIndex"), []cty.Value{v, k}})
			}
		}
		if ty.IsObjectType() {
			for _, n := range attrNames {
				emit(opCase{opByName("GetAttr"), []cty.Value{v, cty.StringVal(n)}})
			}
		}
		if ty.IsCollectionType() || ty.IsTupleType() {
			emit(opCase{opByName("Length"), []cty.Value{v}})
		}
		if ty.IsSetType() {
			// candidates: every pool value of the element type, plus a few of other types
			ek := tsOf(ty.ElementType()).Canon()
			for _, cand := range pool {
				ck := tsOf(cand.Type()).Canon()
				if ck == ek || cand.Type() == cty.Bool {
					emit(opCase{opByName("HasElement"), []cty.Value{v, cand}})
				}
			}
		}
	}
}

func init() {
	register(&Check{
		ID:    "C01",
		Level: "exploration",
		Rule: "every (operation method, wholly known operand tuple) over the bounded value universe x every weakening of <=k operand positions (root or nested, depth<=2) to an unknown whose refinements are true of the replaced part (reference relation admits), or to DynamicVal at operand level; " +
			"a case = (operation, operands, weakening); distinct by its GoString; non-trivial = concrete call succeeded and at least one position was weakened",
		Assumptions: []string{
			"concretisation relation admits() written from docs/refinements.md (DESIGN appendix A), reading abstract results through public accessors",
			"weakenings are generated by the library's own refinement builder and kept only when the reference relation says they admit the replaced part",
			"leaf alphabets: numbers numCore/numFull, strings strAlphabet; collections of length <= 2 (sets <= 3)",
		},
		Run: runC01,
	})
}

func argsStr(args []cty.Value) string {
	parts := make([]string, len(args))
	for i, a := range args {
		parts[i] = goStr(a)
	}
	return strings.Join(parts, ", ")
}

func shapesStr(args []cty.Value) string {
	parts := make([]string, len(args))
	for i, a := range args {
		parts[i] = shapeOf(a)
	}
	return strings.Join(parts, " ; ")
}

func runC01(c *Ctx) {
	k := 2
	c.Note("bound_k_positions", fmt.Sprint(k))
	weakenAlts = 3
	c.Note("alt_concretisations_per_weakening", fmt.Sprint(weakenAlts))
	// history clause first, so that each worker process meets it in its initial state
	histFamily(c, "Length of unknown collections with boundary length bounds", c01HistoryOps)
	c01Cases(c.Thorough, func(oc opCase) {
		c.Unit(func(u *U) {
			op := oc.op
			r0, p0, _ := callOp(op, oc.args)
			u.Eval(1)
			if p0 {
				u.Class("concrete-rejected")
				return
			}
			u.Class("concrete-ok")
			// converse clause
			if !whollyKnownRef(r0) {
				u.Violation(op.Name+".known-in-known-out", shapesStr(oc.args), fmt.Sprintf("%s(%s) with wholly known operands returned %s", op.Name, argsStr(oc.args), goStr(r0)))
			}
			if op.NonNull && r0.IsNull() {
				u.Violation(op.Name+".non-null", shapesStr(oc.args), fmt.Sprintf("%s(%s) returned null %s", op.Name, argsStr(oc.args), goStr(r0)))
			}
			// weakenings: per operand, then pairs
			nargs := len(oc.args)
			if op.Kind == "getattr" {
				nargs = 1
			}
			ws := make([][]Weakened, nargs)
			full := c.Thorough
			for i := 0; i < nargs; i++ {
				ws[i] = weakenValue(oc.args[i], k, full, 2)
			}
			try := func(args []cty.Value, desc string) {
				u.Eval(1)
				rW, pW, msg := callOp(op, args)
				key := op.Name + "(" + argsStr(args) + ")"
				u.Distinct(key)
				if pW {
					u.Violation(op.Name+".weakened-fails", shapesStr(args), fmt.Sprintf("%s(%s) succeeded with %s but the weakened call %s panicked: %s [weakening %s]", op.Name, argsStr(oc.args), goStr(r0), key, msg, desc))
					return
				}
				if ok, why := admits(rW, r0); !ok {
					u.Violation(op.Name+".excludes-concrete", shapesStr(args)+" => "+shapeOf(rW), fmt.Sprintf("%s(%s) = %s, but weakened call %s = %s which excludes it: %s", op.Name, argsStr(oc.args), goStr(r0), key, goStr(rW), why))
				}
				switch {
				case !rW.IsKnown() && rW.Type() == cty.DynamicPseudoType:
					u.Class("abstract-dynamic")
				case !rW.IsKnown():
					u.Class("abstract-unknown")
				case whollyKnownRef(rW):
					u.Class("abstract-known")
				default:
					u.Class("abstract-partly-known")
				}
				if u.WantSample() {
					u.Sample(map[string]string{"op": op.Name, "concrete": argsStr(oc.args), "concrete_result": goStr(r0), "weakened": argsStr(args), "abstract_result": goStr(rW)})
				}
			}
			for i := 0; i < nargs; i++ {
				for _, w := range ws[i] {
					args := append([]cty.Value(nil), oc.args...)
					args[i] = w.V
					try(args, fmt.Sprintf("arg%d %s", i, w.Desc))
					// the abstract result must admit the concrete result of every
					// other concretisation of the weakened operand as well
					if len(w.Alts) == 0 {
						continue
					}
					rW, pW, _ := callOp(op, args)
					if pW {
						continue
					}
					for _, alt := range w.Alts {
						cargs := append([]cty.Value(nil), oc.args...)
						cargs[i] = alt
						rA, pA, _ := callOp(op, cargs)
						u.Eval(1)
						if pA {
							continue
						}
						u.Class("alt-concretisation")
						if ok, why := admits(rW, rA); !ok {
							site := op.Name + ".excludes-other-concretisation"
							if ex, okx := exactArith(op.Name, cargs); okx {
								if ok2, _ := admits(rW, ex); ok2 {
									// the bounds hold for the exact real result; only the
									// concrete result's rounding to operand precision leaves them
									site = op.Name + ".excludes-rounded-concretisation"
								}
							}
							u.Violation(site, shapesStr(args)+" => "+shapeOf(rW), fmt.Sprintf("weakened call %s(%s) = %s; the weakened operand also admits %s, for which %s(%s) = %s, which the abstract result excludes: %s", op.Name, argsStr(args), goStr(rW), goStr(alt), op.Name, argsStr(cargs), goStr(rA), why))
						}
					}
				}
			}
			if nargs == 2 {
				for _, wa := range ws[0] {
					if wa.N != 1 {
						continue
					}
					for _, wb := range ws[1] {
						if wb.N != 1 {
							continue
						}
						try([]cty.Value{wa.V, wb.V}, fmt.Sprintf("arg0 %s; arg1 %s", wa.Desc, wb.Desc))
					}
				}
			}
		})
	})
}

// exactArith computes Add/Subtract/Multiply of two finite numbers without
// rounding (mantissa wide enough for every alphabet member).
func exactArith(name string, args []cty.Value) (cty.Value, bool) {
	if len(args) != 2 || args[0].Type() != cty.Number || args[1].Type() != cty.Number || !args[0].IsKnown() || !args[1].IsKnown() || args[0].IsNull() || args[1].IsNull() {
		return cty.NilVal, false
	}
	a, b := bf(args[0]), bf(args[1])
	if a.IsInf() || b.IsInf() {
		return cty.NilVal, false
	}
	r := new(big.Float).SetPrec(20000)
	switch name {
	case "Add":
		r.Add(a, b)
	case "Subtract":
		r.Sub(a, b)
	case "Multiply":
		r.Mul(a, b)
	default:
		return cty.NilVal, false
	}
	if r.Acc() != big.Exact {
		return cty.NilVal, false
	}
	return cty.NumberVal(r), true
}

// boundaryInts: sizes around powers of two (table sizes, pre-allocation caps, small-case fast
// paths are drawn there), shared by the history families.
var boundaryInts = []int{0, 1, 2, 3, 4, 5, 7, 8, 9, 15, 16, 17, 31, 32, 33, 63, 64, 65, 127, 128, 129, 255, 256, 257, 1023, 1024, 1025}

// c01HistoryOps: operations on unknown collections whose length bounds range over boundaryInts
// (and "no upper bound"), each judged by the property's own oracle: the result of Length on a
// placeholder admitting collections of n elements must admit n; Equals / HasIndex against known
// operands must not exclude what a concretisation would give.
func c01HistoryOps() []histOp {
	var ops []histOp
	tys := []cty.Type{cty.List(cty.String), cty.Set(cty.Number), cty.Map(cty.Bool)}
	for ti, ty := range tys {
		ty := ty
		bs := boundaryInts
		if ti > 0 {
			bs = []int{0, 1, 2, 7, 8, 9, 16, 1024}
		}
		for _, lo := range bs {
			for ui := -1; ui < len(bs); ui++ {
				lo, hi := lo, -1
				if ui >= 0 {
					hi = bs[ui]
					if hi < lo {
						continue
					}
				}
				mk := func() cty.Value {
					b := cty.UnknownVal(ty).Refine().NotNull()
					if lo > 0 {
						b = b.CollectionLengthLowerBound(lo)
					}
					if hi >= 0 {
						b = b.CollectionLengthUpperBound(hi)
					}
					return b.NewValue()
				}
				var last cty.Value
				desc := fmt.Sprintf("Length(unknown %s, not null, length %d..", ty.FriendlyName(), lo)
				if hi >= 0 {
					desc += fmt.Sprint(hi) + ")"
				} else {
					desc += "unbounded)"
				}
				probes := []int{lo, lo + 1, lo + 2, (lo + 9)}
				if hi >= 0 {
					probes = append(probes, hi, hi-1, (lo+hi)/2)
				} else {
					probes = append(probes, lo+1000, 1<<31, 1<<40)
				}
				ops = append(ops, histOp{
					desc: desc,
					run: func() string {
						last = cty.NilVal
						last = mk().Length()
						return goStr(last)
					},
					oracle: func(out string) string {
						if last == cty.NilVal {
							return "the call was rejected although Length of any concrete collection succeeds"
						}
						for _, n := range probes {
							if n < lo || (hi >= 0 && n > hi) {
								continue
							}
							if ok, why := admits(last, cty.NumberIntVal(int64(n))); !ok {
								return fmt.Sprintf("the placeholder admits collections of %d elements, whose Length is %d, which this result excludes (%s)", n, n, why)
							}
						}
						return ""
					},
					perturbing: lo <= 1 && (hi < 0 || hi == 8 || hi == 16 || hi == 1024 || hi == 0),
				})
			}
		}
	}
	return ops
}
