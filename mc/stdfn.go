package main

import (
	"fmt"
	"math"
	"os"
	"path/filepath"
	"regexp"
	"sort"
	"strings"

	"github.com/zclconf/go-cty/cty"
	"github.com/zclconf/go-cty/cty/function"
	"github.com/zclconf/go-cty/cty/function/stdlib"
)

// stdFn is one standard-library function as explored by C11..C14 (and the
// C04/C06 extensions).
type stdFn struct {
	Name string
	F    function.Function
	// Dict returns the per-position seed alphabet; nil entries fall back to
	// the generic alphabet for the parameter's type constraint.  pos counts
	// variadic arguments from len(Params).
	Dict func(pos int, thorough bool) []cty.Value
	// MaxVar bounds the number of variadic arguments (default 2 quick / 3 thorough).
	MaxVar int
}

var stdFns []*stdFn

func sv(ss ...string) []cty.Value {
	out := make([]cty.Value, len(ss))
	for i, s := range ss {
		out[i] = cty.StringVal(s)
	}
	return out
}

func nv(xs ...float64) []cty.Value {
	out := make([]cty.Value, len(xs))
	for i, x := range xs {
		if x == math.Trunc(x) && math.Abs(x) < 1e15 {
			out[i] = cty.NumberIntVal(int64(x))
		} else {
			out[i] = cty.NumberFloatVal(x)
		}
	}
	return out
}

func cat(vss ...[]cty.Value) []cty.Value {
	var out []cty.Value
	for _, vs := range vss {
		out = append(out, vs...)
	}
	return out
}

// countNums: numbers used where a parameter is a count / index / size.
// Values in (1025, 2^62) are deliberately absent: several functions allocate
// proportionally to such an argument (documented behaviour, not a defect).
func countNums(thorough bool) []cty.Value {
	out := nv(0, 1, -1, 2, 3, 0.5, -3, 5, 1025)
	out = append(out, cty.NumberUIntVal(1<<63), cty.PositiveInfinity, cty.NegativeInfinity)
	if thorough {
		out = append(out, nv(4, -2, -0.5, 2.5, 10, 1024)...)
		out = append(out, parseNum("18446744073709551616"), parseNum("1e30"), cty.NumberIntVal(math.MinInt64), cty.NumberFloatVal(math.Copysign(0, -1)), parseNum("0.1"))
	}
	return out
}

// intEdgeNums: whole numbers at the edges of the Go integer types, for count / index / size
// parameters of functions whose work does not grow with the argument (index arithmetic on such
// arguments can overflow).
func intEdgeNums() []cty.Value {
	return []cty.Value{cty.NumberIntVal(math.MaxInt64), cty.NumberIntVal(math.MaxInt64 - 1), cty.NumberIntVal(math.MaxInt64 - 2), cty.NumberIntVal(math.MaxInt64 - 3), cty.NumberIntVal(math.MinInt64), cty.NumberIntVal(math.MinInt64 + 1),
		cty.NumberIntVal(math.MaxInt32), cty.NumberIntVal(math.MaxInt32 + 1), cty.NumberIntVal(math.MinInt32), cty.NumberUIntVal(math.MaxUint64)}
}

// deepDict selects the largest alphabets (thorough tier of the reference
// checks C13/C14, which are cheap per case).
var deepDict = false

func arithNums(thorough bool) []cty.Value {
	if thorough && deepDict {
		out := mkNums(numAlphabet(true))
		out = append(out, nv(-0.1, 1.5, -1.5, 0.25, -0.75, 0.999999, -0.999999, 1.000001, -1e-9, 1e-9, 99.5, -99.5, 1e15, 123456789.125, 4, 5, 8, 16, 100, -10, 0.3, 1e100, -1e100)...)
		out = append(out, parseNum("0.3"), parseNum("-0.1"), parseNum("123456789012345678901234567890"), parseNum("-123456789012345678901234567890.5"), parseNum("1e-30"), parseNum("3.000000000000000000000000000001"), parseNum("2.999999999999999999999999999999"))
		return out
	}
	if thorough {
		return mkNums(numAlphabet(true))
	}
	return cat(nv(0, 1, -1, 2, 3, 0.5, -2.5, 10), []cty.Value{cty.NumberFloatVal(0.1), parseNum("0.1"), cty.NumberUIntVal(1 << 63), parseNum("1e30"), cty.PositiveInfinity, cty.NegativeInfinity})
}

func genericStrs(thorough bool) []cty.Value {
	ss := []string{"", "a", "b", "ab", "a,b", " a ", "e\u0301", "\u00e9", "\U0001F44D\U0001F3FD", "Hello World", "a\nb\r\n", "-"}
	if thorough {
		ss = append(ss, "\u1100\u1161", "\uac00\u11a8", "\U0001F468\u200d\U0001F469", "\U0001F1E9\U0001F1EA", "\r\n", ":", "aXbXc", "a\r", "%", "$1", "12", "true")
	}
	return sv(ss...)
}

func listOf(ety cty.Type, ms ...cty.Value) cty.Value {
	if len(ms) == 0 {
		return cty.ListValEmpty(ety)
	}
	return cty.ListVal(ms)
}

func setOf(ety cty.Type, ms ...cty.Value) cty.Value {
	if len(ms) == 0 {
		return cty.SetValEmpty(ety)
	}
	return cty.SetVal(ms)
}

func mapOf(ety cty.Type, kv ...interface{}) cty.Value {
	if len(kv) == 0 {
		return cty.MapValEmpty(ety)
	}
	m := map[string]cty.Value{}
	for i := 0; i < len(kv); i += 2 {
		m[kv[i].(string)] = kv[i+1].(cty.Value)
	}
	return cty.MapVal(m)
}

func objOf(kv ...interface{}) cty.Value {
	m := map[string]cty.Value{}
	for i := 0; i < len(kv); i += 2 {
		m[kv[i].(string)] = kv[i+1].(cty.Value)
	}
	return cty.ObjectVal(m)
}

func tup(ms ...cty.Value) cty.Value { return cty.TupleVal(ms) }

func S(s string) cty.Value { return cty.StringVal(s) }
func N(i int64) cty.Value  { return cty.NumberIntVal(i) }

func listStrDict(thorough bool) []cty.Value {
	out := []cty.Value{
		listOf(cty.String), listOf(cty.String, S("a")), listOf(cty.String, S("b"), S("a")), listOf(cty.String, S("a"), S("a")),
		listOf(cty.String, S(""), S("c")), listOf(cty.String, S("a"), cty.NullVal(cty.String)), listOf(cty.String, S("e\u0301"), S("B"), S("a")),
	}
	if thorough {
		out = append(out, listOf(cty.String, S("c"), S("b"), S("a")), listOf(cty.String, S("10"), S("9"), S("")), listOf(cty.String, S(""), S("")), listOf(cty.String, cty.NullVal(cty.String)))
	}
	return out
}

func listDynDict(thorough bool) []cty.Value {
	out := cat(listStrDict(false)[:5], []cty.Value{
		listOf(cty.Number), listOf(cty.Number, N(1), N(2)), listOf(cty.Number, N(1), N(1), N(2)), listOf(cty.Number, cty.NumberFloatVal(0.1), parseNum("0.1")),
		listOf(cty.Bool, cty.True, cty.False),
		listOf(cty.List(cty.String), listOf(cty.String, S("a")), listOf(cty.String)),
		listOf(cty.Object(map[string]cty.Type{"a": cty.String}), objOf("a", S("x")), objOf("a", S("x"))),
		listOf(cty.String, S("a"), cty.NullVal(cty.String), cty.NullVal(cty.String)),
		listOf(cty.DynamicPseudoType, cty.NullVal(cty.DynamicPseudoType)),
		// a null string next to the empty string; both signs of zero
		listOf(cty.String, cty.NullVal(cty.String), S("")), listOf(cty.String, S(""), cty.NullVal(cty.String), S("a"), S("")),
		listOf(cty.Number, cty.Zero, cty.Zero.Negate(), N(1)),
		// maps of one length whose key sets differ only in keys that hold nulls
		listOf(cty.Map(cty.String), mapOf(cty.String, "a", cty.NullVal(cty.String), "both", S("x")), mapOf(cty.String, "b", cty.NullVal(cty.String), "both", S("x"))),
		listOf(cty.Map(cty.String), mapOf(cty.String, "a", cty.NullVal(cty.String)), mapOf(cty.String, "b", cty.NullVal(cty.String)), mapOf(cty.String, "a", cty.NullVal(cty.String))),
		// numbers that differ only beyond what a float64 can tell apart
		listOf(cty.Number, parseNum("9007199254740992"), parseNum("9007199254740993"), parseNum("9007199254740992")),
		listOf(cty.Number, parseNum("0.5"), parseNum("0.50000000000000000001"), parseNum("1000000000000000000000000000001"), parseNum("1000000000000000000000000000000")),
	})
	if thorough {
		out = append(out,
			listOf(cty.Number, N(3), N(1), N(2), N(1)),
			listOf(cty.Set(cty.String), setOf(cty.String, S("a")), setOf(cty.String, S("a"))),
			listOf(cty.Map(cty.Number), mapOf(cty.Number, "k", N(1)), mapOf(cty.Number)),
			listOf(cty.Tuple([]cty.Type{cty.String, cty.Number}), tup(S("a"), N(1)), tup(S("a"), N(2))),
			listOf(cty.List(cty.List(cty.Number)), listOf(cty.List(cty.Number), listOf(cty.Number, N(1)))),
		)
	}
	return out
}

func setDynDict(thorough bool) []cty.Value {
	out := []cty.Value{
		setOf(cty.String), setOf(cty.String, S("a")), setOf(cty.String, S("a"), S("b")), setOf(cty.String, S("b"), S("c")),
		setOf(cty.Number), setOf(cty.Number, N(1), N(2)), setOf(cty.Number, N(2), N(3)),
		setOf(cty.Bool, cty.True),
		setOf(cty.Tuple([]cty.Type{cty.String, cty.Number}), tup(S("a"), N(1)), tup(S("b"), N(2))),
		setOf(cty.String, S("a"), cty.NullVal(cty.String)),
		setOf(cty.DynamicPseudoType),
		setOf(cty.Number, parseNum("9007199254740992"), parseNum("9007199254740993")),
	}
	if thorough {
		out = append(out,
			setOf(cty.Number, cty.NumberFloatVal(0.1), N(1)), setOf(cty.Number, parseNum("0.1"), N(2)),
			setOf(cty.List(cty.String), listOf(cty.String, S("a")), listOf(cty.String)),
			setOf(cty.Object(map[string]cty.Type{"a": cty.String}), objOf("a", S("x"))),
			setOf(cty.String, S("e\u0301"), S("\u00e9"), S("a")),
		)
	}
	return out
}

func dynDict(thorough bool) []cty.Value {
	out := cat(
		sv("a", ""), nv(1, 0.5), []cty.Value{cty.True},
		listDynDict(false)[:3], []cty.Value{listOf(cty.Number, N(1), N(2)), listOf(cty.List(cty.String), listOf(cty.String, S("a")), listOf(cty.String))},
		setDynDict(false)[:3], []cty.Value{setOf(cty.Number, N(1), N(2))},
		[]cty.Value{
			mapOf(cty.String), mapOf(cty.String, "k1", S("a")), mapOf(cty.String, "k1", S("a"), "k2", S("b")), mapOf(cty.Number, "k2", N(1)), mapOf(cty.String, "e\u0301", S("x")),
			tup(), tup(S("a")), tup(S("a"), N(1)), tup(listOf(cty.String, S("a")), tup(S("b"), cty.NullVal(cty.String))),
			objOf(), objOf("a", S("x")), objOf("a", S("x"), "b", N(1)), objOf("k1", N(2), "e\u0301", cty.True),
		},
	)
	if thorough {
		out = append(out,
			cty.False, N(-1), S("e\u0301"),
			listOf(cty.String, S("a"), cty.NullVal(cty.String)),
			setOf(cty.Tuple([]cty.Type{cty.String, cty.Number}), tup(S("a"), N(1))),
			mapOf(cty.List(cty.String), "k1", listOf(cty.String, S("a"))),
			tup(N(1), S("2"), cty.True), tup(tup(), objOf()), tup(setOf(cty.String, S("a")), listOf(cty.String, S("b"))),
			objOf("a", listOf(cty.String, S("x")), "b", objOf("c", N(1))),
			cty.CapsuleVal(capsTypes[0], &capsNative{1}),
			stdlib.BytesVal([]byte("ab")),
			mapOf(cty.DynamicPseudoType), tup(cty.NullVal(cty.DynamicPseudoType)),
		)
	}
	return out
}

// genericDict returns the seed alphabet for a parameter type constraint.
func genericDict(t cty.Type, thorough bool) []cty.Value {
	switch {
	case t == cty.Number:
		return countNums(thorough)
	case t == cty.String:
		return genericStrs(thorough)
	case t == cty.Bool:
		return []cty.Value{cty.True, cty.False}
	case t == cty.DynamicPseudoType:
		return dynDict(thorough)
	case t.Equals(cty.List(cty.String)):
		return listStrDict(thorough)
	case t.Equals(cty.List(cty.DynamicPseudoType)):
		return listDynDict(thorough)
	case t.Equals(cty.Set(cty.DynamicPseudoType)):
		return setDynDict(thorough)
	case t.Equals(stdlib.Bytes):
		return []cty.Value{stdlib.BytesVal([]byte{}), stdlib.BytesVal([]byte("a")), stdlib.BytesVal([]byte("abc\xff"))}
	}
	panic("genericDict: no alphabet for " + t.GoString())
}

func dictAt(d map[int][]cty.Value, dflt []cty.Value) func(int, bool) []cty.Value {
	return func(pos int, _ bool) []cty.Value {
		if v, ok := d[pos]; ok {
			return v
		}
		return dflt
	}
}

func init() {
	add := func(name string, f function.Function, dict func(int, bool) []cty.Value) *stdFn {
		fn := &stdFn{Name: name, F: f, Dict: dict}
		stdFns = append(stdFns, fn)
		return fn
	}
	arith := func(_ int, th bool) []cty.Value { return arithNums(th) }
	// bool
	add("not", stdlib.NotFunc, nil)
	add("and", stdlib.AndFunc, nil)
	add("or", stdlib.OrFunc, nil)
	// bytes
	add("byteslen", stdlib.BytesLenFunc, nil)
	add("bytesslice", stdlib.BytesSliceFunc, func(pos int, th bool) []cty.Value {
		if pos == 0 {
			return nil
		}
		return cat(nv(0, 1, 2, 3, 4, 5, -1, 0.5), []cty.Value{cty.NumberUIntVal(1 << 63), cty.PositiveInfinity}, intEdgeNums())
	})
	// collection
	keyDict := cat(nv(0, 1, 2, -1, 0.5), sv("k1", "k2", "zz", "e\u0301", "a"), []cty.Value{cty.True, cty.NumberUIntVal(1 << 63)})
	add("hasindex", stdlib.HasIndexFunc, func(pos int, th bool) []cty.Value {
		if pos == 1 {
			return keyDict
		}
		return nil
	})
	add("index", stdlib.IndexFunc, func(pos int, th bool) []cty.Value {
		if pos == 1 {
			return keyDict
		}
		return nil
	})
	add("length", stdlib.LengthFunc, nil)
	add("element", stdlib.ElementFunc, func(pos int, th bool) []cty.Value {
		if pos == 1 {
			return cat(countNums(th), intEdgeNums())
		}
		return nil
	})
	add("coalescelist", stdlib.CoalesceListFunc, nil)
	add("compact", stdlib.CompactFunc, nil)
	add("contains", stdlib.ContainsFunc, func(pos int, th bool) []cty.Value {
		if pos == 1 {
			return cat(dynDict(th), []cty.Value{S(""), cty.Zero.Negate(),
				mapOf(cty.String, "b", cty.NullVal(cty.String), "both", S("x")), mapOf(cty.String, "a", cty.NullVal(cty.String))})
		}
		return nil
	})
	add("distinct", stdlib.DistinctFunc, nil)
	add("chunklist", stdlib.ChunklistFunc, func(pos int, th bool) []cty.Value {
		if pos == 1 {
			return cat(countNums(th), intEdgeNums())
		}
		return nil
	})
	add("flatten", stdlib.FlattenFunc, func(pos int, th bool) []cty.Value {
		// the generic sequences plus sequences whose members are maps / objects (kept whole) next to lists (unwrapped)
		return cat(dynDict(th), []cty.Value{
			listOf(cty.Map(cty.String), mapOf(cty.String, "a", S("x"), "b", S("y")), mapOf(cty.String, "c", S("z"))),
			tup(listOf(cty.String, S("p")), mapOf(cty.String, "k", S("v")), objOf("o", N(1))),
			tup(tup(mapOf(cty.Number, "n", N(1))), setOf(cty.String, S("s"))),
			listOf(cty.List(cty.Map(cty.Bool)), listOf(cty.Map(cty.Bool), mapOf(cty.Bool, "t", cty.True))),
			tup(cty.NullVal(cty.Map(cty.String)), listOf(cty.String)),
			// null sequences as members (passed through as single elements, not spliced)
			tup(listOf(cty.String, S("a")), cty.NullVal(cty.Tuple([]cty.Type{cty.String, cty.String}))),
			tup(cty.NullVal(cty.List(cty.String)), S("x")),
			tup(cty.NullVal(cty.EmptyTuple), cty.NullVal(cty.Set(cty.Number))),
			listOf(cty.List(cty.String), cty.NullVal(cty.List(cty.String)), listOf(cty.String, S("a"))),
			tup(tup(cty.NullVal(cty.Tuple([]cty.Type{cty.Number})), N(1))),
			// collections whose element type is a tuple type: the members are spliced although the element type is not a collection type
			listOf(cty.Tuple([]cty.Type{cty.Number, cty.Number}), tup(N(1), N(2)), tup(N(3), N(4))),
			listOf(cty.Tuple([]cty.Type{cty.String, cty.List(cty.String)}), tup(S("a"), listOf(cty.String, S("b"), S("c")))),
			tup(S("x"), listOf(cty.Tuple([]cty.Type{cty.Bool}), tup(cty.True), tup(cty.False))),
			listOf(cty.List(cty.Tuple([]cty.Type{cty.Number})), listOf(cty.Tuple([]cty.Type{cty.Number}), tup(N(5)), tup(N(6)))),
			setOf(cty.Tuple([]cty.Type{cty.String}), tup(S("only"))),
			listOf(cty.EmptyTuple, tup(), tup()),
		})
	})
	add("keys", stdlib.KeysFunc, nil)
	add("lookup", stdlib.LookupFunc, func(pos int, th bool) []cty.Value {
		if pos == 1 {
			return sv("k1", "k2", "zz", "a", "e\u0301", "\u00e9", "")
		}
		if pos == 2 {
			// defaults of another primitive type than the map elements, convertible and not
			return cat(dynDict(th), []cty.Value{S("5"), S("-12"), S("true"), cty.False, N(7)})
		}
		if pos == 0 {
			return cat(dynDict(th), []cty.Value{mapOf(cty.Bool, "k1", cty.True), mapOf(cty.Number, "k1", N(3), "k2", N(4))})
		}
		return nil
	})
	add("merge", stdlib.MergeFunc, func(pos int, th bool) []cty.Value {
		out := []cty.Value{
			mapOf(cty.String), mapOf(cty.String, "k1", S("a")), mapOf(cty.String, "k1", S("z"), "k2", S("b")), mapOf(cty.Number, "k2", N(1)),
			objOf(), objOf("a", S("x")), objOf("a", N(1), "b", cty.True), objOf("k1", N(2)),
			S("a"), listOf(cty.String, S("a")), tup(),
		}
		if th {
			out = append(out, mapOf(cty.String, "e\u0301", S("x")), objOf("\u00e9", N(1)), mapOf(cty.List(cty.String), "k1", listOf(cty.String)), mapOf(cty.DynamicPseudoType))
		}
		return out
	})
	add("reverselist", stdlib.ReverseListFunc, nil)
	add("setproduct", stdlib.SetProductFunc, func(pos int, th bool) []cty.Value {
		out := []cty.Value{
			listOf(cty.String), listOf(cty.String, S("a")), listOf(cty.String, S("a"), S("b")), listOf(cty.Number, N(1), N(2)), listOf(cty.String, S("a"), S("a")),
			setOf(cty.String), setOf(cty.String, S("a"), S("b")), setOf(cty.Number, N(1)),
			tup(), tup(S("a")), tup(S("a"), N(1)), tup(S("a"), listOf(cty.String)),
			S("a"), mapOf(cty.String, "k", S("v")),
		}
		if th {
			out = append(out, listOf(cty.Bool, cty.True, cty.False), setOf(cty.Bool, cty.True), tup(N(1), cty.True), listOf(cty.String, S("a"), cty.NullVal(cty.String)), tup(cty.NullVal(cty.String)))
		}
		return out
	})
	add("slice", stdlib.SliceFunc, func(pos int, th bool) []cty.Value {
		if pos == 0 {
			out := []cty.Value{
				listOf(cty.String), listOf(cty.String, S("a")), listOf(cty.String, S("a"), S("b"), S("c")), listOf(cty.Number, N(1), N(2)),
				tup(), tup(S("a")), tup(S("a"), N(1), cty.True), setOf(cty.String, S("a")), S("a"), mapOf(cty.String, "k", S("v")),
			}
			return out
		}
		return cat(nv(0, 1, 2, 3, 4, -1, 0.5), []cty.Value{cty.NumberUIntVal(1 << 63), cty.PositiveInfinity}, intEdgeNums())
	})
	add("values", stdlib.ValuesFunc, nil)
	add("zipmap", stdlib.ZipmapFunc, func(pos int, th bool) []cty.Value {
		if pos == 0 {
			return nil
		}
		return []cty.Value{
			listOf(cty.String), listOf(cty.String, S("x")), listOf(cty.Number, N(1), N(2)), listOf(cty.String, S("x"), S("y"), S("z")),
			tup(), tup(S("x")), tup(S("x"), N(1)), tup(N(1), N(2), cty.True), S("a"), setOf(cty.String, S("a")), mapOf(cty.String, "k", S("v")),
		}
	})
	// conversion
	add("assertnotnull", stdlib.AssertNotNullFunc, nil)
	for _, tt := range []struct {
		n string
		t cty.Type
	}{
		{"to(string)", cty.String}, {"to(number)", cty.Number}, {"to(bool)", cty.Bool},
		{"to(list(string))", cty.List(cty.String)}, {"to(set(number))", cty.Set(cty.Number)}, {"to(map(string))", cty.Map(cty.String)},
		{"to(object{a:string})", cty.Object(map[string]cty.Type{"a": cty.String})}, {"to(list(dynamic))", cty.List(cty.DynamicPseudoType)},
		{"to(dynamic)", cty.DynamicPseudoType}, {"to(map(dynamic))", cty.Map(cty.DynamicPseudoType)},
	} {
		add(tt.n, stdlib.MakeToFunc(tt.t), func(pos int, th bool) []cty.Value {
			return cat(dynDict(th), sv("1", "true", "1.5"), []cty.Value{cty.False})
		})
	}
	// csv
	add("csvdecode", stdlib.CSVDecodeFunc, dictAt(nil, sv("", "a", "a,b\n1,2", "a,b\n1", "a,a\n1,2", "a,b\n1,2,3", "a\n\"", "a,b\n1,2\n3,4\n", "\u00e9,e\u0301\n1,2", "\n", "a,\n1,2", "a,b\r\n\"x\ny\",2", "a,b", "e\u0301\nz", " a , b \n 1 , 2 ")))
	// datetime
	stamps := sv("2006-01-02T15:04:05Z", "2006-01-02T15:04:05+07:00", "2006-01-02T15:04:05.123Z", "2020-02-29T23:59:59-00:00", "2006-01-02", "",
		"2006-01-02T15:04:05", "2006-13-02T15:04:05Z", "not a time", "2006-01-02t15:04:05z", "0000-01-01T00:00:00Z", "9999-12-31T23:59:59Z",
		"2006-01-02T24:00:00Z", "2006-1-2T15:04:05Z", "2021-02-29T00:00:00Z", "2006-01-02T15:04:05+24:00", "2006-01-02T15:04:05-07", "2006-01-02T15:04Z", "2006-01-02T15:04:60Z", "2006-01-02 15:04:05Z", "2006-01-02T15:04:05.Z", "1999-12-31T23:59:59+00:30",
		// every sign x minute part of the zone offset, day/month/year roll-over through the offset
		"2006-01-02T15:04:05-03:30", "2006-01-01T00:10:00-09:45", "2006-12-31T23:50:00+05:45", "2006-01-02T15:04:05-00:30", "2006-01-02T15:04:05+14:00", "2006-01-02T15:04:05-12:00", "2006-01-02T15:04:05+00:00", "2006-01-02T15:04:05-23:59",
		// fractional seconds of every length around the nine digits a nanosecond count holds
		"2006-01-02T15:04:05.1Z", "2006-01-02T15:04:05.999999999Z", "2006-01-02T00:00:00.9999999999Z", "2006-01-02T15:04:59.99999999999999999999Z", "2006-01-02T15:04:05.000000000001Z", "2006-01-02T23:59:59.1234567891+05:30", "2006-01-02T15:04:05.0000000000Z")
	add("formatdate", stdlib.FormatDateFunc, func(pos int, th bool) []cty.Value {
		if pos == 1 {
			return stamps
		}
		return sv("", "YYYY-MM-DD", "YY", "Y", "YYY", "M MM MMM MMMM MMMMM", "D DD DDD", "EEE EEEE E EE", "h hh H HH m mm s ss", "hhh", "AA aa A a", "Z ZZ ZZZ ZZZZ ZZZZZ ZZZZZZ",
			"'literal'", "'unterminated", "''", "x", "YYYY-MM-DD'T'hh:mm:ssZ", "\u00e9", "DD 'of' MMMM", "'it''s'", "-/:,. ", "MMM DD, YYYY", "H", "s", "mmm", "sss", "Q", "0", "YYYYY",
			// long formats: literal runs around the sizes at which buffered scanners refill (2 KiB, 4 KiB, 64 KiB), verbs before and after
			"YYYY-MM-DD '"+strings.Repeat("x", 2100)+"' hh:mm:ss", "YYYY-MM-DD "+strings.Repeat("-", 4100)+" hh:mm:ss", "YYYY '"+strings.Repeat("lit ", 1030)+"' DD",
			"MM '"+strings.Repeat("y", 66000)+"' ss", "hh "+strings.Repeat(":", 66000)+" mm")
	})
	add("timeadd", stdlib.TimeAddFunc, func(pos int, th bool) []cty.Value {
		if pos == 0 {
			return stamps
		}
		return sv("1h", "-1h", "1.5h", "", "1", "1d", "10000000h", "1ns", "\u00e9", "0", "1h30m", "-24h", "87600h", "2562047h", "1m1s1ms1us", "+1s", "h", "-1ns", "999999999ns")
	})
	// format
	fmts := sv("", "%s", "%d", "%v", "%%", "%q", "%5.2f", "%[2]s %[1]s", "%", "%z", "%[0]d", "%-5s|", "%x", "%t", "%e", "%#v", "%+d", "%05d", "%.1s", "%[3]s", "%*d", "hello",
		"%s %s", "%b", "%o", "%X", "%g", "%E", "%G", "%5s|", "%.0f", "%[1]s%[1]s", "%[1", "%[a]s", "%!", "%s%", "%3d|", "% d", "%+s", "%#x", "%08.3f", "%.2s|", "%c", "%U", "%10.3v|", "%-08d|", "%+.1e", "%[2]d",
		// rejected only after output has been produced
		"50%, of %s", "total: %5", "a%s%", "x=%s;%[1", "%s and %!",
		// argument indexes, widths and precisions at and beyond the edges of the Go integer types
		"%[18446744073709551615]d", "%[9223372036854775807]d", "%[9223372036854775808]s", "%[4294967296]v", "%[-1]d", "%[1]", "%[99999999999999999999999]d",
		"%9223372036854775807d", "%.9223372036854775808f")
	genFmts := func() []cty.Value {
		// the documented verb grammar: % flags width .prec [n] verb
		var out []cty.Value
		flagSets := []string{"", "0", "#", "-", "+", " ", "-0", "+0", "0#", "+ ", "-+", "#-", "- "}
		for _, fl := range flagSets {
			for _, w := range []string{"", "1", "6"} {
				for _, pr := range []string{"", ".0", ".1", ".3"} {
					for _, ix := range []string{"", "[1]", "[2]"} {
						for _, vb := range "vtbdoxXeEfgGsqz" {
							out = append(out, cty.StringVal("<%"+fl+w+pr+ix+string(vb)+">"))
						}
					}
				}
			}
		}
		for _, two := range []string{"%s%s", "%[2]s%s", "%[2]s%[1]s", "%s%[1]s", "%d-%d", "%[1]d %[1]x %[1]o", "%v %v", "%s %%", "%% %s", "a%sb%sc", "%[2]v", "%[3]s", "%s%s%s"} {
			out = append(out, cty.StringVal(two))
		}
		return out
	}
	fargs := func(th bool) []cty.Value {
		out := cat(sv("a", "e\u0301x", ""), nv(1, -2.5, 0), []cty.Value{cty.True, parseNum("1e30"), cty.PositiveInfinity, listOf(cty.String, S("a"), S("b")), listOf(cty.Number), tup(S("x"), N(1)), objOf("a", N(1)), mapOf(cty.String, "k", S("v")), setOf(cty.String, S("s"))})
		if th {
			out = append(out, cty.NumberUIntVal(1<<63), parseNum("0.1"), S("\U0001F44D\U0001F3FD"), tup(), listOf(cty.String, S("only")), cty.NumberFloatVal(1e-7), N(255), stdlib.BytesVal([]byte("b")))
		}
		return out
	}
	fmtDict := func(pos int, th bool) []cty.Value {
		if pos == 0 {
			if th && deepDict {
				return cat(fmts, genFmts())
			}
			if th {
				return cat(fmts, sv("%.0s|", "%.1s|", "%3.1s|", "%-3.1s|", "%.2q", "%.0v", "%6.2f|", "%-6d|", "%06d|", "%+.1f", "% d"))
			}
			return fmts
		}
		out := fargs(th)
		if th {
			out = append(out, S("\U0001F44D\U0001F3FDab"), S("q\u0308r"), S("\r\nz"), nv(-0.5, 12345.678)[0], nv(-0.5, 12345.678)[1])
		}
		return out
	}
	add("format", stdlib.FormatFunc, fmtDict).MaxVar = 2
	add("formatlist", stdlib.FormatListFunc, fmtDict).MaxVar = 2
	// general
	add("equal", stdlib.EqualFunc, nil)
	add("notequal", stdlib.NotEqualFunc, nil)
	add("coalesce", stdlib.CoalesceFunc, func(pos int, th bool) []cty.Value {
		// the generic values plus nulls of several types (a null argument takes part in deciding the result type)
		return cat(dynDict(th), []cty.Value{cty.NullVal(cty.String), cty.NullVal(cty.Number), cty.NullVal(cty.Bool), cty.NullVal(cty.List(cty.String)), cty.True, N(7)})
	})
	// json
	add("jsonencode", stdlib.JSONEncodeFunc, func(pos int, th bool) []cty.Value {
		return cat(dynDict(true), []cty.Value{cty.PositiveInfinity, parseNum("1e400"), parseNum("0.1"), cty.NumberUIntVal(1 << 63)})
	})
	add("jsondecode", stdlib.JSONDecodeFunc, dictAt(nil, sv("null", "true", "1", "1.5", "\"a\"", "[]", "{}", "[1,\"a\"]", "{\"a\":1}", "{\"a\":1,\"a\":2}", "{\"a\":1,\"a\":\"x\"}", "", "{", "[1,]", "1e400", "1e-400", " 1 ",
		"[[1],[\"a\"]]", "{\"e\u0301\":1}", "\"e\u0301\"", "nul", "1 2", "[null]", "-0", "0.10", "1E2", "{\"a\":{\"b\":[true,null]}}", "\"\\ud83d\"", "[1,[2,[3]]]", "{\"\":1}", "01", "\"a", "[", "{\"a\"}", "{\"a\":}", "tru", "18446744073709551616", "{\"e\u0301\":1,\"\u00e9\":2}",
		"\r\n{\"a\":1}", " \t\r\n[1]", "\r\"s\"", "\n\ntrue", "\r\n 12", "\u00a0{}", "\f[]")))
	// number
	add("abs", stdlib.AbsoluteFunc, arith)
	add("add", stdlib.AddFunc, arith)
	add("subtract", stdlib.SubtractFunc, arith)
	add("multiply", stdlib.MultiplyFunc, arith)
	add("divide", stdlib.DivideFunc, arith)
	add("modulo", stdlib.ModuloFunc, arith)
	add("greaterthan", stdlib.GreaterThanFunc, arith)
	add("greaterthanorequalto", stdlib.GreaterThanOrEqualToFunc, arith)
	add("lessthan", stdlib.LessThanFunc, arith)
	add("lessthanorequalto", stdlib.LessThanOrEqualToFunc, arith)
	add("negate", stdlib.NegateFunc, arith)
	add("min", stdlib.MinFunc, arith)
	add("max", stdlib.MaxFunc, arith)
	add("int", stdlib.IntFunc, arith)
	add("ceil", stdlib.CeilFunc, arith)
	add("floor", stdlib.FloorFunc, arith)
	add("log", stdlib.LogFunc, arith)
	add("pow", stdlib.PowFunc, arith)
	add("signum", stdlib.SignumFunc, arith)
	add("parseint", stdlib.ParseIntFunc, func(pos int, th bool) []cty.Value {
		if pos == 0 {
			return cat(sv("0", "12", "-12", "z", "", "1_000", "+5", "0x10", "12.5", " 1", "FF", "zz", "Zz", "-", "9223372036854775808", "e\u0301", "101", "-0"), []cty.Value{N(12), cty.True, listOf(cty.String, S("1")), tup(), objOf()})
		}
		return cat(nv(10, 2, 16, 36, 62, 63, 1, 0, -1, 2.5, 37), []cty.Value{cty.NumberUIntVal(1 << 63), cty.PositiveInfinity, cty.NegativeInfinity}, intEdgeNums())
	})
	// regexp
	pats := sv("", "a", "(a)", "(?P<x>a)", "(?P<x>a)(b)", "(", "[a-z]+", "(a)|(b)", "(?P<x>a)|(?P<y>b)", ".*", "\\d+", "^$", "(a)(b)?", "(?P<x>a)(?P<y>b)?", "a*", "\u00e9", "e\u0301", "(?i)A", "\\p{L}+", "[", "(?P<x>", "\\", "(?P<e\u0301>a)", "b|(a)")
	subj := sv("", "a", "ab", "aab", "123", "\u00e9", "e\u0301", "ba", "abab", "A", "a1b22")
	add("regex", stdlib.RegexFunc, func(pos int, th bool) []cty.Value {
		if pos == 0 {
			return pats
		}
		return subj
	})
	add("regexall", stdlib.RegexAllFunc, func(pos int, th bool) []cty.Value {
		if pos == 0 {
			return pats
		}
		return subj
	})
	add("regexreplace", stdlib.RegexReplaceFunc, func(pos int, th bool) []cty.Value {
		switch pos {
		case 0:
			return subj
		case 1:
			return pats
		}
		return sv("", "X", "$1", "$x", "${x}", "$", "$0", "$$", "${1}b", "$2", "\u00e9", "$1$1")
	})
	// sequence
	add("concat", stdlib.ConcatFunc, func(pos int, th bool) []cty.Value {
		out := []cty.Value{
			listOf(cty.String), listOf(cty.String, S("a")), listOf(cty.String, S("a"), S("b")), listOf(cty.Number, N(1)), listOf(cty.Number), listOf(cty.Bool, cty.True),
			tup(), tup(S("a")), tup(S("a"), N(1)), tup(cty.NullVal(cty.String)),
			setOf(cty.String, S("a")), S("a"), mapOf(cty.String, "k", S("v")), listOf(cty.DynamicPseudoType),
		}
		if th {
			out = append(out, listOf(cty.List(cty.String), listOf(cty.String)), listOf(cty.String, cty.NullVal(cty.String)), tup(listOf(cty.String), tup()), listOf(cty.Object(map[string]cty.Type{"a": cty.String}), objOf("a", S("x"))), listOf(cty.Object(map[string]cty.Type{"a": cty.Number}), objOf("a", N(1))))
		}
		return out
	})
	add("range", stdlib.RangeFunc, func(pos int, th bool) []cty.Value {
		out := cat(nv(0, 1, -1, 2, 3, 0.5, -0.5, 5, 1025, -1025, 1024), []cty.Value{cty.PositiveInfinity, cty.NegativeInfinity, cty.NumberUIntVal(1 << 63), cty.NumberIntVal(math.MaxInt64), cty.NumberIntVal(math.MaxInt64 - 1), cty.NumberIntVal(math.MinInt64)})
		if th {
			out = append(out, nv(10, 0.1, -3, 4, 1023)...)
			out = append(out, parseNum("1e30"), parseNum("0.1"), parseNum("1e-30"))
		}
		return out
	}).MaxVar = 4
	// set
	add("sethaselement", stdlib.SetHasElementFunc, func(pos int, th bool) []cty.Value {
		if pos == 1 {
			return cat(sv("a", "z"), nv(1, 5), []cty.Value{cty.True, tup(S("a"), N(1)), tup(S("a"), N(9)), listOf(cty.String, S("a")), parseNum("0.1")})
		}
		return nil
	})
	add("setunion", stdlib.SetUnionFunc, nil)
	add("setintersection", stdlib.SetIntersectionFunc, nil)
	add("setsubtract", stdlib.SetSubtractFunc, nil)
	add("setsymmetricdifference", stdlib.SetSymmetricDifferenceFunc, nil)
	// string
	add("upper", stdlib.UpperFunc, nil)
	add("lower", stdlib.LowerFunc, nil)
	add("reverse", stdlib.ReverseFunc, nil)
	add("strlen", stdlib.StrlenFunc, nil)
	add("substr", stdlib.SubstrFunc, func(pos int, th bool) []cty.Value {
		if pos == 0 {
			return sv("", "a", "hello", "e\u0301x", "\U0001F44D\U0001F3FDab", "\r\nz")
		}
		out := cat(nv(0, 1, 2, -1, -2, 5, 6, 0.5, -7), []cty.Value{cty.NumberUIntVal(1 << 63), cty.PositiveInfinity, cty.NegativeInfinity})
		if th {
			out = append(out, nv(3, 4, -3, -5, -6, 100)...)
		}
		return cat(out, intEdgeNums())
	})
	add("join", stdlib.JoinFunc, func(pos int, th bool) []cty.Value {
		if pos == 0 {
			return sv("", ",", "e\u0301", ", ")
		}
		return nil
	})
	add("sort", stdlib.SortFunc, nil)
	add("split", stdlib.SplitFunc, func(pos int, th bool) []cty.Value {
		if pos == 0 {
			return sv("", ",", "a", "ab", "\u0301", "\n", "X")
		}
		return nil
	})
	add("chomp", stdlib.ChompFunc, dictAt(nil, sv("", "a", "a\n", "a\r\n", "a\r", "a\n\n", "a\r\n\r\n", "\n", "\r", "a\nb", "a\n\r", "a\r\r\n", "\na", "e\u0301\n")))
	add("indent", stdlib.IndentFunc, func(pos int, th bool) []cty.Value {
		if pos == 0 {
			return cat(nv(0, 1, 2, -1, 0.5, 1025, -3), []cty.Value{cty.NumberUIntVal(1 << 63), cty.PositiveInfinity, cty.NegativeInfinity, parseNum("1e30")})
		}
		return sv("", "a", "a\nb", "a\n", "\n", "a\r\nb", "a\n\nb")
	})
	add("title", stdlib.TitleFunc, func(pos int, th bool) []cty.Value {
		// letters whose title case differs from their upper case (Latin digraphs, Georgian), word boundaries
		return cat(genericStrs(th), sv("\u01c6ungla \u01c9eto", "\u01c4 \u01f3", "\u10dc\u10d8\u10dc\u10dd \u10d0", "o'neil_x y-z", "\u00dfa \u0149b", "hello w\u00f6rld", "\u1e9e \u03c3\u03c2"))
	})
	add("trimspace", stdlib.TrimSpaceFunc, nil)
	add("trim", stdlib.TrimFunc, func(pos int, th bool) []cty.Value {
		if pos == 1 {
			return sv("", "a", " ", "ab", "\u0301", "e", "H d", "\u00e9")
		}
		return nil
	})
	add("trimprefix", stdlib.TrimPrefixFunc, func(pos int, th bool) []cty.Value {
		if pos == 1 {
			return sv("", "a", " ", "ab", "e", "Hello", "\u00e9", "e\u0301")
		}
		return nil
	})
	add("trimsuffix", stdlib.TrimSuffixFunc, func(pos int, th bool) []cty.Value {
		if pos == 1 {
			return sv("", "a", " ", "b", "\u0301", "World", "\u00e9", "\n")
		}
		return nil
	})
	add("replace", stdlib.ReplaceFunc, func(pos int, th bool) []cty.Value {
		switch pos {
		case 1:
			return sv("", "a", "b", "l", "e", "\u0301", " ", "ab")
		case 2:
			return sv("", "X", "aa", "\u0301", "e\u0301")
		}
		return nil
	})
}

// stdlibSourceFuncs lists the exported *Func variables declared in the
// repository's stdlib package (read from the working tree), so that a
// function the table does not cover is reported in the evidence.
func stdlibSourceFuncs() []string {
	var out []string
	re := regexp.MustCompile(`(?m)^var (\w+Func) = function\.New`)
	files, _ := filepath.Glob(repoDir() + "/cty/function/stdlib/*.go")
	for _, f := range files {
		if strings.HasSuffix(f, "_test.go") {
			continue
		}
		b, err := os.ReadFile(f)
		if err != nil {
			continue
		}
		for _, m := range re.FindAllStringSubmatch(string(b), -1) {
			out = append(out, m[1])
		}
	}
	sort.Strings(out)
	return out
}

// paramAt returns the parameter governing argument position pos (nil when pos
// is beyond a non-variadic parameter list).
func (fn *stdFn) paramAt(pos int) *function.Parameter {
	ps := fn.F.Params()
	if pos < len(ps) {
		return &ps[pos]
	}
	return fn.F.VarParam()
}

func (fn *stdFn) dict(pos int, thorough bool) []cty.Value {
	if fn.Dict != nil {
		if d := fn.Dict(pos, thorough); d != nil {
			return d
		}
	}
	p := fn.paramAt(pos)
	return genericDict(p.Type, thorough)
}

// argLengths returns the argument-list lengths explored for fn.
func (fn *stdFn) argLengths(thorough bool) []int {
	n := len(fn.F.Params())
	if fn.F.VarParam() == nil {
		return []int{n}
	}
	max := fn.MaxVar
	if max == 0 {
		max = 2
		if thorough {
			max = 3
		}
	}
	var out []int
	for k := 0; k <= max; k++ {
		out = append(out, n+k)
	}
	return out
}

// baseLists enumerates the wholly known seed argument lists of fn: the full
// Cartesian product of the per-position alphabets when it is at most cap
// lists, otherwise every list that departs from the first ("default") symbol
// in at most two positions.
func (fn *stdFn) baseLists(thorough bool, cap int, emit func(args []cty.Value)) {
	for _, n := range fn.argLengths(thorough) {
		dicts := make([][]cty.Value, n)
		total := 1
		for i := 0; i < n; i++ {
			dicts[i] = fn.dict(i, thorough)
			if total <= cap {
				total *= len(dicts[i])
			}
		}
		cur := make([]cty.Value, n)
		if total <= cap {
			var rec func(i int)
			rec = func(i int) {
				if i == n {
					emit(append([]cty.Value(nil), cur...))
					return
				}
				for _, v := range dicts[i] {
					cur[i] = v
					rec(i + 1)
				}
			}
			rec(0)
			continue
		}
		// deviation bound 2
		for i := range cur {
			cur[i] = dicts[i][0]
		}
		emit(append([]cty.Value(nil), cur...))
		for i := 0; i < n; i++ {
			for _, a := range dicts[i][1:] {
				c1 := append([]cty.Value(nil), cur...)
				c1[i] = a
				emit(c1)
				for j := i + 1; j < n; j++ {
					for _, b := range dicts[j][1:] {
						c2 := append([]cty.Value(nil), c1...)
						c2[j] = b
						emit(c2)
					}
				}
			}
		}
	}
}

// callStd calls fn under recover and classifies the outcome.
type stdOutcome struct {
	V        cty.Value
	Err      error
	Panic    string // Go panic escaping the call
	IsPanicE bool   // error is a function.PanicError
}

func (o stdOutcome) OK() bool { return o.Panic == "" && o.Err == nil }

func callStd(f function.Function, args []cty.Value) (o stdOutcome) {
	defer func() {
		if r := recover(); r != nil {
			o.Panic = fmt.Sprint(r)
		}
	}()
	o.V, o.Err = f.Call(args)
	if o.Err != nil {
		if _, ok := o.Err.(function.PanicError); ok {
			o.IsPanicE = true
		}
	}
	return
}

type typeOutcome struct {
	T        cty.Type
	Err      error
	Panic    string
	IsPanicE bool
}

func (o typeOutcome) OK() bool { return o.Panic == "" && o.Err == nil }

func retTypeForValues(f function.Function, args []cty.Value) (o typeOutcome) {
	defer func() {
		if r := recover(); r != nil {
			o.Panic = fmt.Sprint(r)
		}
	}()
	o.T, o.Err = f.ReturnTypeForValues(args)
	if o.Err != nil {
		if _, ok := o.Err.(function.PanicError); ok {
			o.IsPanicE = true
		}
	}
	return
}

func retType(f function.Function, tys []cty.Type) (o typeOutcome) {
	defer func() {
		if r := recover(); r != nil {
			o.Panic = fmt.Sprint(r)
		}
	}()
	o.T, o.Err = f.ReturnType(tys)
	if o.Err != nil {
		if _, ok := o.Err.(function.PanicError); ok {
			o.IsPanicE = true
		}
	}
	return
}

func firstLineOf(s string) string {
	if k := strings.Index(s, "\n"); k >= 0 {
		s = s[:k]
	}
	if len(s) > 240 {
		s = s[:240]
	}
	return s
}
