package main

// History families over the standard library (used by C11, C12, C13 and C14).  A function's
// result is a function of its arguments; pooled scratch objects, memo tables and flags that
// survive a rejected call make it a function of the calls made before.  Per function the
// alphabet holds calls of every OUTCOME CLASS the seed lists and their one-position
// weakenings reach (known result, unknown result, each distinct error text with digits and
// quoted parts removed), a few per class, and all ordered pairs (thorough: triples through
// the rejected / unknown calls) are run; a second family takes a handful per function and
// pairs them ACROSS functions (format / formatlist, the set functions, the regex functions
// and the date functions share machinery).

import (
	"regexp"
	"sort"
	"strings"

	"github.com/zclconf/go-cty/cty"
)

var histDigits = regexp.MustCompile(`[0-9]+|"[^"]*"|'[^']*'`)

func stdOutcomeClass(o stdOutcome) string {
	switch {
	case o.Panic != "":
		return "panic"
	case o.Err != nil:
		return "error: " + trunc(histDigits.ReplaceAllString(o.Err.Error(), "#"), 60)
	case !o.V.IsWhollyKnown():
		return "unknown"
	}
	return "known"
}

// stdHistoryOps returns up to perClass calls of fn per outcome class.
func stdHistoryOps(fn *stdFn, perClass, maxOps int, oracle func(fn *stdFn, args []cty.Value, o stdOutcome) string) []histOp {
	type cand struct {
		args []cty.Value
		cls  string
	}
	count := map[string]int{}
	var picked []cand
	seen := 0
	consider := func(args []cty.Value) {
		seen++
		o := callStd(fn.F, args)
		cls := stdOutcomeClass(o) + " / "
		for _, a := range args {
			// which arguments are not wholly known is part of the class: a rejected call
			// leaves different things behind depending on what it had looked at before
			switch {
			case a.IsWhollyKnown():
				cls += "k"
			case !a.IsKnown():
				cls += "u"
			default:
				cls += "p"
			}
		}
		if count[cls] >= perClass {
			return
		}
		count[cls]++
		picked = append(picked, cand{args, cls})
	}
	var lists [][]cty.Value
	fn.baseLists(false, 3000, func(args []cty.Value) {
		if len(lists) < 6000 {
			lists = append(lists, args)
		}
	})
	// simplest first, then thinned through the rest so that late symbols of the dictionaries
	// are reached too
	// thinning applies only to the sweep of the first position (the largest dictionary: format
	// strings, patterns); every combination of the later positions next to the first position's
	// base value is always considered, so that the selection does not depend on how long the
	// first dictionary happens to be
	baseFirst := map[int]string{}
	for _, l := range lists {
		if _, ok := baseFirst[len(l)]; !ok && len(l) > 0 {
			baseFirst[len(l)] = goStr(l[0])
		}
	}
	atBase := func(l []cty.Value) bool { return len(l) > 0 && goStr(l[0]) == baseFirst[len(l)] }
	for i, l := range lists {
		if i < 300 || i%3 == 0 || atBase(l) {
			consider(l)
		}
	}
	for i, l := range lists {
		if i >= 200 && i%2 == 0 && len(lists) > 1000 && !atBase(l) {
			continue
		}
		for p := range l {
			if !l[p].IsKnown() {
				continue
			}
			w := append([]cty.Value(nil), l...)
			w[p] = cty.UnknownVal(l[p].Type())
			consider(w)
			if l[p].Type().IsCollectionType() && !l[p].IsNull() {
				w2 := append([]cty.Value(nil), l...)
				if v, ok := safeRefine(func() cty.Value {
					return cty.UnknownVal(l[p].Type()).Refine().NotNull().CollectionLengthLowerBound(l[p].LengthInt()).CollectionLengthUpperBound(l[p].LengthInt() + 1).NewValue()
				}); ok {
					w2[p] = v
					consider(w2)
				}
			}
		}
	}
	sort.SliceStable(picked, func(i, j int) bool { return picked[i].cls < picked[j].cls })
	if len(picked) > maxOps {
		// keep the classes balanced: round-robin over classes
		byCls := map[string][]cand{}
		var order []string
		for _, p := range picked {
			if _, ok := byCls[p.cls]; !ok {
				order = append(order, p.cls)
			}
			byCls[p.cls] = append(byCls[p.cls], p)
		}
		picked = picked[:0]
		for k := 0; len(picked) < maxOps; k++ {
			any := false
			for _, cl := range order {
				if k < len(byCls[cl]) && len(picked) < maxOps {
					picked = append(picked, byCls[cl][k])
					any = true
				}
			}
			if !any {
				break
			}
		}
	}
	var ops []histOp
	for _, p := range picked {
		p := p
		var last stdOutcome
		op := histOp{
			desc: fn.Name + "(" + argsStr(p.args) + ")",
			run: func() string {
				last = callStd(fn.F, p.args)
				if last.Panic != "" {
					return "panic"
				}
				if last.Err != nil {
					return "error" // wording may follow map order; the class is what is compared
				}
				return goStr(last.V)
			},
			perturbing: !strings.HasPrefix(p.cls, "known"),
		}
		if oracle != nil {
			op.oracle = func(string) string { return oracle(fn, p.args, last) }
		}
		ops = append(ops, op)
	}
	return ops
}

// stdHistories registers the per-function families and the cross-function family.
func stdHistories(c *Ctx, only func(name string) bool, oracle func(fn *stdFn, args []cty.Value, o stdOutcome) string) {
	if only == nil {
		only = func(string) bool { return true }
	}
	per, max := 3, 100
	if c.Thorough {
		per, max = 6, 200
	}
	// functions sharing machinery are explored as one family
	groups := [][]string{
		{"format", "formatlist"},
		{"regex", "regexall", "regex_replace"},
		{"formatdate", "timeadd"},
		{"setunion", "setintersection", "setsubtract", "setsymmetricdifference", "setproduct", "sethaselement", "contains", "distinct"},
		{"jsonencode", "jsondecode"},
		{"csvdecode"},
		{"concat", "slice", "reverselist", "flatten", "chunklist", "element"},
		{"merge", "lookup", "zipmap", "keys", "values", "coalesce", "coalescelist"},
	}
	inGroup := map[string]bool{}
	byName := map[string]*stdFn{}
	for _, fn := range stdFns {
		if only(fn.Name) {
			byName[fn.Name] = fn
		}
	}
	for _, g := range groups {
		g := g
		name := "stdlib calls: "
		for i, n := range g {
			inGroup[n] = true
			if i > 0 {
				name += ", "
			}
			name += n
		}
		any := false
		for _, n := range g {
			if byName[n] != nil {
				any = true
			}
		}
		if !any {
			continue
		}
		histFamily(c, name, func() []histOp {
			var ops []histOp
			for _, n := range g {
				if fn := byName[n]; fn != nil {
					ops = append(ops, stdHistoryOps(fn, per, max, oracle)...)
				}
			}
			return ops
		})
	}
	// every other function: a family of its own
	for _, fn := range stdFns {
		fn := fn
		if inGroup[fn.Name] || !only(fn.Name) {
			continue
		}
		histFamily(c, "stdlib calls: "+fn.Name, func() []histOp { return stdHistoryOps(fn, per, max/2, oracle) })
	}
	// across all functions
	histFamily(c, "stdlib calls across functions", func() []histOp {
		var ops []histOp
		for _, fn := range stdFns {
			if only(fn.Name) {
				ops = append(ops, stdHistoryOps(fn, 1, 5, oracle)...)
			}
		}
		return ops
	})
}

// refOracle judges a call on wholly known arguments by the reference implementations of C13 / C14.
func refOracle(refs map[string]refFn) func(fn *stdFn, args []cty.Value, o stdOutcome) string {
	return func(fn *stdFn, args []cty.Value, o stdOutcome) string {
		ref, ok := refs[fn.Name]
		if !ok {
			return ""
		}
		for _, a := range args {
			if !a.IsWhollyKnown() || a.ContainsMarked() {
				return ""
			}
		}
		r := safeRef(ref, args)
		switch r.K {
		case refErr:
			if o.OK() {
				return "outside the documented domain (" + r.Why + ") but accepted"
			}
		case refOK:
			if !o.OK() {
				return "inside the documented domain but rejected"
			}
			if r.Cmp != nil {
				return r.Cmp(o.V)
			}
			if !rawEq(o.V, r.V) {
				return "the reference gives " + goStr(r.V)
			}
		}
		return ""
	}
}
