package main

import (
	"fmt"
	"math"
	"sort"

	"github.com/zclconf/go-cty/cty"
)

func init() {
	register(&Check{
		ID:    "C06",
		Level: "exploration",
		Rule: "union driver: every value returned by (1) every constructor call on generated arguments (NFD names/keys, mixed dynamic members, marked members, nested marks), (2) every operation-method call of the C01 universe incl. all one-position weakenings, (3) every refinement-builder history of C05 to depth 2, " +
			"(4) every conversion of the C08 universe, (5) every stdlib call of the C11 universe, (6) every successful decode of the C15/C16/C17 seed corpus, (7) Walk/Transform/path outputs of C19 is passed through a deep well-formedness walk; " +
			"distinct by producing call and value GoString; non-trivial = composite or unknown or marked value",
		Assumptions: []string{
			"well-formedness = every applicable public accessor succeeds at every node, member payloads match declared types, tuple/object shape matches the type, strings / attribute names / map keys are NFC, set members unmarked and pairwise unequal, at most one mark layer, no optional-attribute annotation in the value's type",
		},
		Run: runC06,
	})
}

// wf is the deep well-formedness walk.  It returns "" when v is well-formed.
// wfTolerateOpt: set by a caller that hands the library a hand-built value whose own type carries
// optional-attribute annotations (NullVal / UnknownVal / empty collections of such a type can be
// constructed): what comes back then carries them by the caller's doing, not the library's.
var wfTolerateOpt bool

func tolerateOptFor(v cty.Value) func() {
	old := wfTolerateOpt
	wfTolerateOpt = tsOf(v.Type()).HasOpt()
	return func() { wfTolerateOpt = old }
}

func wf(v cty.Value) (why string) {
	defer func() {
		if r := recover(); r != nil {
			why = fmt.Sprintf("accessor panicked: %v", r)
		}
	}()
	return wf1(v, "")
}

func wf1(v cty.Value, path string) string {
	if v == cty.NilVal {
		return path + ": NilVal"
	}
	ty := v.Type()
	if ty == cty.NilType {
		return path + ": value has NilType"
	}
	if v.IsMarked() {
		inner, marks := v.Unmark()
		if len(marks) == 0 {
			return path + ": marked value with an empty mark set"
		}
		if inner.IsMarked() {
			return path + ": more than one layer of marks"
		}
		for m := range marks {
			if _, bad := m.(cty.ValueMarks); bad {
				return path + ": a mark set used as a mark"
			}
		}
		if !inner.Type().Equals(ty) {
			return path + ": unmarking changed the type"
		}
		v = inner
	}
	tm := tsOf(ty)
	if !wfTolerateOpt {
		if tm.HasOpt() {
			return fmt.Sprintf("%s: type %#v carries optional-attribute annotations", path, ty)
		}
		if !ty.Equals(ty.WithoutOptionalAttributesDeep()) {
			return fmt.Sprintf("%s: type %#v differs from its stripped form", path, ty)
		}
	}
	if err := wfType(tm); err != "" {
		return path + ": " + err
	}
	if !v.IsKnown() {
		r := v.Range()
		_ = r.CouldBeNull()
		switch {
		case ty == cty.Number:
			lo, _ := r.NumberLowerBound()
			hi, _ := r.NumberUpperBound()
			if lo.Type() != cty.Number || hi.Type() != cty.Number || lo.IsNull() || hi.IsNull() || lo.IsMarked() || hi.IsMarked() {
				return path + ": malformed numeric bounds"
			}
		case ty == cty.String:
			if p := r.StringPrefix(); nfc(p) != p {
				return fmt.Sprintf("%s: refinement prefix %+q is not NFC", path, p)
			}
		case ty.IsCollectionType():
			if r.LengthLowerBound() < 0 || r.LengthUpperBound() < r.LengthLowerBound() {
				return fmt.Sprintf("%s: length bounds [%d,%d]", path, r.LengthLowerBound(), r.LengthUpperBound())
			}
		}
		return ""
	}
	if v.IsNull() {
		return ""
	}
	switch {
	case ty == cty.DynamicPseudoType:
		return path + ": known non-null value of the dynamic pseudo-type"
	case ty == cty.Number:
		f := v.AsBigFloat()
		if f == nil {
			return path + ": nil number"
		}
	case ty == cty.String:
		s := v.AsString()
		if nfc(s) != s {
			return fmt.Sprintf("%s: string %+q is not NFC", path, s)
		}
	case ty == cty.Bool:
		_ = v.True()
	case ty.IsCapsuleType():
		if v.EncapsulatedValue() == nil {
			return path + ": capsule value without payload"
		}
	case ty.IsListType(), ty.IsSetType(), ty.IsTupleType():
		n := v.LengthInt()
		cs := children(v)
		if len(cs) != n {
			return fmt.Sprintf("%s: LengthInt %d but iterator yields %d", path, n, len(cs))
		}
		var etys []cty.Type
		if ty.IsTupleType() {
			etys = ty.TupleElementTypes()
			if len(etys) != n {
				return fmt.Sprintf("%s: tuple has %d members, its type %d", path, n, len(etys))
			}
		}
		for i, c := range cs {
			want := ty
			if ty.IsTupleType() {
				want = etys[i]
			} else {
				want = ty.ElementType()
			}
			if !c.Type().Equals(want) {
				return fmt.Sprintf("%s[%d]: member type %#v, declared %#v", path, i, c.Type(), want)
			}
			if ty.IsSetType() && c.ContainsMarked() {
				return fmt.Sprintf("%s[%d]: set member is marked", path, i)
			}
			if err := wf1(c, fmt.Sprintf("%s[%d]", path, i)); err != "" {
				return err
			}
		}
		if ty.IsSetType() {
			for i := range cs {
				for j := i + 1; j < len(cs); j++ {
					// equal by the documented equality, or by the library's own raw equality (a set
					// must not hold two members its own equality calls the same)
					if whollyKnownRef(cs[i]) && whollyKnownRef(cs[j]) && (refRawEq(cs[i], cs[j]) || rawEq(cs[i], cs[j])) {
						return fmt.Sprintf("%s: set holds equal members %s and %s", path, goStr(cs[i]), goStr(cs[j]))
					}
				}
			}
			_ = v.AsValueSet()
		}
		_ = v.AsValueSlice()
	case ty.IsMapType(), ty.IsObjectType():
		m := v.AsValueMap()
		n := v.LengthInt()
		if len(m) != n {
			return fmt.Sprintf("%s: LengthInt %d but AsValueMap has %d", path, n, len(m))
		}
		var keys []string
		for k := range m {
			keys = append(keys, k)
		}
		sort.Strings(keys)
		if ty.IsObjectType() {
			atys := ty.AttributeTypes()
			if len(atys) != len(m) {
				return fmt.Sprintf("%s: object has %d members, its type %d attributes", path, len(m), len(atys))
			}
			for _, k := range keys {
				at, ok := atys[k]
				if !ok {
					return fmt.Sprintf("%s: member %q not in type", path, k)
				}
				c := v.GetAttr(k)
				if !c.Type().Equals(at) {
					return fmt.Sprintf("%s.%s: member type %#v, declared %#v", path, k, c.Type(), at)
				}
			}
		}
		for _, k := range keys {
			if nfc(k) != k {
				return fmt.Sprintf("%s: key %+q is not NFC", path, k)
			}
			c := m[k]
			if ty.IsMapType() && !c.Type().Equals(ty.ElementType()) {
				return fmt.Sprintf("%s[%q]: member type %#v, declared %#v", path, k, c.Type(), ty.ElementType())
			}
			if err := wf1(c, path+"."+k); err != "" {
				return err
			}
		}
	default:
		return fmt.Sprintf("%s: unknown kind of type %#v", path, ty)
	}
	return ""
}

func wfType(t *TS) string {
	switch t.K {
	case 'L', 'S', 'M':
		return wfType(t.Elem)
	case 'T':
		for _, e := range t.Elems {
			if s := wfType(e); s != "" {
				return s
			}
		}
	case 'O':
		for _, a := range t.Attrs {
			if nfc(a.Name) != a.Name {
				return fmt.Sprintf("attribute name %+q is not NFC", a.Name)
			}
			if s := wfType(a.T); s != "" {
				return s
			}
		}
	}
	return ""
}

// wfObserve checks one produced value.
func wfObserve(u *U, site string, desc func() string, v cty.Value) {
	u.Eval(1)
	if why := wf(v); why != "" {
		u.Violation("wf."+site, shapeOf(v), fmt.Sprintf("%s returned a malformed value %s: %s", desc(), goStr(v), why))
		return
	}
	if v.IsMarked() || !v.IsKnown() || children(v) != nil {
		u.Distinct(site + goStr(v))
	}
}

var c06Extras []func(c *Ctx)

func runC06(c *Ctx) {
	// history clause first, so that each worker process meets it in its initial state
	histFamily(c, "retained values stay well-formed", c06HistoryOps)
	// (1) constructors
	c06Constructors(c)
	// (2) operation methods, one-position weakenings
	c01Cases(false, func(oc opCase) {
		c.Unit(func(u *U) {
			op := oc.op
			r0, p0, _ := callOp(op, oc.args)
			if p0 {
				return
			}
			wfObserve(u, op.Name, func() string { return op.Name + "(" + argsStr(oc.args) + ")" }, r0)
			nargs := len(oc.args)
			if op.Kind == "getattr" {
				nargs = 1
			}
			for i := 0; i < nargs; i++ {
				for _, w := range weakenValue(oc.args[i], 1, false, 2) {
					args := append([]cty.Value(nil), oc.args...)
					args[i] = w.V
					rW, pW, _ := callOp(op, args)
					if pW {
						continue
					}
					wfObserve(u, op.Name, func() string { return op.Name + "(" + argsStr(args) + ")" }, rW)
					// and its marked form
					rM, pM, _ := callOp(op, []cty.Value{args[0].Mark(markM1)})
					if len(args) == 2 {
						rM, pM, _ = callOp(op, []cty.Value{args[0].Mark(markM1), args[1]})
					}
					if !pM {
						wfObserve(u, op.Name, func() string { return op.Name + " on marked operand" }, rM)
					}
				}
			}
			if u.WantSample() {
				u.Sample(map[string]string{"producer": op.Name, "operands": argsStr(oc.args), "value": goStr(r0)})
			}
		})
	})
	// (3) refinement builder outputs
	all := refOps()
	for _, base := range refBases() {
		base := base
		c.Unit(func(u *U) {
			m := newRefModel(base.mk())
			var ops []refOp
			for _, o := range all {
				if m.kind == 'd' || containsByte(o.kinds, m.kind) {
					ops = append(ops, o)
				}
			}
			for i := range ops {
				for j := -1; j < len(ops); j++ {
					func() {
						defer func() { recover() }()
						b := base.mk().Refine()
						ops[i].apply(b)
						if j >= 0 {
							ops[j].apply(b)
						}
						v := b.NewValue()
						wfObserve(u, "Refine", func() string { return base.name + " refined" }, v)
					}()
				}
			}
		})
	}
	for _, f := range c06Extras {
		f(c)
	}
}

func containsByte(s string, b byte) bool {
	for i := 0; i < len(s); i++ {
		if s[i] == b {
			return true
		}
	}
	return false
}

func c06Constructors(c *Ctx) {
	leaves := []cty.Value{
		cty.StringVal("a"), cty.StringVal("e\u0301"), cty.StringVal("\uac00"), cty.StringVal("\u212b"), cty.Zero, cty.NumberFloatVal(math.Copysign(0, -1)), cty.NumberFloatVal(0.5), cty.True,
		cty.NullVal(cty.String), cty.UnknownVal(cty.String), cty.UnknownVal(cty.Number).RefineNotNull(), cty.DynamicVal, cty.NullVal(cty.DynamicPseudoType),
		cty.StringVal("m").Mark(markM1), cty.UnknownVal(cty.String).Mark(markM2), cty.StringVal("mm").Mark(markM1).Mark(markM2),
		cty.ListVal([]cty.Value{cty.StringVal("x")}), cty.ListVal([]cty.Value{cty.StringVal("x").Mark(markM3)}), cty.EmptyObjectVal,
		cty.TupleVal([]cty.Value{cty.DynamicVal}), cty.ObjectVal(map[string]cty.Value{"e\u0301": cty.StringVal("v")}),
		cty.SetVal([]cty.Value{cty.StringVal("s")}), cty.MapVal(map[string]cty.Value{"e\u0301": cty.Zero}),
		// one fraction held at 53, 64 and 512 bits, and the same decimal text parsed
		cty.NumberFloatVal(0.1), cty.NumberFloatVal(0.1).Add(cty.NumberIntVal(0)), cty.NumberFloatVal(0.1).Multiply(parseNum("1")), parseNum("0.1"),
	}
	names := []string{"a", "e\u0301", "\u00e9", "\uac00"}
	seqs(leaves, 2, func(ms []cty.Value) {
		c.Unit(func(u *U) {
			try := func(site string, f func() cty.Value) {
				defer func() { recover() }() // constructors may reject (inconsistent element types): not a value
				v := f()
				wfObserve(u, site, func() string { return site + "(" + argsStr(ms) + ")" }, v)
				// derived forms
				wfObserve(u, site+".Mark", func() string { return site + ".Mark" }, v.Mark(markM1))
				wfObserve(u, site+".Mark.Mark", func() string { return site + ".Mark.Mark" }, v.Mark(markM1).Mark(markM2))
				wfObserve(u, site+".WithMarks", func() string { return site + ".WithMarks" }, v.WithMarks(cty.NewValueMarks(markM1), cty.NewValueMarks(markM2)))
				wfObserve(u, site+".WithSameMarks", func() string { return site + ".WithSameMarks" }, v.WithSameMarks(cty.StringVal("z").Mark(markM3)))
				un, pvm := v.UnmarkDeepWithPaths()
				wfObserve(u, site+".UnmarkDeepWithPaths", func() string { return site + ".UnmarkDeepWithPaths" }, un)
				wfObserve(u, site+".MarkWithPaths", func() string { return site + ".MarkWithPaths" }, un.MarkWithPaths(pvm))
				wfObserve(u, site+".UnknownAsNull", func() string { return site + ".UnknownAsNull" }, cty.UnknownAsNull(un))
				u1, _ := v.Unmark()
				wfObserve(u, site+".Unmark", func() string { return site + ".Unmark" }, u1)
			}
			if len(ms) > 0 {
				try("ListVal", func() cty.Value { return cty.ListVal(append([]cty.Value(nil), ms...)) })
				try("SetVal", func() cty.Value { return cty.SetVal(append([]cty.Value(nil), ms...)) })
				// the mutable-set route to a set value
				try("SetValFromValueSet", func() cty.Value {
					vs := cty.NewValueSet(ms[0].Type())
					for _, m := range ms {
						vs.Add(m)
					}
					return cty.SetValFromValueSet(vs)
				})
				try("SetVal.AsValueSet.Add", func() cty.Value {
					vs := cty.SetVal([]cty.Value{ms[0]}).AsValueSet()
					for _, m := range ms[1:] {
						vs.Add(m)
					}
					return cty.SetValFromValueSet(vs)
				})
				try("ListOfSetVal", func() cty.Value {
					return cty.ListVal([]cty.Value{cty.SetVal(append([]cty.Value(nil), ms...))})
				})
				for ni := range names {
					ni := ni
					try("MapVal", func() cty.Value {
						m := map[string]cty.Value{}
						for i, v := range ms {
							m[names[(ni+i)%len(names)]] = v
						}
						return cty.MapVal(m)
					})
				}
			}
			try("TupleVal", func() cty.Value { return cty.TupleVal(append([]cty.Value(nil), ms...)) })
			for ni := range names {
				ni := ni
				try("ObjectVal", func() cty.Value {
					m := map[string]cty.Value{}
					for i, v := range ms {
						m[names[(ni+i)%len(names)]] = v
					}
					return cty.ObjectVal(m)
				})
			}
			if u.WantSample() {
				u.Sample(map[string]string{"constructor_args": argsStr(ms)})
			}
		})
	})
	c.Unit(func(u *U) {
		for _, t := range structTypes(false) {
			ty := t.Build()
			wfObserve(u, "NullVal", func() string { return "NullVal" }, cty.NullVal(ty))
			wfObserve(u, "UnknownVal", func() string { return "UnknownVal" }, cty.UnknownVal(ty))
			if ty.IsCollectionType() {
				wfObserve(u, "Empty", func() string { return "ListValEmpty/SetValEmpty/MapValEmpty" }, mkColl(ty, nil))
			}
		}
		for _, s := range strAlphabet {
			wfObserve(u, "StringVal", func() string { return "StringVal" }, cty.StringVal(s))
		}
	})
}
