package main

import (
	"errors"
	"fmt"
	"sort"
	"strings"

	"github.com/zclconf/go-cty/cty"
)

func init() {
	register(&Check{
		ID:    "C19",
		Level: "model_checking",
		Rule: "(a) every value of the bounded universe (nested structures with null, unknown and marked members at every depth: each pool value x mark placements at the root and at one or two nested members) : Walk against a reference pre-order enumeration, Path.Apply of every reported path, identity Transform, replacement of each single member, replacement of each member of every set by another member / a null / a fresh value (the set shrinks when the replacement equals another member), UnmarkDeepWithPaths / MarkWithPaths round trip; " +
			"(b) every path of length <= 2 (thorough 3) over a step alphabet (attribute names incl. normalising ones, integer / fractional / negative / huge / string / null / unknown keys) applied to every pool value against a reference; " +
			"(c) breadth-first search over all histories (depth 5, thorough 7) of Add / AddAllSteps / Remove / Copy-by-union / Union / Intersection / Subtract / SymmetricDifference on two real PathSets over a 7-path alphabet (numerically equal keys of different precision, normalising names, prefixes of one another), a model set in lock-step; states keyed on model + List order; " +
			"distinct by value GoString / (value, path) / state; non-trivial = composite, marked or unknown values; every transition",
		Assumptions: []string{
			"reference traversal order: object attributes and map keys in lexicographic order, sequences by index, sets in the set's own iteration order; null and unknown values are leaves",
			"a path applied to the root returns the visited member plus the marks of its ancestors (marks are compared as sets)",
			"paths through set members are not applied (the statement excepts them)",
		},
		Run: runC19,
	})
}

type visit struct {
	path cty.Path
	val  cty.Value
}

func pathStr(p cty.Path) string {
	var b strings.Builder
	for _, s := range p {
		switch st := s.(type) {
		case cty.GetAttrStep:
			// injective: a name that holds the characters this rendering uses is quoted
			if strings.ContainsAny(st.Name, ".[]\"") || st.Name == "" {
				b.WriteString("." + fmt.Sprintf("%q", st.Name))
			} else {
				b.WriteString("." + st.Name)
			}
		case cty.IndexStep:
			b.WriteString("[" + goStr(st.Key) + "]")
		default:
			b.WriteString("?")
		}
	}
	return b.String()
}

func pathThroughSet(root cty.Value, p cty.Path) bool {
	cur := root
	for _, s := range p {
		c, _ := cur.Unmark()
		if c.Type().IsSetType() {
			return true
		}
		next, err := func() (v cty.Value, err error) {
			defer func() {
				if r := recover(); r != nil {
					err = fmt.Errorf("%v", r)
				}
			}()
			return s.Apply(c)
		}()
		if err != nil {
			return false
		}
		cur = next
	}
	return false
}

// refWalk is the reference pre-order enumeration.
func refWalk(v cty.Value, p cty.Path, out *[]visit) {
	*out = append(*out, visit{append(cty.Path(nil), p...), v})
	raw, _ := v.Unmark()
	if !raw.IsKnown() || raw.IsNull() {
		return
	}
	ty := raw.Type()
	switch {
	case ty.IsObjectType():
		m := raw.AsValueMap()
		names := make([]string, 0, len(m))
		for n := range m {
			names = append(names, n)
		}
		sort.Strings(names)
		for _, n := range names {
			refWalk(m[n], append(append(cty.Path(nil), p...), cty.GetAttrStep{Name: n}), out)
		}
	case ty.IsMapType():
		m := raw.AsValueMap()
		keys := make([]string, 0, len(m))
		for k := range m {
			keys = append(keys, k)
		}
		sort.Strings(keys)
		for _, k := range keys {
			refWalk(m[k], append(append(cty.Path(nil), p...), cty.IndexStep{Key: cty.StringVal(k)}), out)
		}
	case ty.IsListType() || ty.IsTupleType():
		for i, e := range raw.AsValueSlice() {
			refWalk(e, append(append(cty.Path(nil), p...), cty.IndexStep{Key: cty.NumberIntVal(int64(i))}), out)
		}
	case ty.IsSetType():
		for _, e := range raw.AsValueSlice() {
			refWalk(e, append(append(cty.Path(nil), p...), cty.IndexStep{Key: e}), out)
		}
	}
}

func doWalk(v cty.Value) (out []visit, err error, pan string) {
	defer func() {
		if r := recover(); r != nil {
			pan = fmt.Sprint(r)
		}
	}()
	err = cty.Walk(v, func(p cty.Path, x cty.Value) (bool, error) {
		out = append(out, visit{p.Copy(), x})
		return true, nil
	})
	return
}

func marksOfRoot(v cty.Value) string { return marksStr(rootMarks(v)) }

func c19Value(u *U, v cty.Value) {
	u.Eval(1)
	shape := shapeOf(v)
	desc := goStr(v)
	if v.ContainsMarked() || !whollyKnownRef(v) || children(v) != nil {
		u.Distinct("v" + desc)
	}
	// 1. Walk vs reference
	got, err, pan := doWalk(v)
	if pan != "" || err != nil {
		u.Violation("walk.fails", shape, fmt.Sprintf("Walk(%s) failed: %v %s", desc, err, firstLineOf(pan)))
		return
	}
	var want []visit
	refWalk(v, nil, &want)
	if len(got) != len(want) {
		u.Violation("walk.visits", shape, fmt.Sprintf("Walk(%s) made %d visits, the reference enumeration has %d members", desc, len(got), len(want)))
		return
	}
	seen := map[string]bool{}
	for i := range got {
		ps := pathStr(got[i].path)
		if seen[ps] {
			u.Violation("walk.visits-twice", shape, fmt.Sprintf("Walk(%s) visited path %s twice", desc, ps))
			return
		}
		seen[ps] = true
		if ps != pathStr(want[i].path) || !rawEq(got[i].val, want[i].val) {
			u.Violation("walk.order-or-member", shape, fmt.Sprintf("Walk(%s): visit %d is (%s, %s), the reference has (%s, %s)", desc, i, ps, goStr(got[i].val), pathStr(want[i].path), goStr(want[i].val)))
			return
		}
	}
	// 2. every reported path leads back to the member
	for _, vis := range got {
		if pathThroughSet(v, vis.path) {
			continue
		}
		applied, aerr, apan := applyPath(vis.path, v)
		if apan != "" || aerr != nil {
			u.Violation("apply.reported-path-fails", shape, fmt.Sprintf("Walk(%s) reported path %s but Apply fails: %v %s", desc, pathStr(vis.path), aerr, firstLineOf(apan)))
			continue
		}
		a, am := applied.UnmarkDeep()
		m, mm := vis.val.UnmarkDeep()
		if !rawEq(a, m) {
			u.Violation("apply.reported-path-differs", shape, fmt.Sprintf("in %s path %s applies to %s but the visited member is %s", desc, pathStr(vis.path), goStr(applied), goStr(vis.val)))
			continue
		}
		for mk := range mm {
			if _, ok := am[mk]; !ok {
				u.Violation("apply.loses-mark", shape, fmt.Sprintf("in %s path %s applies to %s which lacks mark %v of the visited member %s", desc, pathStr(vis.path), goStr(applied), mk, goStr(vis.val)))
			}
		}
	}
	// 3. identity transform
	var tpaths []string
	tv, terr, tpan := doTransform(v, func(p cty.Path, x cty.Value) (cty.Value, error) {
		tpaths = append(tpaths, pathStr(p))
		return x, nil
	})
	if tpan != "" || terr != nil {
		u.Violation("transform.fails", shape, fmt.Sprintf("identity Transform(%s) failed: %v %s", desc, terr, firstLineOf(tpan)))
		return
	}
	if !rawEq(tv, v) {
		u.Violation("transform.identity-differs", shape, fmt.Sprintf("identity Transform(%s) = %s", desc, goStr(tv)))
	}
	wpaths := make([]string, len(got))
	for i, vis := range got {
		wpaths[i] = pathStr(vis.path)
	}
	sort.Strings(wpaths)
	sort.Strings(tpaths)
	if strings.Join(wpaths, "|") != strings.Join(tpaths, "|") {
		u.Violation("transform.paths-differ", shape, fmt.Sprintf("Transform(%s) visited paths {%s}, Walk visited {%s}", desc, strings.Join(tpaths, " "), strings.Join(wpaths, " ")))
	}
	// 4. replace one member, the others undisturbed
	for _, vis := range got {
		if pathThroughSet(v, vis.path) || len(vis.path) == 0 {
			continue
		}
		target := pathStr(vis.path)
		inner, _ := vis.val.Unmark()
		repl := cty.NullVal(inner.Type()).Mark("R")
		if inner.IsNull() {
			repl = cty.UnknownVal(inner.Type()).Mark("R")
		}
		rv, rerr, rpan := doTransform(v, func(p cty.Path, x cty.Value) (cty.Value, error) {
			if pathStr(p) == target {
				return repl, nil
			}
			return x, nil
		})
		u.Eval(1)
		if rpan != "" || rerr != nil {
			u.Violation("transform.replace-fails", shape, fmt.Sprintf("Transform(%s) replacing %s failed: %v %s", desc, target, rerr, firstLineOf(rpan)))
			continue
		}
		after, werr, wpan := doWalk(rv)
		if wpan != "" || werr != nil {
			u.Violation("transform.replace-fails", shape, fmt.Sprintf("Walk of the result of replacing %s in %s failed", target, desc))
			continue
		}
		afterBy := map[string]cty.Value{}
		for _, a := range after {
			afterBy[pathStr(a.path)] = a.val
		}
		for _, orig := range got {
			ps := pathStr(orig.path)
			switch {
			case ps == target:
				if nv, ok := afterBy[ps]; !ok || !rawEq(nv, repl) {
					u.Violation("transform.replace-not-applied", shape, fmt.Sprintf("Transform(%s) replacing %s by %s: member is %s", desc, target, goStr(repl), goStr(nv)))
				}
			case strings.HasPrefix(ps, target):
				// below the replaced member: gone
			case strings.HasPrefix(target, ps):
				// an ancestor: its own marks and type must be unchanged
				nv, ok := afterBy[ps]
				if !ok || marksOfRoot(nv) != marksOfRoot(orig.val) || !nv.Type().Equals(orig.val.Type()) {
					u.Violation("transform.replace-disturbs-ancestor", shape, fmt.Sprintf("Transform(%s) replacing %s: ancestor %s became %s", desc, target, ps, goStr(nv)))
				}
			default:
				nv, ok := afterBy[ps]
				if !ok || !rawEq(nv, orig.val) {
					u.Violation("transform.replace-disturbs-other", shape, fmt.Sprintf("Transform(%s) replacing %s: member %s changed from %s to %s", desc, target, ps, goStr(orig.val), goStr(nv)))
				}
			}
		}
	}
	// 4b. replace one member of a set (members of sets are visited with the set's path plus an index step keyed by the member itself): the
	// result holds the other members and the replacement - also when the replacement equals
	// another member, so that the set shrinks
	for _, vis := range got {
		if pathThroughSet(v, vis.path) {
			continue
		}
		sv, smarks := vis.val.Unmark()
		if !sv.IsKnown() || sv.IsNull() || !sv.Type().IsSetType() || sv.LengthInt() == 0 {
			continue
		}
		members := sv.AsValueSlice()
		setPath := pathStr(vis.path)
		ety := sv.Type().ElementType()
		var repls []cty.Value
		repls = append(repls, members...)
		repls = append(repls, cty.NullVal(ety))
		if ety == cty.String {
			repls = append(repls, cty.StringVal("fresh"))
		}
		if ety == cty.Number {
			repls = append(repls, cty.NumberIntVal(424242))
		}
		for mi, m := range members {
			if m.ContainsMarked() || !m.IsWhollyKnown() {
				continue // membership of such members is not decidable by raw equality
			}
			for _, r := range repls {
				if rawEq(r, m) || r.ContainsMarked() || !r.IsWhollyKnown() {
					continue
				}
				var want []cty.Value
				for j, o := range members {
					if j != mi {
						want = append(want, o)
					}
				}
				want = append(want, r)
				wantSet := cty.SetVal(want).WithMarks(smarks)
				rv, rerr, rpan := doTransform(v, func(p cty.Path, x cty.Value) (cty.Value, error) {
					if len(p) == len(vis.path)+1 && pathStr(p[:len(vis.path)]) == setPath && x.Type().Equals(ety) && rawEq(x, m) {
						return r, nil
					}
					return x, nil
				})
				u.Eval(1)
				if rpan != "" || rerr != nil {
					u.Violation("transform.replace-fails", shape, fmt.Sprintf("Transform(%s) replacing set member %s by %s failed: %v %s", desc, goStr(m), goStr(r), rerr, firstLineOf(rpan)))
					continue
				}
				gotSet, aerr, apan := applyPath(vis.path, rv)
				if apan != "" || aerr != nil {
					u.Violation("transform.replace-fails", shape, fmt.Sprintf("Transform(%s) replacing set member %s by %s: the set at %s is gone", desc, goStr(m), goStr(r), setPath))
					continue
				}
				// (Path.Apply hands down the marks of the ancestors it passes: compare below the top-level marks)
				gu, _ := gotSet.Unmark()
				wu, _ := wantSet.Unmark()
				if !rawEq(gu, wu) {
					u.Violation("transform.replace-set-member", shape, fmt.Sprintf("Transform(%s) replacing member %s of the set at %q by %s gives %s, expected %s", desc, goStr(m), setPath, goStr(r), goStr(gotSet), goStr(wantSet)))
				}
				u.Class("set-member-replaced")
			}
		}
	}
	// 5. path-indexed marks
	func() {
		defer func() {
			if r := recover(); r != nil {
				u.Violation("marks.paths-panics", shape, fmt.Sprintf("UnmarkDeepWithPaths / MarkWithPaths of %s panicked: %v", desc, r))
			}
		}()
		un, pvm := v.UnmarkDeepWithPaths()
		if un.ContainsMarked() {
			u.Violation("marks.unmarkdeep-incomplete", shape, fmt.Sprintf("UnmarkDeepWithPaths(%s) left marks: %s", desc, goStr(un)))
		}
		wantMarks := map[string]string{}
		for _, vis := range got {
			if vis.val.IsMarked() {
				wantMarks[pathStr(vis.path)] = marksOfRoot(vis.val)
			}
		}
		gotMarks := map[string]string{}
		for _, pm := range pvm {
			ms := map[interface{}]bool{}
			for m := range pm.Marks {
				ms[m] = true
			}
			gotMarks[pathStr(pm.Path)] = marksStr(ms)
		}
		if fmt.Sprint(wantMarks) != fmt.Sprint(gotMarks) {
			u.Violation("marks.paths-differ", shape, fmt.Sprintf("UnmarkDeepWithPaths(%s) reported %v, the marked members are %v", desc, gotMarks, wantMarks))
		}
		snap := pvmSnapshot(pvm)
		back := un.MarkWithPaths(pvm)
		if !rawEq(back, v) {
			u.Violation("marks.roundtrip-differs", shape, fmt.Sprintf("MarkWithPaths(UnmarkDeepWithPaths(%s)) = %s", desc, goStr(back)))
		}
		// the path/mark list is the caller's: re-applying it must not consume or reorder it,
		// and a second application gives the same value
		if after := pvmSnapshot(pvm); after != snap {
			u.Violation("marks.paths-argument-modified", shape, fmt.Sprintf("MarkWithPaths changed the caller's []PathValueMarks from %s to %s (value %s)", snap, after, desc))
		}
		if back2 := un.MarkWithPaths(pvm); !rawEq(back2, v) {
			u.Violation("marks.roundtrip-differs", shape, fmt.Sprintf("applying the same []PathValueMarks a second time gives %s, the original is %s", goStr(back2), desc))
		}
	}()
	// 6. pre-order (Enter) / post-order (Exit) transformer
	c19Transformer(u, v, got, shape, desc)
	if u.WantSample() {
		u.Sample(map[string]interface{}{"value": desc, "visits": len(got)})
	}
}

func applyPath(p cty.Path, v cty.Value) (r cty.Value, err error, pan string) {
	defer func() {
		if x := recover(); x != nil {
			pan = fmt.Sprint(x)
		}
	}()
	r, err = p.Apply(v)
	return
}

func doTransform(v cty.Value, cb func(cty.Path, cty.Value) (cty.Value, error)) (r cty.Value, err error, pan string) {
	defer func() {
		if x := recover(); x != nil {
			pan = fmt.Sprint(x)
		}
	}()
	r, err = cty.Transform(v, cb)
	return
}

// ---- (b) arbitrary paths against a reference

var errNoMember = errors.New("no such member")

// refStep: reference for one step; k: 0 ok, 1 must fail, 2 unspecified.
func refStep(cur cty.Value, s cty.PathStep) (cty.Value, int) {
	c, _ := cur.Unmark()
	if c.IsKnown() && c.IsNull() {
		return cty.NilVal, 1
	}
	if !c.IsKnown() {
		return cty.NilVal, 2
	}
	ty := c.Type()
	switch st := s.(type) {
	case cty.GetAttrStep:
		if !ty.IsObjectType() {
			return cty.NilVal, 1
		}
		m := c.AsValueMap()
		v, ok := m[st.Name]
		if !ok {
			if _, ok2 := m[nfc(st.Name)]; ok2 {
				return cty.NilVal, 2 // un-normalised spelling of an existing attribute
			}
			return cty.NilVal, 1
		}
		return v, 0
	case cty.IndexStep:
		k := st.Key
		if k.IsMarked() || !k.IsKnown() {
			return cty.NilVal, 2
		}
		if k.IsNull() {
			return cty.NilVal, 1
		}
		switch {
		case ty.IsListType() || ty.IsTupleType():
			if k.Type() != cty.Number {
				return cty.NilVal, 1
			}
			i, whole, small := wholeInt(k)
			es := c.AsValueSlice()
			if !whole || !small || i < 0 || i >= len(es) {
				return cty.NilVal, 1
			}
			return es[i], 0
		case ty.IsMapType():
			if k.Type() != cty.String {
				return cty.NilVal, 1
			}
			v, ok := c.AsValueMap()[k.AsString()]
			if !ok {
				return cty.NilVal, 1
			}
			return v, 0
		}
		return cty.NilVal, 1
	}
	return cty.NilVal, 2
}

func c19Steps(thorough bool) []cty.PathStep {
	steps := []cty.PathStep{
		cty.GetAttrStep{Name: "a"}, cty.GetAttrStep{Name: "b"}, cty.GetAttrStep{Name: "zz"}, cty.GetAttrStep{Name: "é"},
		cty.IndexStep{Key: cty.NumberIntVal(0)}, cty.IndexStep{Key: cty.NumberIntVal(1)}, cty.IndexStep{Key: cty.NumberIntVal(-1)}, cty.IndexStep{Key: cty.NumberIntVal(2)},
		cty.IndexStep{Key: cty.NumberFloatVal(0.5)}, cty.IndexStep{Key: cty.StringVal("k1")}, cty.IndexStep{Key: cty.StringVal("zz")}, cty.IndexStep{Key: cty.NullVal(cty.Number)},
	}
	if thorough {
		steps = append(steps,
			cty.IndexStep{Key: cty.NumberUIntVal(1 << 63)}, cty.IndexStep{Key: numPrec("1", 24)}, cty.IndexStep{Key: cty.StringVal("é")}, cty.IndexStep{Key: cty.NullVal(cty.String)},
			cty.IndexStep{Key: cty.True}, cty.IndexStep{Key: cty.PositiveInfinity}, cty.GetAttrStep{Name: ""}, cty.IndexStep{Key: cty.StringVal("k2")},
		)
	}
	return steps
}

func c19Paths(u *U, v cty.Value, steps []cty.PathStep, maxLen int) {
	shape := shapeOf(v)
	var rec func(p cty.Path)
	rec = func(p cty.Path) {
		if len(p) > 0 {
			u.Eval(1)
			// reference
			cur := v
			k := 0
			var marks = map[interface{}]bool{}
			for _, s := range p {
				for m := range rootMarks(cur) {
					marks[m] = true
				}
				next, kk := refStep(cur, s)
				if kk != 0 {
					k = kk
					break
				}
				cur = next
			}
			if k != 2 {
				u.Distinct("p" + goStr(v) + pathStr(p))
				got, err, pan := applyPath(p, v)
				switch {
				case pan != "":
					u.Violation("apply.panics", shape, fmt.Sprintf("Path %s applied to %s panicked: %s", pathStr(p), goStr(v), firstLineOf(pan)))
				case k == 1 && err == nil:
					u.Violation("apply.accepts-missing-member", shape, fmt.Sprintf("Path %s applied to %s returned %s although a step names no existing member", pathStr(p), goStr(v), goStr(got)))
				case k == 0 && err != nil:
					u.Violation("apply.rejects-existing-member", shape, fmt.Sprintf("Path %s applied to %s failed (%v) although every step names an existing member", pathStr(p), goStr(v), err))
				case k == 0:
					a, _ := got.UnmarkDeep()
					m, _ := cur.UnmarkDeep()
					if !rawEq(a, m) {
						u.Violation("apply.wrong-member", shape, fmt.Sprintf("Path %s applied to %s returned %s, the member is %s", pathStr(p), goStr(v), goStr(got), goStr(cur)))
					}
					u.Class("apply-ok")
				default:
					u.Class("apply-refused")
				}
			}
		}
		if len(p) == maxLen {
			return
		}
		for _, s := range steps {
			rec(append(append(cty.Path(nil), p...), s))
		}
	}
	rec(nil)
}

// ---- (c) PathSet BFS

type pathSys struct {
	paths []cty.Path
	initA []int // paths A holds in the initial state
	initB []int
}

// c19IndexAlphabet: index steps under one prefix (they share a hash bucket), with a
// negative-zero key that is the same key as 0.
func c19IndexAlphabet() []cty.Path {
	it := cty.GetAttrPath("items")
	return []cty.Path{
		it.IndexInt(0), it.Index(cty.Zero.Negate()), it.IndexInt(1), it.IndexInt(2), it.IndexInt(3), it.IndexString("0"), it.Index(cty.NumberFloatVal(2)),
	}
}

func c19PathAlphabet() []cty.Path {
	return []cty.Path{
		cty.GetAttrPath("a"),
		cty.GetAttrPath("a").IndexInt(1),
		cty.GetAttrPath("a").Index(numPrec("1", 24)), // numerically equal key, different precision
		cty.GetAttrPath("a").IndexString("1"),
		cty.GetAttrPath("é"),
		cty.GetAttrPath("a").IndexInt(1).GetAttr("b"),
		{},
	}
}

// c19CollisionAlphabet: distinct paths whose step texts run together to the same string.
func c19CollisionAlphabet() []cty.Path {
	return []cty.Path{
		cty.GetAttrPath("a").GetAttr("b"),
		cty.GetAttrPath("ab"),
		cty.GetAttrPath("a").GetAttr("bc"),
		cty.GetAttrPath("ab").GetAttr("c"),
		cty.GetAttrPath("abc"),
		cty.GetAttrPath("l").IndexInt(0),
		cty.GetAttrPath("l#"),
		cty.GetAttrPath("l").IndexString("#"),
	}
}

var pathAlgebra = []string{"Union", "Intersection", "Subtract", "SymmetricDifference"}

func (s *pathSys) NumOps() int { return 3*len(s.paths) + 2 + 2*len(pathAlgebra) }
func (s *pathSys) OpName(i int) string {
	n := len(s.paths)
	switch {
	case i < n:
		return fmt.Sprintf("A.Add(p%d)", i)
	case i < 2*n:
		return fmt.Sprintf("A.Remove(p%d)", i-n)
	case i < 3*n:
		return fmt.Sprintf("A.AddAllSteps(p%d)", i-2*n)
	case i == 3*n:
		return "B=A.Union(empty)"
	case i == 3*n+1:
		return "swap(A,B)"
	}
	if k := i - 3*n - 2; k < len(pathAlgebra) {
		return "A=A." + pathAlgebra[k] + "(B)"
	}
	return "B=A." + pathAlgebra[i-3*n-2-len(pathAlgebra)] + "(B)" // the receiver stays alive next to the result
}

type pathInst struct {
	sys    *pathSys
	A, B   cty.PathSet
	mA, mB map[string]bool
}

func (s *pathSys) New() E2Inst {
	in := &pathInst{sys: s, A: cty.NewPathSet(), B: cty.NewPathSet(), mA: map[string]bool{}, mB: map[string]bool{}}
	for _, i := range s.initA {
		in.A.Add(s.paths[i].Copy())
		in.mA[canonPath(s.paths[i])] = true
	}
	for _, i := range s.initB {
		in.B.Add(s.paths[i].Copy())
		in.mB[canonPath(s.paths[i])] = true
	}
	return in
}

// canonPath: model identity of a path (keys by documented equality).
func canonPath(p cty.Path) string {
	var b strings.Builder
	b.WriteString("$")
	for _, s := range p {
		switch st := s.(type) {
		case cty.GetAttrStep:
			b.WriteString(".A:" + st.Name)
		case cty.IndexStep:
			k := st.Key
			if k.Type() == cty.Number {
				if bf(k).Sign() == 0 {
					b.WriteString("[N:0]") // -0 and 0 are one key
				} else {
					b.WriteString("[N:" + bf(k).Text('f', -1) + "]")
				}
			} else {
				b.WriteString("[S:" + k.AsString() + "]")
			}
		}
	}
	return b.String()
}

func copyModel(m map[string]bool) map[string]bool {
	o := map[string]bool{}
	for k := range m {
		o[k] = true
	}
	return o
}

func modelKeys(m map[string]bool) string {
	ks := make([]string, 0, len(m))
	for k := range m {
		ks = append(ks, k)
	}
	sort.Strings(ks)
	return strings.Join(ks, "|")
}

func (in *pathInst) Apply(op int, check bool, report func(site, shape, detail string)) (ok bool) {
	n := len(in.sys.paths)
	defer func() {
		if r := recover(); r != nil {
			if report != nil {
				report("panic", in.sys.OpName(op), fmt.Sprintf("operation panicked: %v", r))
			}
			ok = true
		}
	}()
	var oldB string
	if check {
		oldB = fingerprint(false, in.B)
	}
	bTouched := false
	switch {
	case op < n:
		in.A.Add(in.sys.paths[op].Copy())
		in.mA[canonPath(in.sys.paths[op])] = true
	case op < 2*n:
		in.A.Remove(in.sys.paths[op-n])
		delete(in.mA, canonPath(in.sys.paths[op-n]))
	case op < 3*n:
		p := in.sys.paths[op-2*n]
		in.A.AddAllSteps(p.Copy())
		for i := 1; i <= len(p); i++ {
			in.mA[canonPath(p[:i])] = true
		}
	case op == 3*n:
		in.B = in.A.Union(cty.NewPathSet())
		in.mB = copyModel(in.mA)
		bTouched = true
	case op == 3*n+1:
		in.A, in.B = in.B, in.A
		in.mA, in.mB = in.mB, in.mA
		bTouched = true
	default:
		m := map[string]bool{}
		var r cty.PathSet
		intoB := op-3*n-2 >= len(pathAlgebra)
		switch pathAlgebra[(op-3*n-2)%len(pathAlgebra)] {
		case "Union":
			r = in.A.Union(in.B)
			for k := range in.mA {
				m[k] = true
			}
			for k := range in.mB {
				m[k] = true
			}
		case "Intersection":
			r = in.A.Intersection(in.B)
			for k := range in.mA {
				if in.mB[k] {
					m[k] = true
				}
			}
		case "Subtract":
			r = in.A.Subtract(in.B)
			for k := range in.mA {
				if !in.mB[k] {
					m[k] = true
				}
			}
		case "SymmetricDifference":
			r = in.A.SymmetricDifference(in.B)
			for k := range in.mA {
				if !in.mB[k] {
					m[k] = true
				}
			}
			for k := range in.mB {
				if !in.mA[k] {
					m[k] = true
				}
			}
		}
		if intoB {
			in.B, in.mB = r, m
			bTouched = true
		} else {
			in.A, in.mA = r, m
		}
	}
	if !check {
		return true
	}
	in.checkSet("A", in.A, in.mA, report)
	in.checkSet("B", in.B, in.mB, report)
	eq := in.A.Equal(in.B)
	if want := modelKeys(in.mA) == modelKeys(in.mB); eq != want {
		report("equal", in.sys.OpName(op), fmt.Sprintf("A.Equal(B) = %v, the model sets are equal = %v (A=%s B=%s)", eq, want, modelKeys(in.mA), modelKeys(in.mB)))
	}
	if !bTouched {
		if nb := fingerprint(false, in.B); nb != oldB {
			report("interference", in.sys.OpName(op), "operation on A changed the memory reachable from the other set B")
		}
	}
	return true
}

func (in *pathInst) checkSet(name string, s cty.PathSet, model map[string]bool, report func(site, shape, detail string)) {
	list := s.List()
	seen := map[string]bool{}
	for _, p := range list {
		c := canonPath(p)
		if seen[c] {
			report("duplicate", name, fmt.Sprintf("%s.List() holds path %s twice", name, c))
		}
		seen[c] = true
		if !model[c] {
			report("extra-member", name, fmt.Sprintf("%s.List() holds %s which the model set lacks", name, c))
		}
	}
	for c := range model {
		if !seen[c] {
			report("missing-member", name, fmt.Sprintf("%s.List() lacks %s", name, c))
		}
	}
	for _, p := range in.sys.paths {
		if has := s.Has(p); has != model[canonPath(p)] {
			report("has", name, fmt.Sprintf("%s.Has(%s) = %v, model says %v", name, canonPath(p), has, model[canonPath(p)]))
		}
		for i := 1; i < len(p); i++ {
			if has := s.Has(p[:i]); has != model[canonPath(p[:i])] {
				report("has", name, fmt.Sprintf("%s.Has(%s) = %v, model says %v", name, canonPath(p[:i]), has, model[canonPath(p[:i])]))
			}
		}
	}
	if s.Empty() != (len(model) == 0) {
		report("empty", name, fmt.Sprintf("%s.Empty() = %v with %d model members", name, s.Empty(), len(model)))
	}
}

func (in *pathInst) Key() string {
	var la, lb []string
	for _, p := range in.A.List() {
		la = append(la, canonPath(p))
	}
	for _, p := range in.B.List() {
		lb = append(lb, canonPath(p))
	}
	return "A:" + strings.Join(la, ",") + " B:" + strings.Join(lb, ",") + " mA:" + modelKeys(in.mA) + " mB:" + modelKeys(in.mB)
}

// ---- driver

func c19Pool(thorough bool) []cty.Value {
	base := structPool(thorough)
	var out []cty.Value
	seen := map[string]bool{}
	add := func(v cty.Value) {
		k := goStr(v)
		if !seen[k] {
			seen[k] = true
			out = append(out, v)
		}
	}
	for _, v := range base {
		if tsOf(v.Type()).HasCaps() {
			continue
		}
		add(v)
		if children(v) == nil {
			add(v.Mark(markM1))
			continue
		}
		// marks at the root, at one nested member, at two nested members
		for _, mv := range markedVariants(v, [][]string{{markM1}, {markM1, markM2}}, true) {
			add(mv)
		}
		// an unknown / null member
		for _, p := range allPositions(v, 2) {
			if len(p) == 0 {
				continue
			}
			x := getAt(v, p)
			for _, r := range []cty.Value{cty.UnknownVal(x.Type()), cty.NullVal(x.Type()), cty.UnknownVal(x.Type()).Mark(markM2)} {
				if nv, ok := replaceAt(v, p, r); ok {
					add(nv)
					if thorough {
						add(nv.Mark(markM1))
					}
				}
			}
		}
	}
	// deeper nesting (walk path buffers are reused at depth >= 4)
	deep := cty.ObjectVal(map[string]cty.Value{
		"a": cty.ListVal([]cty.Value{
			cty.ObjectVal(map[string]cty.Value{"m": cty.MapVal(map[string]cty.Value{"k1": cty.TupleVal([]cty.Value{cty.StringVal("x"), cty.StringVal("y").Mark(markM1), cty.StringVal("z")}), "k2": cty.TupleVal([]cty.Value{cty.StringVal("p"), cty.StringVal("q"), cty.StringVal("r")})})}),
			cty.ObjectVal(map[string]cty.Value{"m": cty.MapVal(map[string]cty.Value{"k1": cty.TupleVal([]cty.Value{cty.StringVal("1"), cty.StringVal("2"), cty.StringVal("3")}), "k2": cty.TupleVal([]cty.Value{cty.StringVal("4"), cty.StringVal("5"), cty.StringVal("6")}).Mark(markM2)})}),
		}),
		"b": cty.SetVal([]cty.Value{cty.TupleVal([]cty.Value{cty.StringVal("s"), cty.Zero})}),
		"c": cty.ListValEmpty(cty.String).Mark(markM3),
		"d": cty.EmptyTupleVal.Mark(markM1),
		"e": cty.MapValEmpty(cty.Bool).Mark(markM2),
		"f": cty.EmptyObjectVal.Mark(markM3),
		"g": cty.SetValEmpty(cty.Number).Mark(markM1),
	})
	add(deep)
	add(deep.Mark(markM2))
	for _, e := range []cty.Value{cty.ListValEmpty(cty.String), cty.EmptyTupleVal, cty.SetValEmpty(cty.String), cty.MapValEmpty(cty.String), cty.EmptyObjectVal} {
		add(e.Mark(markM1))
		add(cty.TupleVal([]cty.Value{e.Mark(markM1), cty.StringVal("x")}))
		add(cty.ObjectVal(map[string]cty.Value{"a": e.Mark(markM2), "b": cty.True.Mark(markM1)}))
	}
	// path-collision family: members whose paths have the same step texts run together
	// (.a.b / .ab, .a.bc / .ab.c, .l[0] / ."l#", [0].id.s / [0].ids, [k1].a / [k2].a), every
	// single member and every pair of non-nested members marked, with equal and with different marks
	for _, v := range c19CollisionBases() {
		add(v)
		var ps []Pos
		for _, p := range allPositions(v, 4) {
			if len(p) > 0 && !passesThroughSet(v, p) {
				ps = append(ps, p)
			}
		}
		for i, pi := range ps {
			one, ok := replaceAt(v, pi, getAt(v, pi).Mark(markM1))
			if !ok {
				continue
			}
			add(one)
			for j := i + 1; j < len(ps); j++ {
				pj := ps[j]
				if isPrefixPos(pi, pj) || isPrefixPos(pj, pi) {
					continue
				}
				for _, m := range []string{markM1, markM2} {
					if two, ok := replaceAt(one, pj, getAt(one, pj).Mark(m)); ok {
						add(two)
					}
				}
			}
		}
	}
	return out
}

func c19CollisionBases() []cty.Value {
	s := cty.StringVal
	o := cty.ObjectVal
	m := func(kv ...interface{}) map[string]cty.Value {
		r := map[string]cty.Value{}
		for i := 0; i < len(kv); i += 2 {
			r[kv[i].(string)] = kv[i+1].(cty.Value)
		}
		return r
	}
	return []cty.Value{
		o(m("a", o(m("b", s("x"))), "ab", s("y"))),
		o(m("a", o(m("bc", s("x"))), "ab", o(m("c", s("y"))))),
		o(m("l", cty.ListVal([]cty.Value{s("y")}), "l#", s("z"), "#", s("w"))),
		cty.ListVal([]cty.Value{o(m("id", o(m("s", s("x"))), "ids", s("y")))}),
		cty.MapVal(m("k1", o(m("a", s("x"))), "k2", o(m("a", s("y"))))),
		cty.TupleVal([]cty.Value{o(m("a", s("x"))), o(m("a", cty.True)), cty.ListVal([]cty.Value{s("p"), s("q")})}),
		o(m("x", o(m("yz", cty.Zero)), "xy", o(m("z", cty.Zero)), "xyz", cty.Zero)),
		// attribute names that read like a longer path through a sibling (any text rendering of paths)
		o(m("a.b", s("x"), "a", o(m("b", s("y"))))),
		o(m("servers[0]", s("x"), "servers", cty.ListVal([]cty.Value{s("y")}))),
		o(m("env[\"TOKEN\"]", s("x"), "env", cty.MapVal(m("TOKEN", s("y"))))),
		o(m("t[1]", cty.True, "t", cty.TupleVal([]cty.Value{s("p"), cty.False}), "t.1", cty.Zero)),
		o(m("a", o(m("b.c", s("x"), "b", o(m("c", s("y"))))), "a.b", o(m("c", s("z"))))),
	}
}

func runC19(c *Ctx) {
	pool := c19Pool(c.Thorough)
	c.Note("pool_values", fmtInt(len(pool)))
	for lo := 0; lo < len(pool); lo += 20 {
		hi := lo + 20
		if hi > len(pool) {
			hi = len(pool)
		}
		part := pool[lo:hi]
		c.Unit(func(u *U) {
			for _, v := range part {
				c19Value(u, v)
			}
		})
	}
	steps := c19Steps(c.Thorough)
	maxLen := 2
	if c.Thorough {
		maxLen = 3
	}
	var ppool []cty.Value
	for i, v := range pool {
		if children(v) != nil || v.IsMarked() || i%7 == 0 {
			ppool = append(ppool, v)
		}
	}
	if !c.Thorough && len(ppool) > 1500 {
		ppool = ppool[:1500]
	}
	for lo := 0; lo < len(ppool); lo += 10 {
		hi := lo + 10
		if hi > len(ppool) {
			hi = len(ppool)
		}
		part := ppool[lo:hi]
		c.Unit(func(u *U) {
			for _, v := range part {
				if c.Stopped() {
					return
				}
				c19Paths(u, v, steps, maxLen)
			}
		})
	}
	depth := 5
	if c.Thorough {
		depth = 7
	}
	c.Note("pathset_bfs_depth", fmtInt(depth))
	exploreE2(c, &pathSys{paths: c19PathAlphabet()}, depth, "pathset.")
	// index steps of one collection (one hash bucket), from the empty set and from sets that
	// already hold three and four of them
	exploreE2(c, &pathSys{paths: c19CollisionAlphabet()}, depth-1, "pathset[collide].")
	exploreE2(c, &pathSys{paths: c19IndexAlphabet()}, depth-1, "pathset[index].")
	exploreE2(c, &pathSys{paths: c19IndexAlphabet(), initA: []int{0, 2, 3}, initB: []int{4}}, depth-1, "pathset[index/3].")
	exploreE2(c, &pathSys{paths: c19IndexAlphabet(), initA: []int{1, 2, 3, 4}, initB: []int{0, 5}}, depth-2, "pathset[index/4].")
}

func pvmSnapshot(pvm []cty.PathValueMarks) string {
	var parts []string
	for _, pm := range pvm {
		ms := map[interface{}]bool{}
		for m := range pm.Marks {
			ms[m] = true
		}
		parts = append(parts, pathStr(pm.Path)+"="+marksStr(ms))
	}
	return "[" + strings.Join(parts, "; ") + "]"
}

type spyTransformer struct {
	enter, exit func(cty.Path, cty.Value) (cty.Value, error)
}

func (t *spyTransformer) Enter(p cty.Path, v cty.Value) (cty.Value, error) { return t.enter(p, v) }
func (t *spyTransformer) Exit(p cty.Path, v cty.Value) (cty.Value, error)  { return t.exit(p, v) }

func doTransformer(v cty.Value, t cty.Transformer) (r cty.Value, err error, pan string) {
	defer func() {
		if x := recover(); x != nil {
			pan = fmt.Sprint(x)
		}
	}()
	r, err = cty.TransformWithTransformer(v, t)
	return
}

// c19Transformer: with identity hooks the result is the value, Enter runs in Walk's pre-order
// and Exit visits the same paths; an Enter hook that replaces one member by a value of ANOTHER
// kind (leaf -> object, compound -> leaf, tuple -> list) makes the traversal continue inside the
// replacement, the result holds the replacement there and every other member is undisturbed.
func c19Transformer(u *U, v cty.Value, got []visit, shape, desc string) {
	var enters, exits []string
	id := &spyTransformer{
		enter: func(p cty.Path, x cty.Value) (cty.Value, error) { enters = append(enters, pathStr(p)); return x, nil },
		exit:  func(p cty.Path, x cty.Value) (cty.Value, error) { exits = append(exits, pathStr(p)); return x, nil },
	}
	u.Eval(1)
	tv, terr, tpan := doTransformer(v, id)
	if tpan != "" || terr != nil {
		u.Violation("transformer.fails", shape, fmt.Sprintf("identity TransformWithTransformer(%s) failed: %v %s", desc, terr, firstLineOf(tpan)))
		return
	}
	if !rawEq(tv, v) {
		u.Violation("transformer.identity-differs", shape, fmt.Sprintf("identity TransformWithTransformer(%s) = %s", desc, goStr(tv)))
	}
	wpaths := make([]string, len(got))
	for i, vis := range got {
		wpaths[i] = pathStr(vis.path)
	}
	// Enter is pre-order and Exit post-order (Transformer doc comment); the order among
	// siblings is not specified (objects and maps are iterated in map order)
	sw := append([]string(nil), wpaths...)
	se, sx := append([]string(nil), enters...), append([]string(nil), exits...)
	sort.Strings(sw)
	sort.Strings(se)
	sort.Strings(sx)
	if strings.Join(sw, "|") != strings.Join(se, "|") {
		u.Violation("transformer.enter-paths", shape, fmt.Sprintf("Enter visited {%s}, Walk visited {%s} (value %s)", strings.Join(se, " "), strings.Join(sw, " "), desc))
	}
	if strings.Join(se, "|") != strings.Join(sx, "|") {
		u.Violation("transformer.exit-paths", shape, fmt.Sprintf("Exit visited {%s}, Enter visited {%s} (value %s)", strings.Join(sx, " "), strings.Join(se, " "), desc))
	}
	byPath := map[string]cty.Path{}
	for _, vis := range got {
		byPath[pathStr(vis.path)] = vis.path
	}
	pos := func(seq []string) map[string]int {
		m := map[string]int{}
		for i, p := range seq {
			if _, dup := m[p]; !dup {
				m[p] = i
			}
		}
		return m
	}
	pe, px := pos(enters), pos(exits)
	for ps, p := range byPath {
		if len(p) == 0 {
			continue
		}
		parent := pathStr(p[:len(p)-1])
		if a, ok := pe[ps]; ok {
			if b, ok2 := pe[parent]; ok2 && b > a {
				u.Violation("transformer.enter-order", shape, fmt.Sprintf("Enter visited %s before its parent %s (value %s)", ps, parent, desc))
			}
		}
		if a, ok := px[ps]; ok {
			if b, ok2 := px[parent]; ok2 && b < a {
				u.Violation("transformer.exit-order", shape, fmt.Sprintf("Exit visited %s after its parent %s (value %s)", ps, parent, desc))
			}
		}
	}
	// kind-changing replacement in Enter, only where every ancestor is a tuple or an object
	// (a collection's members must keep one type: replacing one of them by another type is the
	// caller's error)
	for _, vis := range got {
		if pathThroughSet(v, vis.path) {
			continue
		}
		structuralAncestors := true
		for k := 0; k < len(vis.path); k++ {
			anc, _, _ := applyPath(vis.path[:k], v)
			au, _ := anc.Unmark()
			if !(au.Type().IsTupleType() || au.Type().IsObjectType()) {
				structuralAncestors = false
			}
		}
		if !structuralAncestors {
			continue
		}
		inner, _ := vis.val.Unmark()
		var repls []cty.Value
		leafRepl := cty.ObjectVal(map[string]cty.Value{"x": cty.StringVal("new"), "y": cty.ListVal([]cty.Value{cty.NumberIntVal(1), cty.NumberIntVal(2)})})
		if ty := inner.Type(); ty.IsPrimitiveType() || ty == cty.DynamicPseudoType || ty.IsCapsuleType() {
			repls = []cty.Value{leafRepl, cty.TupleVal([]cty.Value{cty.True})}
		} else {
			repls = []cty.Value{cty.StringVal("flat"), cty.ListVal([]cty.Value{cty.StringVal("q"), cty.StringVal("r")}), leafRepl}
		}
		target := pathStr(vis.path)
		for _, repl := range repls {
			var entered []string
			tr := &spyTransformer{
				enter: func(p cty.Path, x cty.Value) (cty.Value, error) {
					entered = append(entered, pathStr(p))
					if pathStr(p) == target {
						return repl, nil
					}
					return x, nil
				},
				exit: func(p cty.Path, x cty.Value) (cty.Value, error) { return x, nil },
			}
			u.Eval(1)
			rv, rerr, rpan := doTransformer(v, tr)
			rdesc := fmt.Sprintf("TransformWithTransformer(%s) whose Enter replaces %s by %s", desc, target, goStr(repl))
			if rpan != "" || rerr != nil {
				u.Violation("transformer.replace-fails", shape, fmt.Sprintf("%s failed: %v %s", rdesc, rerr, firstLineOf(rpan)))
				continue
			}
			after, werr, wpan := doWalk(rv)
			if wpan != "" || werr != nil {
				u.Violation("transformer.replace-fails", shape, fmt.Sprintf("Walk of the result of %s failed", rdesc))
				continue
			}
			afterBy := map[string]cty.Value{}
			for _, a := range after {
				afterBy[pathStr(a.path)] = a.val
			}
			if nv, ok := afterBy[target]; !ok || !rawEq(nv, repl) {
				u.Violation("transformer.replace-not-applied", shape, fmt.Sprintf("%s: the member there is %s", rdesc, goStr(nv)))
			}
			// the traversal continued inside the replacement
			var inside []visit
			refWalk(repl, append(cty.Path(nil), vis.path...), &inside)
			enteredSet := map[string]bool{}
			for _, e := range entered {
				enteredSet[e] = true
			}
			for _, in := range inside {
				if !enteredSet[pathStr(in.path)] {
					u.Violation("transformer.replacement-not-traversed", shape, fmt.Sprintf("%s: Enter was never called for member %s of the replacement", rdesc, pathStr(in.path)))
					break
				}
			}
			for _, orig := range got {
				ps := pathStr(orig.path)
				if ps == target || strings.HasPrefix(ps, target) || strings.HasPrefix(target, ps) {
					continue
				}
				if nv, ok := afterBy[ps]; !ok || !rawEq(nv, orig.val) {
					u.Violation("transformer.replace-disturbs-other", shape, fmt.Sprintf("%s: member %s changed from %s to %s", rdesc, ps, goStr(orig.val), goStr(nv)))
				}
			}
		}
	}
}
