package main

import (
	"errors"
	"fmt"
	"strings"

	"github.com/zclconf/go-cty/cty"
	"github.com/zclconf/go-cty/cty/function"
)

func init() {
	register(&Check{
		ID:    "C10",
		Level: "model_checking",
		Rule: "every function specification of the bounded space (family A: one positional or one variadic parameter with each of 3 type constraints x all 16 flag combinations x 6 type-check callbacks (string, dynamic, error, panic, list(dynamic), object with a placeholder attribute) x 4 implementation callbacks (conforming, error, panic, non-conforming) x optional result refinement; " +
			"family B: two positional parameters (+ optional variadic) with all 48x48 constraint/flag combinations) x every argument list of every length 0..n+2 over 10 argument kinds (conforming, non-conforming, null, null of dynamic type, typed unknown, DynamicVal, root-marked, deeply marked, marked unknown, nested unknown); " +
			"the implementation's event trace (callback invocations with their arguments, final outcome) must be accepted by the reference automaton of DESIGN appendix C; states = distinct (automaton state, guard valuation) pairs reached; transitions = calls",
		Assumptions: []string{
			"RefineResult callbacks are consistent with the implementation's results (caller obligation)",
			"when an argument offends its contract either outcome the statement allows (argument error naming an offender, or short-circuit to unknown) is accepted",
		},
		Run: runC10,
	})
}

type pSpec struct {
	ty    int // 0 string, 1 dynamic, 2 list(dynamic)
	flags int // bit0 null, bit1 unknown, bit2 dynamic, bit3 marked
}

func (p pSpec) Type() cty.Type {
	switch p.ty {
	case 0:
		return cty.String
	case 1:
		return cty.DynamicPseudoType
	}
	return cty.List(cty.DynamicPseudoType)
}
func (p pSpec) allowNull() bool    { return p.flags&1 != 0 }
func (p pSpec) allowUnknown() bool { return p.flags&2 != 0 }
func (p pSpec) allowDynamic() bool { return p.flags&4 != 0 }
func (p pSpec) allowMarked() bool  { return p.flags&8 != 0 }
func (p pSpec) param() function.Parameter {
	return function.Parameter{Name: "p", Type: p.Type(), AllowNull: p.allowNull(), AllowUnknown: p.allowUnknown(), AllowDynamicType: p.allowDynamic(), AllowMarked: p.allowMarked()}
}
func (p pSpec) String() string {
	return fmt.Sprintf("%s/%s", []string{"string", "dynamic", "list(dynamic)"}[p.ty], flagStr(p.flags))
}

func flagStr(f int) string {
	s := ""
	for i, n := range []string{"N", "U", "D", "M"} {
		if f&(1<<i) != 0 {
			s += n
		} else {
			s += "-"
		}
	}
	return s
}

const (
	cbOK = iota
	cbDyn
	cbErr
	cbPanic
	cbListDyn // list(dynamic): a compound return type with a placeholder inside
	cbObjDyn  // object({a=string,b=dynamic})
	cbKinds
)

// c10RetType is the type the type-check callback of kind tcb returns.
func c10RetType(tcb int) cty.Type {
	switch tcb {
	case cbDyn:
		return cty.DynamicPseudoType
	case cbListDyn:
		return cty.List(cty.DynamicPseudoType)
	case cbObjDyn:
		return cty.Object(map[string]cty.Type{"a": cty.String, "b": cty.DynamicPseudoType})
	}
	return cty.String
}

// c10ImplValue is what the implementation callback returns: a value conforming to the
// checked return type, or (bad) one that does not conform to it unless that type is
// the bare placeholder.
func c10ImplValue(tcb int, bad bool) cty.Value {
	switch tcb {
	case cbListDyn:
		if bad {
			return cty.SetVal([]cty.Value{cty.StringVal("r")})
		}
		return cty.ListVal([]cty.Value{cty.StringVal("r")})
	case cbObjDyn:
		if bad {
			return cty.ObjectVal(map[string]cty.Value{"a": cty.NumberIntVal(42), "b": cty.True})
		}
		return cty.ObjectVal(map[string]cty.Value{"a": cty.StringVal("r"), "b": cty.True})
	}
	if bad {
		return cty.NumberIntVal(42)
	}
	return cty.StringVal("r")
}

func tcbFails(tcb int) bool { return tcb == cbErr || tcb == cbPanic }

const (
	implOK = iota
	implErr
	implPanic
	implBad
	// implUnk: the implementation returns a typed unknown of the conforming result's type (a
	// function that cannot compute its result yet although its arguments are known)
	implUnk
)

type fSpec struct {
	params []pSpec
	varp   *pSpec
	tcb    int
	icb    int
	refine bool
	// derived: the function under test is obtained from the specified one through
	// WithNewDescriptions ("same signature and implementation"), so every clause still applies
	derived bool
	// nested: the implementation callback calls another function (with a marked argument for
	// a parameter that does not accept marks, and with an unknown one) and then reads its own
	// arguments again
	nested bool
}

func (f fSpec) String() string {
	var ps []string
	for _, p := range f.params {
		ps = append(ps, p.String())
	}
	v := "-"
	if f.varp != nil {
		v = f.varp.String()
	}
	d := ""
	if f.derived {
		d = " via WithNewDescriptions"
	}
	if f.nested {
		d += " impl makes nested calls"
	}
	return fmt.Sprintf("params[%s] var[%s] type=%d impl=%d refine=%v%s", strings.Join(ps, ","), v, f.tcb, f.icb, f.refine, d)
}

// argument kinds
var argKindNames = []string{"conforming", "nonconforming", "null", "null-dynamic", "unknown", "DynamicVal", "marked", "deep-marked", "marked-unknown", "nested-unknown"}

func mkArg(kind int, p pSpec) cty.Value {
	var conf cty.Value
	switch p.ty {
	case 0:
		conf = cty.StringVal("v")
	case 1:
		conf = cty.TupleVal([]cty.Value{cty.StringVal("v"), cty.Zero})
	default:
		conf = cty.ListVal([]cty.Value{cty.StringVal("v"), cty.StringVal("w")})
	}
	switch kind {
	case 0:
		return conf
	case 1:
		if p.ty == 1 {
			return cty.True // nothing fails to conform to dynamic; a plain conforming value
		}
		return cty.NumberIntVal(7)
	case 2:
		return cty.NullVal(conf.Type())
	case 3:
		return cty.NullVal(cty.DynamicPseudoType)
	case 4:
		return cty.UnknownVal(conf.Type())
	case 5:
		return cty.DynamicVal
	case 6:
		return conf.Mark(markM1)
	case 7:
		if p.ty == 0 {
			return conf.Mark(markM2).Mark(markM1)
		}
		cs := children(conf)
		cs[0] = cs[0].Mark(markM2)
		if p.ty == 1 {
			return cty.TupleVal(cs)
		}
		return cty.ListVal(cs).Mark(markM3)
	case 8:
		return cty.UnknownVal(conf.Type()).Mark(markM1)
	default:
		if p.ty == 0 {
			return cty.UnknownVal(cty.String).RefineNotNull()
		}
		cs := children(conf)
		cs[0] = cty.UnknownVal(cty.String)
		if p.ty == 1 {
			return cty.TupleVal(cs)
		}
		return cty.ListVal(cs)
	}
}

type spyEvent struct {
	kind string // "type" | "impl"
	args []cty.Value
}

var errTypeCB = errors.New("type callback says no")
var errImplCB = errors.New("impl callback says no")

func buildFunc(fs fSpec, log *[]spyEvent) function.Function {
	spec := &function.Spec{}
	for _, p := range fs.params {
		spec.Params = append(spec.Params, p.param())
	}
	if fs.varp != nil {
		vp := fs.varp.param()
		spec.VarParam = &vp
	}
	spec.Type = func(args []cty.Value) (cty.Type, error) {
		*log = append(*log, spyEvent{"type", append([]cty.Value(nil), args...)})
		switch fs.tcb {
		case cbErr:
			return cty.NilType, errTypeCB
		case cbPanic:
			panic("type callback panics")
		}
		return c10RetType(fs.tcb), nil
	}
	spec.Impl = func(args []cty.Value, retType cty.Type) (cty.Value, error) {
		*log = append(*log, spyEvent{"impl", append([]cty.Value(nil), args...)})
		if fs.nested {
			c10NestedCall()
			*log = append(*log, spyEvent{"impl-after-nested-call", append([]cty.Value(nil), args...)})
		}
		switch fs.icb {
		case implOK:
			return c10ImplValue(fs.tcb, false), nil
		case implErr:
			return cty.NilVal, errImplCB
		case implPanic:
			panic("impl callback panics")
		case implUnk:
			return cty.UnknownVal(c10ImplValue(fs.tcb, false).Type()), nil
		}
		return c10ImplValue(fs.tcb, true), nil
	}
	if fs.refine {
		spec.RefineResult = func(b *cty.RefinementBuilder) *cty.RefinementBuilder { return b.NotNull() }
	}
	f := function.New(spec)
	if fs.derived {
		descs := make([]string, len(fs.params))
		for i := range descs {
			descs[i] = fmt.Sprintf("parameter %d", i)
		}
		if fs.varp != nil && len(fs.params)%2 == 0 {
			descs = append(descs, "the rest") // with and without a description for the variadic parameter
		}
		f = f.WithNewDescriptions("derived", descs)
	}
	return f
}

var c10Inner = function.New(&function.Spec{
	Params: []function.Parameter{{Name: "s", Type: cty.String}, {Name: "t", Type: cty.DynamicPseudoType, AllowNull: true}},
	Type:   function.StaticReturnType(cty.String),
	Impl: func(args []cty.Value, _ cty.Type) (cty.Value, error) {
		return cty.StringVal(args[0].AsString() + "!"), nil
	},
})

// c10NestedCall is what a nesting implementation does: three calls of another function, one
// that runs, one that short-circuits on an unknown argument, one that is rejected.
func c10NestedCall() {
	defer func() { recover() }()
	c10Inner.Call([]cty.Value{cty.StringVal("inner").Mark("M4"), cty.NumberIntVal(9).Mark("M5")})
	c10Inner.Call([]cty.Value{cty.UnknownVal(cty.String).Mark("M4"), cty.True.Mark("M5")})
	c10Inner.Call([]cty.Value{cty.NullVal(cty.String).Mark("M4"), cty.True})
}

func goStrNil(v cty.Value) string {
	if v == cty.NilVal {
		return "cty.NilVal"
	}
	return goStr(v)
}

func paramFor(fs fSpec, i int) (pSpec, bool) {
	if i < len(fs.params) {
		return fs.params[i], true
	}
	if fs.varp != nil {
		return *fs.varp, true
	}
	return pSpec{}, false
}

func unionMarks(dst map[interface{}]bool, v cty.Value) {
	for m := range marksDeep(v) {
		dst[m] = true
	}
}

// c10Check runs one call and validates its trace against the automaton.
func c10Check(u *U, fs fSpec, args []cty.Value, kinds []int) {
	var log []spyEvent
	f := buildFunc(fs, &log)
	c10CheckCall(u, fs, f, &log, args, kinds, "")
}

// c10CheckCall validates one call of an existing function value (its spy log is reset first);
// hist describes the calls made earlier on that function value, if any.
func c10CheckCall(u *U, fs fSpec, f function.Function, logp *[]spyEvent, args []cty.Value, kinds []int, hist string) {
	*logp = (*logp)[:0]
	before := append([]cty.Value(nil), args...)
	defer func() { *logp = (*logp)[:0] }()
	u.Eval(1)
	u.Transition(1)
	var res cty.Value
	var err error
	pan := func() (p string) {
		defer func() {
			if r := recover(); r != nil {
				p = fmt.Sprint(r)
			}
		}()
		res, err = f.Call(args)
		return ""
	}()
	log := *logp
	var kn []string
	for _, k := range kinds {
		kn = append(kn, argKindNames[k])
	}
	shape := fmt.Sprintf("positional=%d variadic=%v type=%d impl=%d <- %s", len(fs.params), fs.varp != nil, fs.tcb, fs.icb, strings.Join(kn, ","))
	desc := func() string {
		return fmt.Sprintf("spec {%s} called with (%s)%s", fs.String(), argsStr(before), hist)
	}
	viol := func(site, detail string) {
		u.Violation("call."+site, shape, desc()+": "+detail)
	}
	for i := range args {
		if !rawEq(args[i], before[i]) {
			viol("caller-slice-changed", fmt.Sprintf("the call changed element %d of the caller's argument slice from %s to %s", i, goStr(before[i]), goStr(args[i])))
		}
	}
	args = before
	if pan != "" {
		viol("go-panic", "Call panicked: "+pan)
		return
	}
	var typeEv, implEv []spyEvent
	implAt, typeAt := -1, -1
	for i, e := range log {
		if e.kind == "impl-after-nested-call" {
			// the implementation made a call of its own and looked at its arguments again
			if len(implEv) == 0 || len(e.args) != len(implEv[len(implEv)-1].args) {
				viol("impl-args-changed", "the implementation's argument slice changed length while it made a nested call")
				continue
			}
			for j := range e.args {
				if !rawEq(e.args[j], implEv[len(implEv)-1].args[j]) {
					viol("impl-args-changed", fmt.Sprintf("the implementation received %s for argument %d; after it had called another function that argument read %s", goStr(implEv[len(implEv)-1].args[j]), j, goStrNil(e.args[j])))
				}
			}
			continue
		}
		if e.kind == "type" {
			typeEv = append(typeEv, e)
			if typeAt < 0 {
				typeAt = i
			}
		} else {
			implEv = append(implEv, e)
			if implAt < 0 {
				implAt = i
			}
		}
	}
	state := func(s string) { u.State(s); u.Class(strings.SplitN(s, "|", 2)[0]) }
	// S0 arity
	n := len(fs.params)
	arityOK := len(args) == n || (fs.varp != nil && len(args) >= n)
	if !arityOK {
		state("S0-arity-reject|" + fmt.Sprint(len(args) < n))
		if err == nil {
			viol("arity-accepted", fmt.Sprintf("wrong number of arguments accepted, result %s", goStr(res)))
		}
		if len(log) > 0 {
			viol("arity-callback-ran", "a callback ran although the argument count is wrong")
		}
		var pe function.PanicError
		if errors.As(err, &pe) {
			viol("arity-panic-error", "argument count mismatch reported as an internal panic")
		}
		return
	}
	// S1 admission
	offenders := map[int]bool{}
	dynskip := map[int]bool{}
	expectMarks := map[interface{}]bool{}
	allMarks := map[interface{}]bool{}
	anyUnknownBlocked := false
	argsPrime := make([]cty.Value, len(args))
	for i, a := range args {
		p, _ := paramFor(fs, i)
		au, _ := a.UnmarkDeep()
		unionMarks(allMarks, a)
		if !p.allowMarked() {
			unionMarks(expectMarks, a)
			argsPrime[i] = au
		} else {
			argsPrime[i] = a
		}
		r, _ := a.Unmark()
		isDynTyped := r.Type() == cty.DynamicPseudoType
		switch {
		case r.IsKnown() && r.IsNull() && !p.allowNull():
			offenders[i] = true
		case isDynTyped:
			if !p.allowDynamic() {
				dynskip[i] = true
			}
		case !refConforms(tsOf(au.Type()), tsOf(p.Type())):
			offenders[i] = true
		}
		if !r.IsKnown() && !p.allowUnknown() {
			anyUnknownBlocked = true
		}
	}
	checkShortCircuit := func(wantDynType bool) {
		if err != nil {
			viol("short-circuit-error", fmt.Sprintf("expected an unknown result, got error %v", err))
			return
		}
		ru, _ := res.Unmark()
		if ru.IsKnown() {
			viol("short-circuit-known", fmt.Sprintf("expected an unknown result, got %s", goStr(res)))
		}
		if wantDynType && ru.Type() != cty.DynamicPseudoType && len(typeEv) == 0 {
			viol("short-circuit-type", fmt.Sprintf("type-check callback did not run, yet the result has type %#v", ru.Type()))
		}
		got := marksDeep(res)
		for m := range expectMarks {
			if !got[m] {
				viol("short-circuit-mark-lost", fmt.Sprintf("unknown result %s lacks mark %v of an argument the function does not handle itself", goStr(res), m))
			}
		}
		for m := range got {
			if !allMarks[m] {
				viol("mark-invented", fmt.Sprintf("result carries mark %v that no argument carried", m))
			}
		}
		if len(implEv) > 0 {
			viol("impl-ran-on-short-circuit", "implementation callback ran although the call short-circuits")
		}
	}
	if len(offenders) > 0 {
		state(fmt.Sprintf("S1-offender|dyn=%v", len(dynskip) > 0))
		if len(implEv) > 0 {
			viol("impl-ran-with-offender", fmt.Sprintf("implementation callback ran although argument(s) %v violate the contract", keysOf(offenders)))
		}
		var ae function.ArgError
		switch {
		case err != nil && errors.As(err, &ae):
			if !offenders[ae.Index] {
				viol("argerror-index", fmt.Sprintf("argument error names index %d, offending argument(s) are %v: %v", ae.Index, keysOf(offenders), err))
			}
		case err != nil:
			var pe function.PanicError
			if errors.As(err, &pe) {
				viol("offender-panic-error", fmt.Sprintf("offending argument reported as an internal panic: %v", pe.Value))
			}
			// a plain error is acceptable only from the type-check callback
			if !(len(typeEv) > 0 && errors.Is(err, errTypeCB)) {
				viol("offender-plain-error", fmt.Sprintf("offending argument(s) %v reported with a non-argument error: %v", keysOf(offenders), err))
			}
		default:
			if len(dynskip) == 0 {
				viol("offender-accepted", fmt.Sprintf("argument(s) %v violate the contract but the call returned %s", keysOf(offenders), goStr(res)))
			} else {
				checkShortCircuit(true)
			}
		}
		return
	}
	// type callback arguments, whenever it ran
	for _, e := range typeEv {
		if len(e.args) != len(argsPrime) {
			viol("type-args", "type-check callback received a different number of arguments")
			continue
		}
		for i := range e.args {
			if !rawEq(e.args[i], argsPrime[i]) {
				viol("type-args", fmt.Sprintf("type-check callback received %s for argument %d, expected %s", goStr(e.args[i]), i, goStr(argsPrime[i])))
			}
		}
	}
	if len(dynskip) > 0 {
		state("S3-dynamic-short-circuit|" + fmt.Sprint(len(typeEv) > 0))
		if len(typeEv) > 0 && tcbFails(fs.tcb) {
			// the type callback ran and failed: its failure is an acceptable outcome
			if err == nil {
				viol("type-failure-ignored", "type-check callback failed but the call succeeded")
			}
			return
		}
		checkShortCircuit(true)
		return
	}
	// S2 type
	if len(typeEv) == 0 {
		viol("type-not-run", "no argument offends, but the type-check callback never ran")
		return
	}
	switch fs.tcb {
	case cbErr:
		state("S2-type-error|")
		if err == nil || !errors.Is(err, errTypeCB) {
			viol("type-error-lost", fmt.Sprintf("type-check callback returned an error but the call returned (%s, %v)", goStr(res), err))
		}
		if len(implEv) > 0 {
			viol("impl-ran-after-type-error", "implementation callback ran although the type-check callback rejected the arguments")
		}
		return
	case cbPanic:
		state("S2-type-panic|")
		var pe function.PanicError
		if err == nil || !errors.As(err, &pe) {
			viol("type-panic-lost", fmt.Sprintf("type-check callback panicked but the call returned (%s, %v)", goStr(res), err))
		}
		if len(implEv) > 0 {
			viol("impl-ran-after-type-panic", "implementation callback ran although the type-check callback panicked")
		}
		return
	}
	retDyn := fs.tcb == cbDyn
	checkRefine := func() {
		if !fs.refine || err != nil {
			return
		}
		ru, _ := res.Unmark()
		if ru.Type() == cty.DynamicPseudoType && !ru.IsKnown() {
			return
		}
		if ru.IsKnown() {
			if ru.IsNull() {
				viol("refinement-not-applied", fmt.Sprintf("result %s violates the declared NotNull refinement", goStr(res)))
			}
			return
		}
		if !ru.Range().DefinitelyNotNull() {
			viol("refinement-not-applied", fmt.Sprintf("typed unknown result %s lacks the declared NotNull refinement", goStr(res)))
		}
	}
	checkRetType := func() {
		if err != nil {
			return
		}
		ru, _ := res.Unmark()
		if want := c10RetType(fs.tcb); !retDyn && !refConforms(tsOf(ru.Type()), tsOf(want)) {
			viol("result-type", fmt.Sprintf("result %s does not conform to the checked return type %#v", goStr(res), want))
		} else if !retDyn && !ru.IsKnown() && !ru.Type().Equals(want) {
			viol("result-type", fmt.Sprintf("unknown result %s does not have the checked return type %#v", goStr(res), want))
		}
	}
	if anyUnknownBlocked {
		state(fmt.Sprintf("S3-unknown-short-circuit|dyn=%v refine=%v", retDyn, fs.refine))
		checkShortCircuit(false)
		checkRetType()
		checkRefine()
		return
	}
	// S4 impl
	if len(implEv) != 1 {
		viol("impl-count", fmt.Sprintf("implementation callback ran %d times, expected once", len(implEv)))
		return
	}
	if implAt < typeAt {
		viol("impl-before-type", "implementation callback ran before the type-check callback")
	}
	ia := implEv[0].args
	if len(ia) != len(argsPrime) {
		viol("impl-args", "implementation callback received a different number of arguments")
		return
	}
	for i := range ia {
		p, _ := paramFor(fs, i)
		if !rawEq(ia[i], argsPrime[i]) {
			viol("impl-args", fmt.Sprintf("implementation callback received %s for argument %d, the type-check callback accepted %s", goStr(ia[i]), i, goStr(argsPrime[i])))
		}
		if ia[i].ContainsMarked() && !p.allowMarked() {
			viol("impl-marked", fmt.Sprintf("implementation callback received marked %s for a parameter that does not allow marks", goStr(ia[i])))
		}
		r, _ := ia[i].Unmark()
		if !r.IsKnown() && !p.allowUnknown() {
			viol("impl-unknown", fmt.Sprintf("implementation callback received unknown %s for a parameter that does not allow unknowns", goStr(ia[i])))
		}
		if r.IsKnown() && r.IsNull() && !p.allowNull() {
			viol("impl-null", fmt.Sprintf("implementation callback received null for argument %d", i))
		}
		if r.Type() == cty.DynamicPseudoType && !p.allowDynamic() {
			viol("impl-dynamic", fmt.Sprintf("implementation callback received dynamically-typed %s for argument %d", goStr(ia[i]), i))
		}
	}
	switch fs.icb {
	case implErr:
		state("S4-impl-error|")
		if err == nil || !errors.Is(err, errImplCB) {
			viol("impl-error-lost", fmt.Sprintf("implementation returned an error but the call returned (%s, %v)", goStr(res), err))
		}
	case implPanic:
		state("S4-impl-panic|")
		var pe function.PanicError
		if err == nil || !errors.As(err, &pe) {
			viol("impl-panic-lost", fmt.Sprintf("implementation panicked but the call returned (%s, %v)", goStr(res), err))
		}
	case implBad:
		if retDyn {
			state("S5-result|dynamic-return-any-value")
			if err != nil {
				viol("result-rejected", fmt.Sprintf("a value of any type conforms to a dynamic return type, yet the call failed: %v", err))
			}
		} else {
			state("S4-impl-nonconforming|")
			if err == nil {
				viol("nonconforming-returned", fmt.Sprintf("implementation returned %s for return type %#v and the call returned it: %s", goStr(c10ImplValue(fs.tcb, true)), c10RetType(fs.tcb), goStr(res)))
			}
		}
	case implUnk:
		state(fmt.Sprintf("S5-result-unknown|dyn=%v refine=%v marks=%v", retDyn, fs.refine, len(expectMarks) > 0) + fmt.Sprint(fs.tcb))
		if err != nil {
			viol("result-error", fmt.Sprintf("the implementation returned a conforming unknown value but the call returned error %v", err))
			return
		}
		ru, _ := res.UnmarkDeep()
		if ru.IsKnown() || !ru.Type().Equals(c10ImplValue(fs.tcb, false).Type()) {
			viol("result-value", fmt.Sprintf("implementation returned an unknown %#v, the call returned %s", c10ImplValue(fs.tcb, false).Type(), goStr(res)))
		}
		got := marksDeep(res)
		for m := range expectMarks {
			if !got[m] {
				viol("result-mark-lost", fmt.Sprintf("result %s lacks mark %v of an argument the function does not handle itself", goStr(res), m))
			}
		}
		for m := range got {
			if !allMarks[m] {
				viol("mark-invented", fmt.Sprintf("result carries mark %v that no argument carried", m))
			}
		}
		// (the result's type is the implementation's, which fills the placeholders of the checked
		// return type; it was compared above)
		checkRefine()
	default:
		state(fmt.Sprintf("S5-result|dyn=%v refine=%v marks=%v", retDyn, fs.refine, len(expectMarks) > 0) + fmt.Sprint(fs.tcb))
		if err != nil {
			viol("result-error", fmt.Sprintf("everything succeeded but the call returned error %v", err))
			return
		}
		ru, _ := res.UnmarkDeep()
		if !rawEq(ru, c10ImplValue(fs.tcb, false)) {
			viol("result-value", fmt.Sprintf("implementation returned %s, the call returned %s", goStr(c10ImplValue(fs.tcb, false)), goStr(res)))
		}
		got := marksDeep(res)
		for m := range expectMarks {
			if !got[m] {
				viol("result-mark-lost", fmt.Sprintf("result %s lacks mark %v of an argument the function does not handle itself", goStr(res), m))
			}
		}
		for m := range got {
			if !allMarks[m] {
				viol("mark-invented", fmt.Sprintf("result carries mark %v that no argument carried", m))
			}
		}
		checkRetType()
		checkRefine()
	}
}

func keysOf(m map[int]bool) []int {
	var ks []int
	for i := 0; i < 16; i++ {
		if m[i] {
			ks = append(ks, i)
		}
	}
	return ks
}

func allPSpecs() []pSpec {
	var out []pSpec
	for ty := 0; ty < 3; ty++ {
		for fl := 0; fl < 16; fl++ {
			out = append(out, pSpec{ty, fl})
		}
	}
	return out
}

func argLists(fs fSpec, maxLen int, kindsN int, emit func(args []cty.Value, kinds []int)) {
	var rec func(i int, args []cty.Value, kinds []int)
	rec = func(i int, args []cty.Value, kinds []int) {
		emit(append([]cty.Value(nil), args...), append([]int(nil), kinds...))
		if i == maxLen {
			return
		}
		p, ok := paramFor(fs, i)
		if !ok {
			p = pSpec{0, 0} // beyond the declared parameters: only the count matters
		}
		for k := 0; k < kindsN; k++ {
			if !ok && k > 0 {
				break
			}
			rec(i+1, append(args, mkArg(k, p)), append(kinds, k))
		}
	}
	rec(0, nil, nil)
}

// argListsK is argLists over an explicit list of argument kinds.
func argListsK(fs fSpec, maxLen int, ks []int, emit func(args []cty.Value, kinds []int)) {
	var rec func(i int, args []cty.Value, kinds []int)
	rec = func(i int, args []cty.Value, kinds []int) {
		emit(append([]cty.Value(nil), args...), append([]int(nil), kinds...))
		if i == maxLen {
			return
		}
		p, ok := paramFor(fs, i)
		if !ok {
			return
		}
		for _, k := range ks {
			rec(i+1, append(args, mkArg(k, p)), append(kinds, k))
		}
	}
	rec(0, nil, nil)
}

// c10Histories: one function value, one caller-owned argument slice that is refilled between
// calls, every ordered pair of argument lists (all 10 argument kinds per position); each call is
// validated against the automaton exactly like a first call.  The implementation callback makes
// calls of its own.
func c10Histories(c *Ctx) {
	red := []pSpec{{0, 0}, {0, 15}, {0, 8}, {0, 2}, {1, 0}, {1, 4}, {1, 15}, {2, 0}, {2, 8}}
	nk := len(argKindNames)
	type spec2 struct {
		fs fSpec
		n  int
	}
	var specs []spec2
	for _, p1 := range red {
		specs = append(specs, spec2{fSpec{params: []pSpec{p1}, tcb: cbOK, icb: implOK, refine: true, nested: true}, 1})
		p1 := p1
		specs = append(specs, spec2{fSpec{varp: &p1, tcb: cbDyn, icb: implOK, nested: true}, 2})
		for _, p2 := range red {
			specs = append(specs, spec2{fSpec{params: []pSpec{p1, p2}, tcb: cbOK, icb: implOK, refine: true, nested: true}, 2})
		}
	}
	for _, sp := range specs {
		sp := sp
		c.Unit(func(u *U) {
			var lists [][]cty.Value
			var kindsOf [][]int
			argLists(sp.fs, sp.n, nk, func(args []cty.Value, kinds []int) {
				if len(args) == sp.n {
					lists = append(lists, args)
					kindsOf = append(kindsOf, kinds)
				}
			})
			var log []spyEvent
			f := buildFunc(sp.fs, &log)
			shared := make([]cty.Value, sp.n)
			for i := range lists {
				for j := range lists {
					copy(shared, lists[i])
					c10CheckCall(u, sp.fs, f, &log, shared, kindsOf[i], "")
					copy(shared, lists[j])
					u.DistinctN(1)
					c10CheckCall(u, sp.fs, f, &log, shared, kindsOf[j], " [second call on this function value through the same argument slice; the first was ("+argsStr(lists[i])+")]")
				}
			}
			u.Class("call-history-unit")
		})
	}
}

// c10Unpredictable: function.Unpredictable(f) is f with its implementation replaced by one that
// returns an unknown value: "the same signature", so every clause about argument checking, the
// checked return type, marks and declared result refinements still applies to the wrapper.  Each
// call is compared with the same call of f itself.
func c10Unpredictable(c *Ctx) {
	nk := len(argKindNames)
	for _, p := range allPSpecs() {
		p := p
		c.Unit(func(u *U) {
			for tcb := 0; tcb < cbKinds; tcb++ {
				if tcb == cbPanic {
					continue
				}
				for _, rf := range []bool{false, true} {
					for _, fs := range []fSpec{{params: []pSpec{p}, tcb: tcb, icb: implOK, refine: rf}, {varp: &p, tcb: tcb, icb: implOK, refine: rf}, {params: []pSpec{{0, 0}}, varp: &p, tcb: tcb, icb: implOK, refine: rf}} {
						fs := fs
						argLists(fs, 2, nk, func(args []cty.Value, kinds []int) {
							u.Eval(1)
							u.DistinctN(1)
							var logF, logG []spyEvent
							f := buildFunc(fs, &logF)
							g := function.Unpredictable(buildFunc(fs, &logG))
							call := func(fn function.Function) (v cty.Value, err error, pan string) {
								defer func() {
									if r := recover(); r != nil {
										pan = fmt.Sprint(r)
									}
								}()
								v, err = fn.Call(append([]cty.Value(nil), args...))
								return
							}
							rf, ef, pf := call(f)
							rg, eg, pg := call(g)
							shape := "Unpredictable | " + fs.String()
							desc := fmt.Sprintf("Unpredictable(f).Call(%s) with f = %s", argsStr(args), fs.String())
							if pg != "" {
								u.Violation("call.unpredictable-panics", shape, desc+" panicked: "+firstLineOf(pg))
								return
							}
							if pf != "" {
								return
							}
							for _, e := range logG {
								if e.kind == "impl" {
									u.Violation("call.unpredictable-ran-impl", shape, desc+" ran the implementation callback of f")
									return
								}
							}
							if ef != nil {
								if eg == nil {
									u.Violation("call.unpredictable-accepts", shape, fmt.Sprintf("%s = %s although f itself rejects the call: %v", desc, goStr(rg), ef))
								}
								u.Class("unpredictable-rejected")
								return
							}
							if eg != nil {
								u.Violation("call.unpredictable-rejects", shape, fmt.Sprintf("%s failed (%v) although f itself returns %s", desc, eg, goStr(rf)))
								return
							}
							u.Class("unpredictable-compared")
							fu, _ := rf.Unmark()
							gu, _ := rg.Unmark()
							fm, gm := rootMarks(rf), rootMarks(rg)
							if gu.IsKnown() {
								u.Violation("call.unpredictable-known", shape, fmt.Sprintf("%s = %s, a known value", desc, goStr(rg)))
								return
							}
							// (the wrapper returns an unknown of the checked return type, which may hold
							// placeholders that f's own result fills)
							if !refConforms(tsOf(fu.Type()), tsOf(gu.Type())) {
								u.Violation("call.unpredictable-type", shape, fmt.Sprintf("%s = %s, f itself returns %s", desc, goStr(rg), goStr(rf)))
							}
							if marksStr(gm) != marksStr(fm) {
								u.Violation("call.unpredictable-marks", shape, fmt.Sprintf("%s = %s carries marks %s, f itself returns marks %s", desc, goStr(rg), marksStr(gm), marksStr(fm)))
							}
							if fs.refine && gu.Type() != cty.DynamicPseudoType && !gu.Range().DefinitelyNotNull() {
								u.Violation("refinement-not-applied", shape, fmt.Sprintf("%s = %s lacks the declared NotNull refinement", desc, goStr(rg)))
							}
						})
					}
				}
			}
		})
	}
}

func runC10(c *Ctx) {
	c10Histories(c)
	c10Unpredictable(c)
	ps := allPSpecs()
	nk := len(argKindNames)
	// family A: one positional parameter, all callbacks
	for _, p := range ps {
		p := p
		c.Unit(func(u *U) {
			for tcb := 0; tcb < cbKinds; tcb++ {
				for icb := 0; icb < 5; icb++ {
					for _, rf := range []bool{false, true} {
						fs := fSpec{params: []pSpec{p}, tcb: tcb, icb: icb, refine: rf}
						argLists(fs, 3, nk, func(args []cty.Value, kinds []int) { u.DistinctN(1); c10Check(u, fs, args, kinds) })
						fv := fSpec{varp: &p, tcb: tcb, icb: icb, refine: rf}
						argLists(fv, 2, nk, func(args []cty.Value, kinds []int) { u.DistinctN(1); c10Check(u, fv, args, kinds) })
						if rf && (icb == implOK || icb == implBad) {
							// the same specification reached through WithNewDescriptions
							fd, fvd := fs, fv
							fd.derived, fvd.derived = true, true
							argLists(fd, 2, nk, func(args []cty.Value, kinds []int) { u.DistinctN(1); c10Check(u, fd, args, kinds) })
							argLists(fvd, 2, nk, func(args []cty.Value, kinds []int) { u.DistinctN(1); c10Check(u, fvd, args, kinds) })
						}
					}
				}
			}
			if u.WantSample() {
				u.Sample(map[string]string{"family": "A", "parameter": p.String(), "callbacks": "6x4x2", "arg_kinds": strings.Join(argKindNames, ",")})
			}
		})
	}
	// family A': variadic with three arguments, success callbacks + refine
	for _, p := range ps {
		p := p
		c.Unit(func(u *U) {
			for _, icb := range []int{implOK, implBad} {
				fv := fSpec{varp: &p, tcb: cbOK, icb: icb, refine: true}
				argLists(fv, 3, nk, func(args []cty.Value, kinds []int) {
					if len(args) == 3 {
						u.DistinctN(1)
						c10Check(u, fv, args, kinds)
					}
				})
			}
		})
	}
	// family B: two positional parameters (+ variadic)
	varps := []*pSpec{nil, {0, 0}, {0, 15}, {1, 1}, {2, 8}, {0, 2}, {1, 4}}
	kindsB := 6
	if c.Thorough {
		kindsB = nk
	}
	for _, p1 := range ps {
		for _, p2 := range ps {
			p1, p2 := p1, p2
			c.Unit(func(u *U) {
				for _, vp := range varps {
					for _, cb := range [][2]int{{cbOK, implOK}, {cbDyn, implBad}, {cbObjDyn, implBad}} {
						fs := fSpec{params: []pSpec{p1, p2}, varp: vp, tcb: cb[0], icb: cb[1], refine: true}
						maxLen := 3
						argLists(fs, maxLen, kindsB, func(args []cty.Value, kinds []int) {
							if len(args) < 1 {
								return
							}
							u.DistinctN(1)
							c10Check(u, fs, args, kinds)
						})
					}
				}
				if u.WantSample() {
					u.Sample(map[string]string{"family": "B", "parameters": p1.String() + " , " + p2.String()})
				}
			})
		}
	}
	// family B': marks in positional and variadic arguments of one call (argument kinds conforming /
	// marked / deep-marked / marked-unknown only, up to two variadic arguments), over a reduced constraint set
	{
		red := []pSpec{{0, 0}, {0, 15}, {0, 8}, {0, 2}, {1, 0}, {1, 4}, {1, 15}, {2, 0}, {2, 8}}
		mk := []int{0, 6, 7, 8}
		for _, p1 := range red {
			for _, p2 := range red {
				p1, p2 := p1, p2
				c.Unit(func(u *U) {
					for _, vp := range varps[1:] {
						for _, cb := range [][2]int{{cbOK, implOK}, {cbDyn, implBad}} {
							for np := 1; np <= 2; np++ {
								fs := fSpec{params: []pSpec{p1, p2}[:np], varp: vp, tcb: cb[0], icb: cb[1], refine: true}
								argListsK(fs, np+2, mk, func(args []cty.Value, kinds []int) {
									if len(args) <= np {
										return
									}
									u.DistinctN(1)
									c10Check(u, fs, args, kinds)
								})
							}
						}
					}
				})
			}
		}
	}
	if c.Thorough {
		// family C: three positional parameters over a reduced constraint set
		red := []pSpec{{0, 0}, {0, 15}, {1, 0}, {1, 5}, {2, 8}, {2, 3}, {0, 1}, {1, 10}}
		for _, p1 := range red {
			for _, p2 := range red {
				for _, p3 := range red {
					p1, p2, p3 := p1, p2, p3
					c.Unit(func(u *U) {
						fs := fSpec{params: []pSpec{p1, p2, p3}, tcb: cbOK, icb: implOK, refine: true}
						argLists(fs, 4, 7, func(args []cty.Value, kinds []int) {
							if len(args) >= 2 {
								u.DistinctN(1)
								c10Check(u, fs, args, kinds)
							}
						})
					})
				}
			}
		}
	}
}
