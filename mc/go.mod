module verif/mc

go 1.18

require (
	github.com/zclconf/go-cty v0.0.0
	golang.org/x/text v0.11.0
)

require github.com/apparentlymart/go-textseg/v15 v15.0.0

replace github.com/zclconf/go-cty => /repo
