module verif/mc

go 1.18

require (
	github.com/zclconf/go-cty v0.0.0
	golang.org/x/text v0.11.0
)

require github.com/apparentlymart/go-textseg/v15 v15.0.0

require (
	github.com/vmihailenco/msgpack/v5 v5.3.5 // indirect
	github.com/vmihailenco/tagparser/v2 v2.0.0 // indirect
)

replace github.com/zclconf/go-cty => /repo
