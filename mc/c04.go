package main

import (
	"fmt"
	"reflect"
	"sort"
	"strings"

	"github.com/zclconf/go-cty/cty"
)

func init() {
	register(&Check{
		ID:        "C04",
		DeepQuick: true,
		Level:     "exploration",
		Rule: "every (operation method, operand tuple) of the C01 universe, with operands known / null / unknown / DynamicVal, x every placement of marks (root subsets of {M1,M2} on each operand, plus one nested member marked M3), " +
			"every (value, target type) pair of the conversion universe x mark placements, every stdlib function x argument list x mark placements, and set constructors on marked members; " +
			"each case is run marked and with all marks stripped; distinct by operation and marked operand GoStrings; non-trivial = at least one mark placed",
		Assumptions: []string{
			"marks are compared as Go values (three distinct string marks)",
			"for operation methods only root marks of operands are promised on the result; nested marks must merely not change the outcome and not be invented",
		},
		Run: runC04,
	})
}

const (
	markM1 = "M1"
	markM2 = "M2"
	markM3 = "M3"
)

func marksDeep(v cty.Value) map[interface{}]bool {
	out := map[interface{}]bool{}
	func() {
		defer func() { recover() }()
		_, ms := v.UnmarkDeep()
		for m := range ms {
			out[m] = true
		}
	}()
	return out
}

func rootMarks(v cty.Value) map[interface{}]bool {
	out := map[interface{}]bool{}
	for m := range v.Marks() {
		out[m] = true
	}
	return out
}

func marksStr(m map[interface{}]bool) string {
	var s []string
	for k := range m {
		s = append(s, fmt.Sprint(k))
	}
	sort.Strings(s)
	return "{" + strings.Join(s, ",") + "}"
}

func stripAll(vs []cty.Value) []cty.Value {
	out := make([]cty.Value, len(vs))
	for i, v := range vs {
		out[i], _ = v.UnmarkDeep()
	}
	return out
}

// markedVariants returns mark placements of v: root subsets and one nested
// position (not inside sets).
func markedVariants(v cty.Value, rootSets [][]string, nested bool) []cty.Value {
	var out []cty.Value
	for _, rs := range rootSets {
		w := v
		for _, m := range rs {
			w = w.Mark(m)
		}
		out = append(out, w)
	}
	if nested && v.IsKnown() && !v.IsNull() {
		for _, p := range allPositions(v, 2) {
			if len(p) == 0 || passesThroughSet(v, p) {
				continue
			}
			x := getAt(v, p)
			nv, ok := replaceAt(v, p, x.Mark(markM3))
			if !ok {
				continue
			}
			out = append(out, nv, nv.Mark(markM1))
		}
		// two nested positions with different marks below an unmarked top level (marks
		// gathered from several members must be merged into a set of their own)
		var marked []Pos
		for _, p := range allPositions(v, 2) {
			if len(p) == 0 || passesThroughSet(v, p) {
				continue
			}
			marked = append(marked, p)
		}
		for i := 0; i < len(marked) && i < 3; i++ {
			for j := i + 1; j < len(marked) && j < 4; j++ {
				if isPrefixPos(marked[i], marked[j]) || isPrefixPos(marked[j], marked[i]) {
					continue
				}
				nv, ok := replaceAt(v, marked[i], getAt(v, marked[i]).Mark(markM3))
				if !ok {
					continue
				}
				nv2, ok := replaceAt(nv, marked[j], getAt(nv, marked[j]).Mark(markM2))
				if !ok {
					continue
				}
				out = append(out, nv2)
			}
		}
	}
	return out
}

func isPrefixPos(a, b Pos) bool {
	if len(a) > len(b) {
		return false
	}
	for i := range a {
		if a[i] != b[i] {
			return false
		}
	}
	return true
}

func passesThroughSet(v cty.Value, p Pos) bool {
	cur := v
	for _, i := range p {
		if cur.Type().IsSetType() {
			return true
		}
		cur = children(cur)[i]
	}
	return false
}

// c04Compare runs f on marked and stripped inputs and applies the
// non-interference oracle.  promised is the set of marks that must appear on
// the result.
func c04Compare(u *U, site string, desc func() string, shape string, inputs []cty.Value, promised map[interface{}]bool,
	f func(args []cty.Value) (cty.Value, error)) {
	call := func(args []cty.Value) (ret cty.Value, err error, pan string) {
		defer func() {
			if r := recover(); r != nil {
				pan = fmt.Sprint(r)
			}
		}()
		ret, err = f(args)
		return
	}
	u.Eval(2)
	before := argsStr(inputs)
	rm, em, pm := call(inputs)
	if after := argsStr(inputs); after != before {
		// the operands are values: the marks they carry, at every depth, are theirs for good
		u.Violation(site+".operand-marks-changed", shape, fmt.Sprintf("%s: the call changed its own operands (marks of operands are never lost or invented by using them): before %s, after %s", desc(), before, after))
	}
	stripped := stripAll(inputs)
	rs, es, ps := call(stripped)
	okM, okS := em == nil && pm == "", es == nil && ps == ""
	if okM != okS {
		u.Violation(site+".outcome-differs", shape, fmt.Sprintf("%s: with marks: ok=%v (err=%v panic=%q); with marks stripped: ok=%v (err=%v panic=%q)", desc(), okM, em, pm, okS, es, ps))
		return
	}
	if !okM {
		u.Class("both-rejected")
		return
	}
	u.Class("both-ok")
	rmu, _ := rm.UnmarkDeep()
	rsu, sMarks := rs.UnmarkDeep()
	if len(sMarks) > 0 {
		u.Violation(site+".invented", shape, fmt.Sprintf("%s: the run without any marks produced marks %v", desc(), sMarks))
	}
	if rmu.Type().IsCapsuleType() && rsu.Type().Equals(rmu.Type()) && rmu.IsKnown() && rsu.IsKnown() && !rmu.IsNull() && !rsu.IsNull() {
		// capsule values compare by pointer identity; two calls build two
		// capsules, so their payloads are compared instead
		if !reflect.DeepEqual(rmu.EncapsulatedValue(), rsu.EncapsulatedValue()) {
			u.Violation(site+".result-differs", shape, fmt.Sprintf("%s: encapsulated result differs from the result on stripped inputs", desc()))
		}
	} else if !rawEq(rmu, rsu) {
		u.Violation(site+".result-differs", shape, fmt.Sprintf("%s: unmarked result %s differs from the result on stripped inputs %s", desc(), goStr(rmu), goStr(rsu)))
	}
	got := marksDeep(rm)
	for m := range promised {
		if !got[m] {
			u.Violation(site+".lost", shape, fmt.Sprintf("%s: mark %v of an input is missing from the result %s (result marks %s)", desc(), m, goStr(rm), marksStr(got)))
		}
	}
	all := map[interface{}]bool{}
	for _, in := range inputs {
		for m := range marksDeep(in) {
			all[m] = true
		}
	}
	for m := range got {
		if !all[m] {
			u.Violation(site+".invented", shape, fmt.Sprintf("%s: result carries mark %v that no input carried", desc(), m))
		}
	}
}

func runC04(c *Ctx) {
	rootA := [][]string{{}, {markM1}, {markM1, markM2}}
	rootB := [][]string{{}, {markM2}}
	c01Cases(false, func(oc opCase) {
		c.Unit(func(u *U) {
			op := oc.op
			nargs := len(oc.args)
			// operand knownness variants
			variants := [][]cty.Value{oc.args}
			for i := 0; i < nargs; i++ {
				if op.Kind == "getattr" && i == 1 {
					continue
				}
				a := append([]cty.Value(nil), oc.args...)
				a[i] = cty.UnknownVal(oc.args[i].Type())
				variants = append(variants, a)
				if i == 0 {
					d := append([]cty.Value(nil), oc.args...)
					d[i] = cty.DynamicVal
					variants = append(variants, d)
				}
			}
			for _, base := range variants {
				va := markedVariants(base[0], rootA, true)
				vb := []cty.Value{cty.NilVal}
				if nargs == 2 && op.Kind != "getattr" {
					vb = markedVariants(base[1], rootB, true)
				}
				for _, a := range va {
					for _, b := range vb {
						args := []cty.Value{a}
						if nargs == 2 {
							if op.Kind == "getattr" {
								args = append(args, base[1])
							} else {
								args = append(args, b)
							}
						}
						anyMark := false
						promised := map[interface{}]bool{}
						for i, x := range args {
							if op.Kind == "getattr" && i == 1 {
								continue
							}
							for m := range rootMarks(x) {
								promised[m] = true
							}
							if len(marksDeep(x)) > 0 {
								anyMark = true
							}
						}
						if !anyMark {
							continue
						}
						u.Distinct(op.Name + argsStr(args))
						c04Compare(u, op.Name, func() string { return op.Name + "(" + argsStr(args) + ")" }, shapesStr(args), args, promised,
							func(in []cty.Value) (cty.Value, error) { return op.Call(in), nil })
						if u.WantSample() {
							u.Sample(map[string]string{"op": op.Name, "marked_operands": argsStr(args)})
						}
					}
				}
			}
		})
	})
	// set constructor: member marks move to the set, no member stays marked
	c.Unit(func(u *U) {
		members := []cty.Value{
			cty.StringVal("a"), cty.StringVal("b").Mark(markM1), cty.StringVal("c").Mark(markM1).Mark(markM2), cty.UnknownVal(cty.String).Mark(markM2), cty.NullVal(cty.String).Mark(markM3),
		}
		seqs(members, 3, func(ms []cty.Value) {
			if len(ms) == 0 {
				return
			}
			u.Eval(1)
			u.Distinct("SetVal" + argsStr(ms))
			c04SetCtor(u, ms)
		})
		tm := []cty.Value{
			cty.TupleVal([]cty.Value{cty.StringVal("a").Mark(markM1), cty.Zero}),
			cty.TupleVal([]cty.Value{cty.StringVal("a"), cty.Zero.Mark(markM2)}),
			cty.TupleVal([]cty.Value{cty.StringVal("b"), cty.Zero}).Mark(markM3),
			cty.TupleVal([]cty.Value{cty.StringVal("a"), cty.Zero}),
			// marked at its own top level and inside, at once
			cty.TupleVal([]cty.Value{cty.StringVal("c").Mark(markM1), cty.Zero}).Mark(markM2),
			cty.TupleVal([]cty.Value{cty.StringVal("a"), cty.Zero.Mark(markM3)}).Mark(markM3),
		}
		seqs(tm, 3, func(ms []cty.Value) {
			if len(ms) == 0 {
				return
			}
			u.Eval(1)
			u.Distinct("SetVal" + argsStr(ms))
			c04SetCtor(u, ms)
		})
	})
	c.Unit(func(u *U) {
		lm := []cty.Value{
			cty.ListVal([]cty.Value{cty.StringVal("x")}),
			cty.ListVal([]cty.Value{cty.StringVal("x").Mark(markM1)}).Mark(markM2),
			cty.ListVal([]cty.Value{cty.StringVal("y"), cty.UnknownVal(cty.String).Mark(markM3)}).Mark(markM1),
			cty.NullVal(cty.List(cty.String)).Mark(markM2),
		}
		seqs(lm, 3, func(ms []cty.Value) {
			if len(ms) == 0 {
				return
			}
			u.Eval(1)
			u.Distinct("SetVal" + argsStr(ms))
			c04SetCtor(u, ms)
		})
		om := []cty.Value{
			cty.ObjectVal(map[string]cty.Value{"a": cty.StringVal("x"), "b": cty.ListVal([]cty.Value{cty.True})}),
			cty.ObjectVal(map[string]cty.Value{"a": cty.StringVal("x").Mark(markM1), "b": cty.ListVal([]cty.Value{cty.True.Mark(markM2)})}).Mark(markM3),
			cty.ObjectVal(map[string]cty.Value{"a": cty.StringVal("y"), "b": cty.ListVal([]cty.Value{cty.False}).Mark(markM1)}).Mark(markM1),
		}
		seqs(om, 3, func(ms []cty.Value) {
			if len(ms) == 0 {
				return
			}
			u.Eval(1)
			u.Distinct("SetVal" + argsStr(ms))
			c04SetCtor(u, ms)
		})
	})
	c04Extra(c)
}

func c04SetCtor(u *U, ms []cty.Value) {
	defer func() {
		if r := recover(); r != nil {
			u.Violation("SetVal.panics", "marked-members", fmt.Sprintf("SetVal(%s) panicked: %v", argsStr(ms), r))
		}
	}()
	v := cty.SetVal(append([]cty.Value(nil), ms...))
	want := map[interface{}]bool{}
	for _, m := range ms {
		for k := range marksDeep(m) {
			want[k] = true
		}
	}
	got := rootMarks(v)
	if marksStr(got) != marksStr(want) {
		u.Violation("SetVal.marks", "marked-members", fmt.Sprintf("SetVal(%s) carries root marks %s, members carried %s", argsStr(ms), marksStr(got), marksStr(want)))
	}
	inner, _ := v.Unmark()
	if inner.ContainsMarked() {
		u.Violation("SetVal.member-marked", "marked-members", fmt.Sprintf("SetVal(%s) still holds a marked member: %s", argsStr(ms), goStr(v)))
	}
	ref := cty.SetVal(stripAll(ms))
	if !rawEq(inner, ref) {
		u.Violation("SetVal.result-differs", "marked-members", fmt.Sprintf("SetVal(%s) unmarked = %s, on stripped members = %s", argsStr(ms), goStr(inner), goStr(ref)))
	}
}

// c04Extra is extended by the conversion and function checks (see c08.go,
// c11.go); it is a variable so those files can hook in.
var c04Extras []func(c *Ctx)

func c04Extra(c *Ctx) {
	for _, f := range c04Extras {
		f(c)
	}
}

// ---- standard-library functions x mark placements

func init() {
	c04Extras = append(c04Extras, c04Stdlib)
}

// c04ArgVariants: the argument itself, an unknown of its type, unknowns whose
// refinements pin the length, and the argument with one nested member unknown.
func c04ArgVariants(v cty.Value) []cty.Value {
	out := []cty.Value{v, cty.UnknownVal(v.Type())}
	if v.Type().IsCollectionType() && v.IsKnown() && !v.IsNull() {
		n := v.LengthInt()
		if w, ok := safeRefine(func() cty.Value {
			return cty.UnknownVal(v.Type()).Refine().CollectionLengthLowerBound(n).CollectionLengthUpperBound(n).NewValue()
		}); ok && !w.IsKnown() {
			out = append(out, w)
		}
	}
	if ps := allPositions(v, 2); len(ps) > 1 {
		for _, p := range ps[1:] {
			x := getAt(v, p)
			if nv, ok := replaceAt(v, p, cty.UnknownVal(x.Type())); ok {
				out = append(out, nv)
				break
			}
		}
	}
	return out
}

func c04Stdlib(c *Ctx) {
	stdUnits(c, false, 800, 25, func(u *U, fn *stdFn, lists [][]cty.Value) {
		for _, base := range lists {
			if c.Stopped() {
				return
			}
			for i := range base {
				p := fn.paramAt(i)
				for _, av := range c04ArgVariants(base[i]) {
					for _, mv := range markedVariants(av, [][]string{{markM1}, {markM1, markM2}}, true) {
						if len(marksDeep(mv)) == 0 {
							continue
						}
						args := append([]cty.Value(nil), base...)
						args[i] = mv
						promised := map[interface{}]bool{}
						if p != nil && !p.AllowMarked {
							promised = marksDeep(mv)
						}
						u.DistinctN(1)
						c04Compare(u, fn.Name, func() string { return fn.Name + "(" + argsStr(args) + ")" }, shapesStr(args), args, promised,
							func(in []cty.Value) (cty.Value, error) { return fn.F.Call(in) })
					}
				}
			}
			// one argument dynamically typed or unknown (the call may short-circuit there) and a
			// mark on another argument, before or after it
			for i := range base {
				for j := range base {
					if i == j {
						continue
					}
					for _, blocker := range []cty.Value{cty.DynamicVal, cty.UnknownVal(base[i].Type()), cty.NullVal(base[i].Type())} {
						for _, mv := range []cty.Value{base[j].Mark(markM1), cty.UnknownVal(base[j].Type()).Mark(markM2)} {
							args := append([]cty.Value(nil), base...)
							args[i], args[j] = blocker, mv
							promised := map[interface{}]bool{}
							if p := fn.paramAt(j); p != nil && !p.AllowMarked {
								promised = marksDeep(mv)
							}
							u.DistinctN(1)
							c04Compare(u, fn.Name, func() string { return fn.Name + "(" + argsStr(args) + ")" }, shapesStr(args), args, promised,
								func(in []cty.Value) (cty.Value, error) { return fn.F.Call(in) })
						}
					}
				}
			}
			// marks on two arguments at once
			if len(base) >= 2 {
				args := append([]cty.Value(nil), base...)
				args[0], args[1] = base[0].Mark(markM1), base[1].Mark(markM2)
				promised := map[interface{}]bool{}
				for i := 0; i < 2; i++ {
					if p := fn.paramAt(i); p != nil && !p.AllowMarked {
						promised[[]string{markM1, markM2}[i]] = true
					}
				}
				u.DistinctN(1)
				c04Compare(u, fn.Name, func() string { return fn.Name + "(" + argsStr(args) + ")" }, shapesStr(args), args, promised,
					func(in []cty.Value) (cty.Value, error) { return fn.F.Call(in) })
			}
		}
	})
}
