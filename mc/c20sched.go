//go:build verifsched

package main

// Engine E4: controlled scheduler for the schedule clause of C20.
//
// This file is compiled only into the scheduler binary, which run.sh builds against
// rewritten copies of the current go-cty tree (tools/genyield): a call to
// verifsched.Yield precedes every statement of the library and "sync" is replaced by
// shims, so a statement boundary of the library is a scheduling point the explorer owns.
//
// For every scenario (2-3 managed threads, each one library operation on a pool of
// SHARED values, types and helper sets):
//
//  1. solo, stepwise: each thread runs alone and the raw-memory fingerprint of every
//     shared object (and, thinned, of every package-level variable) is taken at EVERY
//     statement boundary.  A change while the thread holds no (shim) lock is an
//     unsynchronised write to shared memory - a data race with any concurrent reader.
//  2. schedules: every interleaving of the threads with at most B preemptions
//     (iterative context bounding; B=1 quick, B=2 thorough, unbounded DFS when step 1 saw
//     a synchronised write) is executed on a fresh pool; every thread must return what it
//     returns alone, the shared fingerprints must be unchanged at the end, and no
//     execution may deadlock.
//
// Stated limits: Go map iteration order is not controlled (an operation ranging over a
// map has a varying step sequence; schedules are addressed by per-thread step numbers, so
// the enumeration stays systematic, and results are required to be schedule-independent);
// memory accesses inside one statement are atomic for the explorer.

import (
	"encoding/json"
	"fmt"
	"math/big"
	"os"
	"sort"
	"strings"
	"time"

	"github.com/zclconf/go-cty/cty"
	"github.com/zclconf/go-cty/cty/convert"
	"github.com/zclconf/go-cty/cty/function/stdlib"
	ctyjson "github.com/zclconf/go-cty/cty/json"
	ctymsgpack "github.com/zclconf/go-cty/cty/msgpack"
	vs "github.com/zclconf/go-cty/verifsched"
)

func init() {
	register(&Check{
		ID:       "C20S",
		Property: "C20",
		Level:    "model_checking",
		Rule: "controlled scheduler at statement granularity over rewritten copies of the current tree: every scenario of 2-3 threads x one operation each on shared values/types/sets (all unordered pairs of the read-only operations of the C20 history alphabet plus forced-collision bodies: private copies of one value set, builders on one refined unknown, codecs, unification, conversion) is (1) run solo with the shared-memory fingerprint compared at every statement boundary and (2) run under every schedule with at most B preemptions; " +
			"each thread must return its solo result in every schedule, shared fingerprints must be unchanged, no deadlock; states = distinct (scenario, schedule) executions, transitions = statement boundaries executed under the scheduler",
		Assumptions: []string{
			"statement boundaries of the go-cty packages are the scheduling points; a single statement (and everything it calls outside go-cty) is atomic for the explorer",
			"Go map iteration order is not controlled: schedules are addressed by per-thread step numbers and results must not depend on it",
			"reads are not tracked: a racy read of lock-protected data is outside this engine (the free-running -race pass of the thorough tier looks for it)",
		},
		Run: runC20S,
	})
}

var schedSites []string

func siteName(id int) string {
	if schedSites == nil {
		schedSites = []string{}
		if p := os.Getenv("VERIF_SITES"); p != "" {
			if b, err := os.ReadFile(p); err == nil {
				json.Unmarshal(b, &schedSites)
			}
		}
	}
	if id >= 0 && id < len(schedSites) {
		return schedSites[id]
	}
	if id < 0 {
		return "sync operation"
	}
	return fmt.Sprintf("site#%d", id)
}

// schedBody is one thread body: it works on the shared pool and returns a description of
// what it observed (its "result").
type schedBody struct {
	name  string
	run   func(st *immState) string
	focus bool // a forced-collision body: pairs of these are always enumerated in full
}

type schedScenario struct {
	name   string
	bodies []schedBody
}

func resultStr(v cty.Value, ok bool) string {
	if !ok {
		return "rejected"
	}
	if v == cty.NilVal {
		return "done"
	}
	return goStr(v)
}

// schedBodies: the read-only operations of the C20 alphabet (those that are enabled in
// the initial state and documented to mutate nothing) plus forced-collision bodies.
func schedBodies() (all []schedBody, firstCustom int) {
	var out []schedBody
	for _, op := range c20Ops() {
		op := op
		if op.mutates != "" || strings.HasPrefix(op.name, "S0=") || strings.HasPrefix(op.name, "S0,S1") || strings.HasPrefix(op.name, "B=") {
			continue
		}
		// not enabled in the initial state (they need a builder, retained bytes or retained arguments)
		if strings.Contains(op.name, "B.NewValue") || strings.Contains(op.name, "Unmarshal(Bytes0)") || strings.Contains(op.name, "retained G") {
			continue
		}
		out = append(out, schedBody{op.name, func(st *immState) string { return resultStr(op.run(st)) }, false})
	}
	firstCustom = len(out)
	g := func(f func() string) (s string) {
		defer func() {
			if r := recover(); r != nil {
				s = fmt.Sprintf("panic: %v", r)
			}
		}()
		return f()
	}
	ints := hashCollidingInts()
	add := func(name string, f func(st *immState) string) {
		out = append(out, schedBody{name, func(st *immState) string { return g(func() string { return f(st) }) }, true})
	}
	add("c=S0.Copy(); c.Add(i3); c.Remove(i0); c.Values()", func(st *immState) string {
		c := st.S[0].Copy()
		c.Add(ints[3])
		c.Remove(ints[0])
		return fmt.Sprint(len(c.Values()), c.Has(ints[3]), c.Has(ints[0]))
	})
	add("S0.Has(i0..i3); S0.Values(); S0.Length()", func(st *immState) string {
		return fmt.Sprint(st.S[0].Has(ints[0]), st.S[0].Has(ints[1]), st.S[0].Has(ints[3]), len(st.S[0].Values()), st.S[0].Length())
	})
	add("c=S1.Copy(); c.Remove(c0); c.Add(c3)", func(st *immState) string {
		c := st.S[1].Copy()
		c.Remove(cty.CapsuleVal(capsTypes[0], c20Caps[0]))
		c.Add(cty.CapsuleVal(capsTypes[0], c20Caps[3]))
		return fmt.Sprint(c.Length())
	})
	add("SetValFromValueSet(S1).LengthInt(); S1.Has(c1)", func(st *immState) string {
		return fmt.Sprint(cty.SetValFromValueSet(st.S[1]).LengthInt(), st.S[1].Has(cty.CapsuleVal(capsTypes[0], c20Caps[1])))
	})
	add("vs=V2.AsValueSet(); vs.Add(-99); V2.HasElement(i1)", func(st *immState) string {
		s := st.V[2].AsValueSet()
		s.Add(cty.NumberIntVal(-99))
		return goStr(st.V[2].HasElement(ints[1])) + fmt.Sprint(s.Length())
	})
	add("V3.Refine().NumberRangeUpperBound(9).NewValue(); V3.Range()", func(st *immState) string {
		v := st.V[3].Refine().NumberRangeUpperBound(cty.NumberIntVal(9), true).NewValue()
		lo, _ := st.V[3].Range().NumberLowerBound()
		return goStr(v) + goStr(lo)
	})
	add("V3.RefineNotNull(); V3.Add(1)", func(st *immState) string {
		return goStr(st.V[3].RefineNotNull()) + goStr(st.V[3].Add(cty.NumberIntVal(1)))
	})
	add("V1.Mark(x).UnmarkDeepWithPaths -> MarkWithPaths", func(st *immState) string {
		un, pvm := st.V[1].Mark("x").UnmarkDeepWithPaths()
		return goStr(un.MarkWithPaths(pvm))
	})
	add("V1.HasMark / V1.Marks / V1.Unmark", func(st *immState) string {
		u, m := st.V[1].Unmark()
		return fmt.Sprint(st.V[1].HasMark(markM2), len(st.V[1].Marks()), len(m)) + goStr(u.GetAttr("a"))
	})
	add("json.Marshal(V0) x2 -> Unmarshal", func(st *immState) string {
		b1, err := ctyjson.Marshal(st.V[0], st.V[0].Type())
		must(err)
		b2, err := ctyjson.Marshal(cty.StringVal("other"), cty.String)
		must(err)
		v, err := ctyjson.Unmarshal(b1, st.V[0].Type())
		must(err)
		return goStr(v) + string(b2)
	})
	add("msgpack.Marshal(V0) x2 -> Unmarshal", func(st *immState) string {
		b1, err := ctymsgpack.Marshal(st.V[0], st.V[0].Type())
		must(err)
		b2, err := ctymsgpack.Marshal(cty.StringVal("other"), cty.DynamicPseudoType)
		must(err)
		v, err := ctymsgpack.Unmarshal(b1, st.V[0].Type())
		must(err)
		return goStr(v) + fmt.Sprintf("%x", b2)
	})
	add("T0.MarshalJSON; T1 json round trip", func(st *immState) string {
		b, err := st.T[0].MarshalJSON()
		must(err)
		b2, err := ctyjson.MarshalType(st.T[1])
		must(err)
		t2, err := ctyjson.UnmarshalType(b2)
		must(err)
		return string(b) + tsOf(t2).Canon()
	})
	add("Unify(list(dyn), tuple[list(bool),number,string]); Unify(T0,T1)", func(st *immState) string {
		t1, c1 := convert.Unify([]cty.Type{cty.List(cty.DynamicPseudoType), cty.Tuple([]cty.Type{cty.List(cty.Bool), cty.Number, cty.String})})
		t2, c2 := convert.UnifyUnsafe([]cty.Type{st.T[0], st.T[1], cty.Map(cty.String)})
		return fmt.Sprint(t1 == cty.NilType, len(c1), t2 == cty.NilType, len(c2))
	})
	add("Unify(tuple[number,bool,string], set(dyn), dyn)", func(st *immState) string {
		t1, c1 := convert.Unify([]cty.Type{cty.Tuple([]cty.Type{cty.Number, cty.Bool, cty.String}), cty.Set(cty.DynamicPseudoType), cty.DynamicPseudoType})
		s := "nil"
		if t1 != cty.NilType {
			s = tsOf(t1).Canon()
		}
		return s + fmt.Sprint(len(c1))
	})
	add("Conv0(V1.b): the retained tuple conversion", func(st *immState) string {
		u, _ := st.V[1].Unmark()
		a, err := st.Conv[0](u.GetAttr("b"))
		must(err)
		return goStr(a)
	})
	add("Conv0((other,77)): the retained tuple conversion", func(st *immState) string {
		b, err := st.Conv[0](cty.TupleVal([]cty.Value{cty.StringVal("other"), cty.NumberIntVal(77)}))
		must(err)
		return goStr(b)
	})
	add("Conv0(marked (m,5)): the retained tuple conversion on a value marked M1 with a member marked M3", func(st *immState) string {
		b, err := st.Conv[0](cty.TupleVal([]cty.Value{cty.StringVal("m"), cty.NumberIntVal(5).Mark(markM3)}).Mark(markM1))
		must(err)
		return goStr(b)
	})
	add("Conv0(marked (n,6)): the retained tuple conversion on a value marked M2", func(st *immState) string {
		b, err := st.Conv[0](cty.TupleVal([]cty.Value{cty.StringVal("n"), cty.NumberIntVal(6)}).Mark(markM2))
		must(err)
		return goStr(b)
	})
	add("Conv1(marked map): the retained map->object conversion on a value marked M2 with an element marked M1", func(st *immState) string {
		b, err := st.Conv[1](cty.MapVal(map[string]cty.Value{"k1": cty.StringVal("p").Mark(markM1), "k2": cty.StringVal("q")}).Mark(markM2))
		must(err)
		return goStr(b)
	})
	add("msgpack round trip of a refined unknown number", func(st *immState) string {
		b, err := ctymsgpack.Marshal(st.V[3], cty.Number)
		must(err)
		v, err := ctymsgpack.Unmarshal(b, cty.Number)
		must(err)
		return goStr(v)
	})
	add("msgpack round trip of a list holding a refined unknown string and a refined unknown list", func(st *immState) string {
		in := cty.TupleVal([]cty.Value{
			cty.UnknownVal(cty.String).Refine().NotNull().StringPrefixFull("pre-").NewValue(),
			cty.UnknownVal(cty.List(cty.Bool)).Refine().CollectionLengthLowerBound(2).CollectionLengthUpperBound(5).NewValue(),
		})
		b, err := ctymsgpack.Marshal(in, in.Type())
		must(err)
		v, err := ctymsgpack.Unmarshal(b, in.Type())
		must(err)
		return goStr(v)
	})
	add("Conv1(map p,q): the retained map->object conversion", func(st *immState) string {
		b, err := st.Conv[1](cty.MapVal(map[string]cty.Value{"k1": cty.StringVal("p"), "k2": cty.StringVal("q")}))
		must(err)
		return goStr(b)
	})
	add("Conv1(V4): the retained map->object conversion", func(st *immState) string {
		b, err := st.Conv[1](st.V[4])
		must(err)
		return goStr(b)
	})
	add("Convert(V4,map(string)); Convert(V0,tuple)", func(st *immState) string {
		a, err := convert.Convert(st.V[4], cty.Map(cty.String))
		must(err)
		b, err := convert.Convert(st.V[0], cty.Tuple([]cty.Type{cty.String, cty.Number, cty.Number}))
		must(err)
		return goStr(a) + goStr(b)
	})
	add("stdlib.FormatDate", func(st *immState) string {
		a, err := stdlib.FormatDate(cty.StringVal("YYYY-MM-DD hh:mm"), cty.StringVal("2006-01-02T15:04:05-03:30"))
		must(err)
		return goStr(a)
	})
	add("stdlib.FormatDate (other stamp)", func(st *immState) string {
		a, err := stdlib.FormatDate(cty.StringVal("DD/MM/YY 'at' HH"), cty.StringVal("1999-12-31T23:59:59Z"))
		must(err)
		return goStr(a)
	})
	add("stdlib.Format(%s|%05.1f)", func(st *immState) string {
		b, err := stdlib.Format(cty.StringVal("%s|%05.1f"), cty.StringVal("é"), st.V[5])
		must(err)
		return goStr(b)
	})
	add("stdlib.JSONEncode(V0) / JSONDecode", func(st *immState) string {
		c, err := stdlib.JSONEncode(st.V[0])
		must(err)
		d, err := stdlib.JSONDecode(cty.StringVal("{\"a\":[1,true]}"))
		must(err)
		return goStr(c) + goStr(d)
	})
	add("stdlib.Regex", func(st *immState) string {
		d, err := stdlib.Regex(cty.StringVal("(?P<x>[a-z]+)"), cty.StringVal("abc def"))
		must(err)
		return goStr(d)
	})
	add("Path: GetAttrPath(a).IndexInt(0).GetAttr(b) built twice; P.Has", func(st *immState) string {
		base := cty.GetAttrPath("a").IndexInt(0).GetAttr("x")
		p1 := base.GetAttr("b")
		p2 := base.GetAttr("c")
		return pathStr(p1) + pathStr(p2) + fmt.Sprint(st.P.Has(cty.GetAttrPath("a").IndexInt(0)))
	})
	add("V5.AsBigFloat mutate; PositiveInfinity.AsBigFloat mutate; V5 re-read", func(st *immState) string {
		f := st.V[5].AsBigFloat()
		f.SetInt64(3)
		i := cty.PositiveInfinity.AsBigFloat()
		i.SetInt64(4)
		return goStr(st.V[5]) + goStr(cty.PositiveInfinity) + new(big.Float).Set(f).String()
	})
	add("V0.Equals(V0); V4.RawEquals(V4); hash of V1.b", func(st *immState) string {
		u, _ := st.V[1].UnmarkDeep()
		return goStr(st.V[0].Equals(st.V[0])) + fmt.Sprint(st.V[4].RawEquals(st.V[4])) + fmt.Sprint(u.GetAttr("b").Hash() == u.GetAttr("b").Hash())
	})
	return out, firstCustom
}

// ---------------------------------------------------------------------------
// one execution under a schedule

// directive: preempt thread T when it has passed Step statement boundaries (Step > 0), or
// (Step == 0) when thread T finishes or blocks, continue with thread To.
type directive struct{ T, Step, To int }

type segment struct {
	T        int   // thread
	From, To int   // local step numbers: it ran from step From to step To
	Others   []int // threads that were runnable (and not T) when it started
	End      int   // vs.Paused / Blocked / Finished
	EndCand  []int // threads that could continue when it ended (Finished / Blocked)
}

type schedExec struct {
	results  []string
	segs     []segment // segments executed after the last directive fired
	moot     bool      // a directive could not fire (its thread finished earlier in this run)
	deadlock bool
	stuck    bool
	steps    int
	fpAfter  map[string]string
}

func runSchedule(sc *schedScenario, ds []directive) *schedExec {
	st := newImmState()
	n := len(sc.bodies)
	ex := &schedExec{results: make([]string, n)}
	ths := make([]*vs.Thread, n)
	for i := range sc.bodies {
		i := i
		ths[i] = vs.NewThread(i, func() { ex.results[i] = sc.bodies[i].run(st) })
	}
	vs.Activate(true)
	defer vs.Activate(false)
	runnable := func(except int) []int {
		var r []int
		for i, t := range ths {
			if i != except && t.Runnable() {
				r = append(r, i)
			}
		}
		return r
	}
	next := 0 // next directive
	cur := 0
	// an initial free choice: a directive {T:-1, Step:0, To:x} picks the first thread
	if next < len(ds) && ds[next].T == -1 {
		cur = ds[next].To
		next++
	}
	for {
		t := ths[cur]
		budget := 0
		if next < len(ds) && ds[next].T == cur && ds[next].Step > 0 {
			budget = ds[next].Step - t.Steps
			if budget <= 0 {
				ex.moot = true
				next++
				continue
			}
		}
		from := t.Steps
		others := runnable(cur)
		kind := t.Run(budget)
		ex.steps += t.Steps - from
		if next >= len(ds) {
			ex.segs = append(ex.segs, segment{cur, from, t.Steps, others, kind, nil})
		}
		switch kind {
		case vs.Stuck:
			ex.stuck = true
			return ex
		case vs.Paused:
			d := ds[next]
			next++
			if !ths[d.To].Runnable() {
				ex.moot = true
				// the requested thread cannot run here: keep going with the current one
				continue
			}
			cur = d.To
			continue
		case vs.Finished, vs.Blocked:
			if kind == vs.Finished && t.Panic != nil {
				ex.results[cur] = fmt.Sprintf("thread panicked: %v", t.Panic)
			}
			if next < len(ds) && ds[next].T == cur && ds[next].Step > 0 {
				// the thread ended before the step at which it was to be preempted
				ex.moot = true
				next++
			}
			cand := runnable(-1)
			if kind == vs.Blocked {
				cand = runnable(cur)
			}
			if len(cand) == 0 {
				unfinished := false
				for _, x := range ths {
					if !x.Done {
						unfinished = true
					}
				}
				ex.deadlock = unfinished
				ex.fpAfter = st.fingerprints()
				return ex
			}
			if next >= len(ds) && len(ex.segs) > 0 {
				ex.segs[len(ex.segs)-1].EndCand = cand
			}
			to := cand[0]
			if next < len(ds) && ds[next].T == cur && ds[next].Step == 0 {
				want := ds[next].To
				next++
				ok := false
				for _, c := range cand {
					if c == want {
						ok = true
					}
				}
				if ok {
					to = want
				} else {
					ex.moot = true
				}
			}
			cur = to
		}
	}
}

// ---------------------------------------------------------------------------
// exploration

type schedStats struct {
	executions, moot, steps int64
	outcomes                map[string]bool
}

func exploreSchedules(u *U, sc *schedScenario, solo []string, fp0 map[string]string, bound int, budgetExec int64, st *schedStats) (complete bool) {
	complete = true
	var rec func(ds []directive, cost int)
	rec = func(ds []directive, cost int) {
		if st.executions >= budgetExec || u.c.Stopped() || (st.executions%64 == 0 && u.c.OnlyUnit < 0 && time.Now().After(u.c.deadline)) {
			complete = false
			return
		}
		ex := runSchedule(sc, ds)
		st.executions++
		st.steps += int64(ex.steps)
		u.Transition(ex.steps)
		u.Eval(1)
		key := fmt.Sprint(ds)
		u.State(sc.name + "|" + key)
		u.DistinctH(hash64(sc.name + "|" + key))
		if ex.moot {
			st.moot++
		}
		st.outcomes[strings.Join(ex.results, " || ")] = true
		sched := schedStr(sc, ds)
		if ex.stuck {
			u.Class("stuck-execution-not-judged")
			complete = false
			return
		}
		if ex.deadlock {
			u.Violation("schedule.deadlock", sc.name, fmt.Sprintf("scenario %s deadlocks under schedule %s", sc.name, sched))
			return
		}
		for i, r := range ex.results {
			if r != solo[i] {
				u.Violation("schedule.result-differs", sc.name, fmt.Sprintf("under schedule %s thread %d (%s) returned %s; alone it returns %s", sched, i, sc.bodies[i].name, trunc(r, 400), trunc(solo[i], 400)))
			}
		}
		for k, v := range fp0 {
			if ex.fpAfter[k] != v {
				u.Violation("schedule.shared-memory-changed", sc.name+" -> "+k, fmt.Sprintf("after schedule %s of scenario %s the memory reachable from shared object %s differs from its initial contents", sched, sc.name, k))
			}
		}
		u.Class("schedule-ok")
		// children: deviations after the last directive
		for _, sg := range ex.segs {
			if cost < bound {
				for j := sg.From + 1; j <= sg.To; j++ {
					if sg.End == vs.Paused && j == sg.To {
						continue
					}
					for _, o := range sg.Others {
						rec(append(append([]directive(nil), ds...), directive{sg.T, j, o}), cost+1)
					}
				}
			}
			if sg.End == vs.Finished || sg.End == vs.Blocked {
				// free choice of the next thread: alternatives to the lowest-numbered one
				cand := append([]int(nil), sg.EndCand...)
				sort.Ints(cand)
				for k, o := range cand {
					if k == 0 {
						continue
					}
					rec(append(append([]directive(nil), ds...), directive{sg.T, 0, o}), cost)
				}
			}
		}
	}
	// the first thread is a free choice
	for first := range sc.bodies {
		if first == 0 {
			rec(nil, 0)
		} else {
			rec([]directive{{-1, 0, first}}, 0)
		}
	}
	return complete
}

func schedStr(sc *schedScenario, ds []directive) string {
	if len(ds) == 0 {
		return "[threads run one after the other]"
	}
	var p []string
	for _, d := range ds {
		switch {
		case d.T == -1:
			p = append(p, fmt.Sprintf("start with thread %d", d.To))
		case d.Step == 0:
			p = append(p, fmt.Sprintf("when thread %d ends continue with thread %d", d.T, d.To))
		default:
			p = append(p, fmt.Sprintf("preempt thread %d after %d statements, run thread %d", d.T, d.Step, d.To))
		}
	}
	return "[" + strings.Join(p, "; ") + "]"
}

// soloStepwise runs one body alone and compares the fingerprint of the shared pool at every
// statement boundary; every k-th boundary also the package-level variables.
func soloStepwise(u *U, b schedBody, globalsEvery int) (result string, steps int, syncWrites int) {
	st := newImmState()
	fp0 := st.fingerprints()
	g0 := map[string]string{}
	for k, v := range fingerprintGlobals() {
		g0[k] = v
	}
	reported := map[string]bool{}
	th := vs.NewThread(0, func() { result = b.run(st) })
	n := 0
	vs.StepHook = func(t *vs.Thread, site int) {
		n++
		now := st.fingerprints()
		for k, v := range fp0 {
			if now[k] != v && !reported[k] {
				reported[k] = true
				if t.LocksHeld == 0 {
					u.Violation("step.unsynchronised-write", b.name+" -> "+k, fmt.Sprintf("while %s runs, the memory reachable from shared object %s changes before %s (statement boundary %d) and the thread holds no lock: a concurrent reader of that object races with it", b.name, k, siteName(site), t.Steps))
				} else {
					syncWrites++
				}
			}
		}
		// package-level variables: at every boundary while a lock is held and at every
		// synchronisation operation (so that a change is attributed to the critical section that
		// made it), otherwise thinned
		if t.LocksHeld > 0 || site < 0 || (globalsEvery > 0 && n%globalsEvery == 0) {
			gn := fingerprintGlobals()
			for k, v := range g0 {
				if gn[k] != v && !reported["G:"+k] {
					reported["G:"+k] = true
					if t.LocksHeld == 0 {
						u.Violation("step.unsynchronised-global-write", b.name+" -> "+k, fmt.Sprintf("while %s runs, package-level variable %s changes before %s (statement boundary %d) and the thread holds no lock", b.name, k, siteName(site), t.Steps))
					} else {
						syncWrites++
						g0[k] = gn[k] // a write under a lock: the new contents are the baseline
						reported["G:"+k] = false
					}
				}
			}
		}
	}
	vs.Activate(true)
	kind := th.Run(0)
	vs.Activate(false)
	vs.StepHook = nil
	if kind == vs.Finished && th.Panic != nil {
		result = fmt.Sprintf("thread panicked: %v", th.Panic)
	}
	// the globals once more at the end, whatever the thinning
	gn := fingerprintGlobals()
	for k, v := range g0 {
		if gn[k] != v && !reported["G:"+k] {
			u.Violation("step.unsynchronised-global-write", b.name+" -> "+k, fmt.Sprintf("%s changes package-level variable %s outside every critical section (the change was first seen after the body returned)", b.name, k))
			gBaseline = gn
		}
	}
	return result, th.Steps, syncWrites
}

// soloCounted runs one body alone under the scheduler (no hook) and reports its result, its
// number of statement boundaries, its synchronisation operations and whether the pool or a
// package-level variable differs afterwards.
func soloCounted(b schedBody) (result string, steps, syncOps int, dirty bool) {
	st := newImmState()
	fp0 := st.fingerprints()
	g0 := fingerprintGlobals()
	th := vs.NewThread(0, func() { result = b.run(st) })
	vs.Activate(true)
	kind := th.Run(0)
	vs.Activate(false)
	if kind == vs.Finished && th.Panic != nil {
		result = fmt.Sprintf("thread panicked: %v", th.Panic)
	}
	fp1 := st.fingerprints()
	for k, v := range fp0 {
		if fp1[k] != v {
			dirty = true
		}
	}
	for k, v := range fingerprintGlobals() {
		if g0[k] != v {
			dirty = true
		}
	}
	return result, th.Steps, th.SyncOps, dirty
}

func runC20S(c *Ctx) {
	bodies, firstCustom := schedBodies()
	c.Note("thread_bodies", fmtInt(len(bodies)))
	// Tiers.  "full" scenarios get every schedule within the preemption bound; for the others
	// (long bodies, quick tier only) the enumeration is reduced to the orders in which whole
	// threads can run, which covers every schedule up to equivalence PROVIDED no thread writes
	// shared memory or synchronises - exactly what phase 1 decides for every body (a write is
	// a violation there), and what the cheap end-to-end test below re-checks per scenario: a
	// scenario with a dirty or synchronising body is always explored in full.
	fullLimit, bound2Limit, focusLimit := 1300, 140, 4000
	globalsEvery := 16
	perScenario := int64(60000)
	if c.Thorough {
		fullLimit, bound2Limit = 1<<30, 420
		globalsEvery = 1
		perScenario = 2000000
	}
	c.Note("full_enumeration_when_statement_boundaries_at_most", fmtInt(fullLimit))
	c.Note("full_enumeration_of_forced_collision_pairs_when_statement_boundaries_at_most", fmtInt(focusLimit))
	c.Note("preemption_bound_2_when_statement_boundaries_at_most", fmtInt(bound2Limit))
	c.Note("globals_fingerprinted", fmt.Sprint(globalsAvailable))
	// phase 1: solo, stepwise (one unit per body)
	for i := range bodies {
		b := bodies[i]
		c.Unit(func(u *U) {
			res, steps, sw := soloStepwise(u, b, globalsEvery)
			u.Eval(1)
			u.Transition(steps)
			u.Class("solo-stepwise")
			if sw > 0 {
				u.Class("synchronised-write-seen")
			}
			if os.Getenv("VERIF_SCHED_DIAG") != "" {
				u.c.Note("steps "+b.name, fmtInt(steps))
			}
			if u.WantSample() {
				u.Sample(map[string]interface{}{"body": b.name, "statement_boundaries": steps, "result": trunc(res, 120)})
			}
		})
	}
	// phase 2: schedules.  All unordered pairs (also of a body with itself) and triples over
	// the forced-collision bodies.
	var scs []*schedScenario
	for i := range bodies {
		for j := i; j < len(bodies); j++ {
			scs = append(scs, &schedScenario{bodies[i].name + "  ||  " + bodies[j].name, []schedBody{bodies[i], bodies[j]}})
		}
	}
	custom := bodies[firstCustom:]
	stride := 5
	if c.Thorough {
		stride = 2
	}
	for i := 0; i < len(custom); i += stride {
		for j := i; j < len(custom); j += stride {
			for k := j; k < len(custom); k += stride {
				scs = append(scs, &schedScenario{custom[i].name + "  ||  " + custom[j].name + "  ||  " + custom[k].name, []schedBody{custom[i], custom[j], custom[k]}})
			}
		}
	}
	c.Note("scenarios", fmtInt(len(scs)))
	for _, sc := range scs {
		sc := sc
		c.Unit(func(u *U) {
			solo := make([]string, len(sc.bodies))
			total, special, focus := 0, false, true
			for i, b := range sc.bodies {
				if !b.focus {
					focus = false
				}
				r, steps, syncOps, dirty := soloCounted(b)
				solo[i] = r
				total += steps
				if syncOps > 0 || dirty {
					special = true
				}
			}
			fp0 := newImmState().fingerprints()
			st := &schedStats{outcomes: map[string]bool{}}
			bound := 0
			switch {
			case special:
				bound = 2
				if total > bound2Limit*4 {
					bound = 1
				}
				u.Class("scenario-with-writes-or-synchronisation")
			case total <= bound2Limit && len(sc.bodies) == 2:
				bound = 2
			case total <= fullLimit && (len(sc.bodies) == 2 || total <= fullLimit/3):
				bound = 1
			case focus && len(sc.bodies) == 2 && total <= focusLimit:
				bound = 1
			}
			complete := exploreSchedules(u, sc, solo, fp0, bound, perScenario, st)
			switch {
			case !complete:
				u.Class("scenario-capped")
				u.c.res.Exhaustive = false
			case bound == 0:
				u.Class("scenario-thread-orders-only")
			default:
				u.Class(fmt.Sprintf("scenario-all-schedules-bound-%d", bound))
			}
			if len(st.outcomes) > 1 {
				u.Class("scenario-with-several-outcomes")
			}
			if u.WantSample() {
				u.Sample(map[string]interface{}{"scenario": sc.name, "schedules": st.executions, "moot": st.moot, "statement_boundaries": st.steps, "preemption_bound": bound, "distinct_outcomes": len(st.outcomes)})
			}
		})
	}
}
