// Command mc is the bounded exhaustive explorer for the go-cty properties
// C01..C20.  See /verif/DESIGN.md.
//
//	mc <ID> <quick|thorough> [--replay file] [--emit-findings]
//
// The parent process forks NSHARDS worker processes (self-exec) which each
// enumerate the same deterministic case space and execute the units assigned
// to them.  The parent merges the results, writes the evidence file and
// prints VIOLATION / KNOWN-FINDING lines.
package main

import (
	"bufio"
	"encoding/json"
	"fmt"
	"hash/fnv"
	"os"
	"os/exec"
	"path/filepath"
	"regexp"
	"runtime"
	"runtime/debug"
	"sort"
	"strconv"
	"strings"
	"syscall"
	"time"
)

// Check describes one property check.
type Check struct {
	ID          string
	Property    string // property reported in VIOLATION / KNOWN-FINDING lines and matched against the findings file (default: ID)
	Level       string // evidence level
	Rule        string
	Assumptions []string
	Run         func(c *Ctx)
	// MemLimitMB, when > 0, is applied to workers as RLIMIT_AS.
	MemLimitMB int
	// CrashIsViolation: a worker killed by a runtime fatal error is a
	// property violation (C17) rather than a harness error.
	CrashIsViolation bool
	Shards           int // 0 = default
	// DeepQuick: the quick tier explores the thorough tier's universe (checks whose thorough tier
	// costs seconds).
	DeepQuick bool
}

var checks = map[string]*Check{}

func register(c *Check) {
	if c.Property == "" {
		c.Property = c.ID
	}
	checks[c.ID] = c
}

// Violation is one observed property violation.
type Violation struct {
	Site   string `json:"site"`
	Shape  string `json:"shape"`
	Detail string `json:"detail"`
	Unit   int64  `json:"unit"`
}

// WorkerResult is what a worker hands to the parent.
type WorkerResult struct {
	Shard       int               `json:"shard"`
	Units       int64             `json:"units"`      // units executed by this worker
	UnitsSeen   int64             `json:"units_seen"` // units enumerated (all shards)
	Evals       int64             `json:"evals"`
	States      int64             `json:"states"`
	Transitions int64             `json:"transitions"`
	Traces      int64             `json:"traces"`
	Classes     map[string]int64  `json:"classes"`
	Samples     []json.RawMessage `json:"samples"`
	Violations  []Violation       `json:"violations"`
	ViolCount   int64             `json:"viol_count"`
	Exhaustive  bool              `json:"exhaustive"`
	Notes       map[string]string `json:"notes"`
	HarnessErr  string            `json:"harness_err"`
	DistinctN   int64             `json:"distinct_n"`
	DistinctAdd int64             `json:"distinct_add"`
	DistFile    string            `json:"dist_file"`
	StateFile   string            `json:"state_file"`
}

// Ctx is the per-worker execution context handed to Check.Run.
type Ctx struct {
	Tier     string
	Thorough bool
	Shard    int
	NShards  int
	Seed     int64
	OnlyUnit int64 // >=0: replay mode, execute only this unit
	Verbose  bool

	unitCounter int64
	deadline    time.Time
	stopped     bool
	res         *WorkerResult
	distinct    map[uint64]struct{}
	states      map[uint64]struct{}
	violKeys    map[string]int
	journal     *os.File
	sampleEvery int64
	nextSample  int64
}

// U is the context of one unit of work.
type U struct {
	c       *Ctx
	Idx     int64
	viol    []Violation
	recheck bool
	desc    string
}

func hash64(s string) uint64 {
	h := fnv.New64a()
	h.Write([]byte(s))
	return h.Sum64()
}

// Stopped reports whether the worker ran out of budget; generators should
// return promptly when it is true.
func (c *Ctx) Stopped() bool { return c.stopped }

// Note records an extra coverage key for the evidence file.
func (c *Ctx) Note(k, v string) {
	if c.res.Notes == nil {
		c.res.Notes = map[string]string{}
	}
	c.res.Notes[k] = v
}

// Unit enumerates one unit of work; it executes fn only when the unit belongs
// to this worker's shard.
func (c *Ctx) Unit(fn func(u *U)) {
	idx := c.unitCounter
	c.unitCounter++
	if c.stopped {
		return
	}
	if c.OnlyUnit >= 0 {
		if idx != c.OnlyUnit {
			return
		}
	} else if int((idx+c.Seed)%int64(c.NShards)) != c.Shard {
		return
	}
	if c.OnlyUnit < 0 && idx%64 == 0 && time.Now().After(c.deadline) {
		c.stopped = true
		c.res.Exhaustive = false
		c.Note("stopped_at_unit", strconv.FormatInt(idx, 10))
		return
	}
	if c.journal != nil {
		c.journal.WriteAt([]byte(fmt.Sprintf("%-20d", idx)), 0)
	}
	u := &U{c: c, Idx: idx}
	if herr := runUnit(u, fn); herr != "" {
		c.res.HarnessErr = herr
		c.stopped = true
		return
	}
	c.res.Units++
	if len(u.viol) > 0 {
		// re-check: the unit is run twice more.  The harness is deterministic
		// (fixed enumeration order, no clock, no randomness), so when the three
		// runs disagree it is the library's behaviour that differs between runs
		// (a result that depends on Go map iteration order, package-level
		// scratch state, ...).  Every violation observed in any run is a real
		// execution that violates the property: they are all reported, tagged
		// with how many of the three runs showed them.
		runs := [][]Violation{u.viol}
		for k := 0; k < 2; k++ {
			u2 := &U{c: c, Idx: idx, recheck: true}
			if herr := runUnit(u2, fn); herr != "" {
				c.res.HarnessErr = "recheck: " + herr
				c.stopped = true
				return
			}
			runs = append(runs, u2.viol)
		}
		if !sameViol(runs[0], runs[1]) || !sameViol(runs[0], runs[2]) {
			count := map[string]int{}
			first := map[string]Violation{}
			var order []string
			for _, r := range runs {
				seenHere := map[string]bool{}
				for _, v := range r {
					k := v.Site + "\x00" + v.Shape
					if _, ok := first[k]; !ok {
						first[k] = v
						order = append(order, k)
					}
					if !seenHere[k] {
						seenHere[k] = true
						count[k]++
					}
				}
			}
			u.viol = nil
			for _, k := range order {
				v := first[k]
				v.Detail = fmt.Sprintf("[observed in %d of 3 runs of this unit: the behaviour is not reproducible, i.e. not a function of the operands] %s", count[k], v.Detail)
				u.viol = append(u.viol, v)
			}
			c.res.Classes["unit-with-irreproducible-violations"]++
		}
		for _, v := range u.viol {
			c.res.ViolCount++
			key := v.Site + "\x00" + v.Shape
			if n := c.violKeys[key]; n < 2 && len(c.res.Violations) < 4000 {
				c.violKeys[key] = n + 1
				c.res.Violations = append(c.res.Violations, v)
			}
		}
	}
}

func sameViol(a, b []Violation) bool {
	if len(a) != len(b) {
		return false
	}
	for i := range a {
		// details may quote library error text whose wording depends on Go map
		// iteration order; the violation class and unit must be identical
		if a[i].Site != b[i].Site || a[i].Shape != b[i].Shape || a[i].Unit != b[i].Unit {
			return false
		}
	}
	return true
}

// libraryStatePanic is raised by a harness whose own set-up, built from public constructors
// that worked at process start, starts to panic later: package-level state of the library was
// corrupted by an operation explored earlier.  It is a property violation, not a harness error.
type libraryStatePanic struct{ what string }

func runUnit(u *U, fn func(u *U)) (herr string) {
	defer func() {
		if r := recover(); r != nil {
			if lp, ok := r.(libraryStatePanic); ok {
				u.Violation("library-state-corrupted", "set-up", lp.what)
				return
			}
			herr = fmt.Sprintf("harness panic in unit %d: %v\n%s", u.Idx, r, debug.Stack())
		}
	}()
	fn(u)
	return ""
}

// Eval counts executed cases.
func (u *U) Eval(n int) {
	if !u.recheck {
		u.c.res.Evals += int64(n)
	}
}

// Distinct registers a non-trivial case under its canonical key.
func (u *U) Distinct(key string) {
	if !u.recheck {
		u.c.distinct[hash64(key)] = struct{}{}
	}
}

// DistinctN adds n cases that are distinct by construction of the
// enumeration (no hashing needed; the caller guarantees no repeats).
func (u *U) DistinctN(n int) {
	if !u.recheck {
		u.c.res.DistinctAdd += int64(n)
	}
}

// DistinctH is Distinct with a precomputed hash.
func (u *U) DistinctH(h uint64) {
	if !u.recheck {
		u.c.distinct[h] = struct{}{}
	}
}

// Class counts an outcome class (vacuity guard).
func (u *U) Class(name string) {
	if !u.recheck {
		u.c.res.Classes[name]++
	}
}

// State registers a visited state (explicit-state checks); returns true when new
// within this worker.
func (u *U) State(key string) bool {
	h := hash64(key)
	if _, ok := u.c.states[h]; ok {
		return false
	}
	if !u.recheck {
		u.c.states[h] = struct{}{}
	}
	return true
}

// Transition counts an explored transition validated against the implementation.
func (u *U) Transition(n int) {
	if !u.recheck {
		u.c.res.Transitions += int64(n)
		u.c.res.Traces += int64(n)
	}
}

// WantSample tells whether a sample would be recorded now (cheap test
// before building an expensive description).
func (u *U) WantSample() bool {
	if u.recheck {
		return false
	}
	c := u.c
	return len(c.res.Samples) < 6 && c.res.Evals >= c.nextSample
}

// Sample records an explored case for the evidence file.
func (u *U) Sample(v interface{}) {
	if !u.WantSample() {
		return
	}
	c := u.c
	b, err := json.Marshal(v)
	if err != nil {
		return
	}
	c.res.Samples = append(c.res.Samples, b)
	c.nextSample = c.res.Evals*4 + 1000
}

// Violation reports a property violation.  site and shape identify the
// violation class for known-finding matching; detail is a deterministic,
// human-readable description of the exact case.
func (u *U) Violation(site, shape, detail string) {
	// very long operands (64 KiB strings) are not worth printing in full
	if len(detail) > 6000 {
		detail = detail[:3000] + " ...[" + strconv.Itoa(len(detail)-6000) + " bytes omitted]... " + detail[len(detail)-3000:]
	}
	if len(shape) > 1500 {
		shape = shape[:1500] + "..."
	}
	if len(u.viol) < 50 {
		u.viol = append(u.viol, Violation{Site: site, Shape: shape, Detail: detail, Unit: u.Idx})
	}
	if u.c.Verbose && !u.recheck {
		fmt.Printf("  violation site=%s shape=%s\n    %s\n", site, shape, detail)
	}
}

// ---------------------------------------------------------------------------

// Finding is one line of /verif/known_findings.jsonl.
type Finding struct {
	Status   string `json:"status"`
	Property string `json:"property"`
	Site     string `json:"site"`
	Shape    string `json:"shape"`
	What     string `json:"what"`
	Commit   string `json:"commit,omitempty"`
	// ShapeRe, when set, replaces the exact shape match by a regular
	// expression over the shape (used where one defect at one call site is
	// reached through a family of operand shapes).
	ShapeRe string `json:"shape_re,omitempty"`
	re      *regexp.Regexp
}

// findingSet holds the known findings of one property.
type findingSet struct {
	exact map[string]Finding
	res   []Finding
}

// match returns the finding covering (site, shape) and its identifying key.
func (fs *findingSet) match(site, shape string) (Finding, string, bool) {
	if f, ok := fs.exact[site+"\x00"+shape]; ok {
		return f, site + "\x00" + shape, true
	}
	for _, f := range fs.res {
		if f.Site == site && f.re.MatchString(shape) {
			return f, site + "\x00~" + f.ShapeRe, true
		}
	}
	return Finding{}, "", false
}

func loadFindings(path, prop string) *findingSet {
	out := &findingSet{exact: map[string]Finding{}}
	f, err := os.Open(path)
	if err != nil {
		return out
	}
	defer f.Close()
	sc := bufio.NewScanner(f)
	sc.Buffer(make([]byte, 1<<20), 1<<24)
	for sc.Scan() {
		line := strings.TrimSpace(sc.Text())
		if line == "" || strings.HasPrefix(line, "#") {
			continue
		}
		var fd Finding
		if json.Unmarshal([]byte(line), &fd) != nil {
			continue
		}
		if fd.Property == prop && fd.Status == "known" {
			if fd.ShapeRe != "" {
				re, err := regexp.Compile(fd.ShapeRe)
				if err != nil {
					continue
				}
				fd.re = re
				out.res = append(out.res, fd)
				continue
			}
			out.exact[fd.Site+"\x00"+fd.Shape] = fd
		}
	}
	return out
}

const verifDir = "/verif"

// outDir is where evidence and replay files are written; VERIF_OUT redirects
// them (used only when the checks are tried against seeded defects, so that
// the committed evidence is never overwritten by such a run).
func outDir() string {
	if d := os.Getenv("VERIF_OUT"); d != "" {
		return d
	}
	return verifDir
}

// replayDir is where replay files go (they must outlive scratch evidence directories).
func replayDir() string {
	if d := os.Getenv("VERIF_REPLAY_OUT"); d != "" {
		return d
	}
	return outDir()
}

// repoDir is the go-cty checkout the harness was built against.
func repoDir() string {
	if d := os.Getenv("VERIF_REPO"); d != "" {
		return d
	}
	return "/repo"
}

func main() {
	if len(os.Args) < 3 {
		fmt.Fprintln(os.Stderr, "usage: mc <ID> <quick|thorough> [--replay file] [--emit-findings]")
		os.Exit(2)
	}
	id, tier := os.Args[1], os.Args[2]
	ck, ok := checks[id]
	if !ok {
		fmt.Fprintf(os.Stderr, "unknown check %s\n", id)
		os.Exit(2)
	}
	if tier != "quick" && tier != "thorough" {
		fmt.Fprintf(os.Stderr, "tier must be quick or thorough\n")
		os.Exit(2)
	}
	var replay, workerSpec, outFile string
	emit := false
	for i := 3; i < len(os.Args); i++ {
		switch os.Args[i] {
		case "--replay":
			i++
			replay = os.Args[i]
		case "--worker":
			i++
			workerSpec = os.Args[i]
		case "--out":
			i++
			outFile = os.Args[i]
		case "--emit-findings":
			emit = true
		}
	}
	seed, _ := strconv.ParseInt(os.Getenv("VERIF_SEED"), 10, 64)
	if seed < 0 {
		seed = -seed
	}
	if replay != "" {
		os.Exit(doReplay(ck, tier, replay))
	}
	if workerSpec != "" {
		var shard, n int
		fmt.Sscanf(workerSpec, "%d/%d", &shard, &n)
		runWorker(ck, tier, shard, n, seed, outFile)
		return
	}
	os.Exit(runParent(ck, tier, seed, emit))
}

func budget(tier string) time.Duration {
	if s := os.Getenv("VERIF_BUDGET_S"); s != "" {
		if n, err := strconv.Atoi(s); err == nil {
			return time.Duration(n) * time.Second
		}
	}
	if tier == "thorough" {
		return 14 * time.Minute
	}
	return 70 * time.Second
}

func newCtx(ck *Check, tier string, shard, n int, seed int64) *Ctx {
	return &Ctx{
		Tier: tier, Thorough: tier == "thorough" || ck.DeepQuick, Shard: shard, NShards: n, Seed: seed, OnlyUnit: -1,
		deadline: time.Now().Add(budget(tier)),
		res:      &WorkerResult{Shard: shard, Classes: map[string]int64{}, Exhaustive: true},
		distinct: map[uint64]struct{}{},
		states:   map[uint64]struct{}{},
		violKeys: map[string]int{},
	}
}

func runWorker(ck *Check, tier string, shard, n int, seed int64, outFile string) {
	if ck.MemLimitMB > 0 {
		lim := uint64(ck.MemLimitMB) << 20
		syscall.Setrlimit(syscall.RLIMIT_AS, &syscall.Rlimit{Cur: lim, Max: lim})
	}
	runtime.GOMAXPROCS(1)
	c := newCtx(ck, tier, shard, n, seed)
	if outFile != "" {
		c.journal, _ = os.Create(outFile + ".journal")
	}
	ck.Run(c)
	c.res.UnitsSeen = c.unitCounter
	c.res.DistinctN = int64(len(c.distinct))
	c.res.States = int64(len(c.states))
	if outFile != "" {
		c.res.DistFile = outFile + ".dist"
		writeHashes(c.res.DistFile, c.distinct)
		if len(c.states) > 0 {
			c.res.StateFile = outFile + ".states"
			writeHashes(c.res.StateFile, c.states)
		}
	}
	b, _ := json.Marshal(c.res)
	if outFile == "" {
		os.Stdout.Write(b)
		return
	}
	os.WriteFile(outFile+".tmp", b, 0o644)
	os.Rename(outFile+".tmp", outFile)
}

func writeHashes(path string, m map[uint64]struct{}) {
	f, err := os.Create(path)
	if err != nil {
		return
	}
	w := bufio.NewWriterSize(f, 1<<20)
	var buf [8]byte
	for h := range m {
		for i := 0; i < 8; i++ {
			buf[i] = byte(h >> (8 * i))
		}
		w.Write(buf[:])
	}
	w.Flush()
	f.Close()
}

func readHashes(path string, into map[uint64]struct{}) {
	b, err := os.ReadFile(path)
	if err != nil {
		return
	}
	for i := 0; i+8 <= len(b); i += 8 {
		var h uint64
		for j := 0; j < 8; j++ {
			h |= uint64(b[i+j]) << (8 * j)
		}
		into[h] = struct{}{}
	}
}

func runParent(ck *Check, tier string, seed int64, emit bool) int {
	start := time.Now()
	n := ck.Shards
	if n == 0 {
		n = runtime.NumCPU()
		if n > 16 {
			n = 16
		}
	}
	if s := os.Getenv("VERIF_SHARDS"); s != "" {
		if k, err := strconv.Atoi(s); err == nil && k > 0 {
			n = k
		}
	}
	work := filepath.Join(verifDir, ".work", fmt.Sprintf("%s.%d", ck.ID, os.Getpid()))
	os.MkdirAll(work, 0o755)
	defer os.RemoveAll(work)
	self, _ := os.Executable()
	type proc struct {
		cmd *exec.Cmd
		out string
		log string
	}
	procs := make([]proc, n)
	for i := 0; i < n; i++ {
		out := filepath.Join(work, fmt.Sprintf("w%d.json", i))
		logp := filepath.Join(work, fmt.Sprintf("w%d.log", i))
		lf, _ := os.Create(logp)
		cmd := exec.Command(self, ck.ID, tier, "--worker", fmt.Sprintf("%d/%d", i, n), "--out", out)
		cmd.Stdout = lf
		cmd.Stderr = lf
		cmd.Env = append(os.Environ(), "GOTRACEBACK=single")
		if err := cmd.Start(); err != nil {
			fmt.Fprintf(os.Stderr, "HARNESS-ERROR: cannot start worker: %v\n", err)
			return 2
		}
		lf.Close()
		procs[i] = proc{cmd, out, logp}
	}
	merged := &WorkerResult{Classes: map[string]int64{}, Exhaustive: true, Notes: map[string]string{}}
	distinct := map[uint64]struct{}{}
	states := map[uint64]struct{}{}
	var harnessErrs []string
	var crashViol []Violation
	for i, p := range procs {
		err := p.cmd.Wait()
		b, rerr := os.ReadFile(p.out)
		if rerr != nil {
			// worker died without a result
			logb, _ := os.ReadFile(p.log)
			jb, _ := os.ReadFile(p.out + ".journal")
			unit := strings.TrimSpace(string(jb))
			tail := string(logb)
			if len(tail) > 3000 {
				tail = tail[:3000]
			}
			if ck.CrashIsViolation {
				uidx, _ := strconv.ParseInt(unit, 10, 64)
				first := tail
				if k := strings.Index(first, "\n"); k > 0 {
					first = first[:k]
				}
				crashViol = append(crashViol, Violation{Site: "process-crash", Shape: first, Detail: fmt.Sprintf("worker %d died in unit %s: %v\n%s", i, unit, err, tail), Unit: uidx})
				merged.Exhaustive = false
			} else {
				harnessErrs = append(harnessErrs, fmt.Sprintf("worker %d died (unit %s): %v\n%s", i, unit, err, tail))
			}
			continue
		}
		var r WorkerResult
		if jerr := json.Unmarshal(b, &r); jerr != nil {
			harnessErrs = append(harnessErrs, fmt.Sprintf("worker %d: bad result: %v", i, jerr))
			continue
		}
		if r.HarnessErr != "" {
			harnessErrs = append(harnessErrs, fmt.Sprintf("worker %d: %s", i, r.HarnessErr))
		}
		merged.Units += r.Units
		if r.UnitsSeen > merged.UnitsSeen {
			merged.UnitsSeen = r.UnitsSeen
		}
		merged.Evals += r.Evals
		merged.Transitions += r.Transitions
		merged.Traces += r.Traces
		merged.ViolCount += r.ViolCount
		merged.DistinctAdd += r.DistinctAdd
		for k, v := range r.Classes {
			merged.Classes[k] += v
		}
		for k, v := range r.Notes {
			merged.Notes[k] = v
		}
		if len(merged.Samples) < 8 {
			for _, s := range r.Samples {
				if len(merged.Samples) < 8 {
					merged.Samples = append(merged.Samples, s)
				}
			}
		}
		merged.Violations = append(merged.Violations, r.Violations...)
		if !r.Exhaustive {
			merged.Exhaustive = false
		}
		readHashes(r.DistFile, distinct)
		if r.StateFile != "" {
			readHashes(r.StateFile, states)
		}
	}
	merged.Violations = append(merged.Violations, crashViol...)
	merged.ViolCount += int64(len(crashViol))
	if len(harnessErrs) > 0 {
		for _, e := range harnessErrs {
			fmt.Fprintf(os.Stderr, "HARNESS-ERROR: %s\n", e)
		}
		return 2
	}
	// classify violations
	known := loadFindings(filepath.Join(verifDir, "known_findings.jsonl"), ck.Property)
	sort.SliceStable(merged.Violations, func(i, j int) bool {
		a, b := merged.Violations[i], merged.Violations[j]
		if a.Unit != b.Unit {
			return a.Unit < b.Unit
		}
		if a.Site != b.Site {
			return a.Site < b.Site
		}
		return a.Shape < b.Shape
	})
	knownHit := map[string]int{}
	knownBy := map[string]Finding{}
	var fresh []Violation
	freshKeys := map[string]bool{}
	for _, v := range merged.Violations {
		key := v.Site + "\x00" + v.Shape
		if f, fkey, ok := known.match(v.Site, v.Shape); ok {
			knownHit[fkey]++
			knownBy[fkey] = f
			continue
		}
		if !freshKeys[key] {
			freshKeys[key] = true
			fresh = append(fresh, v)
		}
	}
	var knownKeys []string
	for k := range knownHit {
		knownKeys = append(knownKeys, k)
	}
	sort.Strings(knownKeys)
	for _, k := range knownKeys {
		f := knownBy[k]
		shape := f.Shape
		if f.ShapeRe != "" {
			shape = "~" + f.ShapeRe
		}
		fmt.Printf("KNOWN-FINDING: property=%s site=%s shape=%s :: %s\n", ck.Property, f.Site, shape, f.What)
	}
	exit := 0
	if emit {
		for _, v := range fresh {
			b, _ := json.Marshal(Finding{Status: "known", Property: ck.Property, Site: v.Site, Shape: v.Shape, What: firstLine(v.Detail)})
			fmt.Printf("CANDIDATE %s\n", b)
		}
	}
	if len(fresh) > 0 {
		exit = 1
		os.MkdirAll(filepath.Join(replayDir(), "replays", ck.ID), 0o755)
		for i, v := range fresh {
			if i >= 25 {
				fmt.Printf("... and %d more distinct violation classes\n", len(fresh)-i)
				break
			}
			path := filepath.Join(replayDir(), "replays", ck.ID, fmt.Sprintf("%s-%s-u%d-%d.json", ck.ID, tier, v.Unit, i))
			rb, _ := json.MarshalIndent(map[string]interface{}{
				"property": ck.Property, "check": ck.ID, "tier": tier, "seed": seed, "unit": v.Unit,
				"site": v.Site, "shape": v.Shape, "detail": v.Detail,
				"replay_cmd": fmt.Sprintf("/verif/run.sh %s %s --replay %s", ck.ID, tier, path),
			}, "", " ")
			os.WriteFile(path, rb, 0o644)
			fmt.Printf("VIOLATION property=%s replay=%s\n", ck.Property, path)
			fmt.Printf("  site=%s shape=%s\n  %s\n", v.Site, v.Shape, strings.ReplaceAll(v.Detail, "\n", "\n  "))
		}
	}
	wall := time.Since(start).Seconds()
	writeEvidence(ck, tier, seed, merged, len(distinct)+int(merged.DistinctAdd), len(states), len(fresh), knownKeys, wall)
	fmt.Printf("%s %s: units=%d evals=%d distinct=%d states=%d transitions=%d classes=%d violations(new)=%d known-hit=%d exhaustive=%v wall=%.1fs\n",
		ck.ID, tier, merged.Units, merged.Evals, len(distinct)+int(merged.DistinctAdd), len(states), merged.Transitions, len(merged.Classes), len(fresh), len(knownKeys), merged.Exhaustive, wall)
	return exit
}

func firstLine(s string) string {
	if k := strings.Index(s, "\n"); k >= 0 {
		s = s[:k]
	}
	if len(s) > 300 {
		s = s[:300]
	}
	return s
}

func writeEvidence(ck *Check, tier string, seed int64, m *WorkerResult, distinct, states, fresh int, knownKeys []string, wall float64) {
	cov := map[string]interface{}{
		"evaluations":         m.Evals,
		"distinct_nontrivial": distinct,
		"rule":                ck.Rule,
		"exhaustive":          m.Exhaustive,
		"units":               m.Units,
		"outcome_classes":     m.Classes,
		"violations_total":    m.ViolCount,
	}
	samples := make([]interface{}, 0, len(m.Samples))
	for _, s := range m.Samples {
		var v interface{}
		if json.Unmarshal(s, &v) == nil {
			samples = append(samples, v)
		}
	}
	cov["samples"] = samples
	if ck.Level == "model_checking" {
		cov["states"] = states
		cov["transitions"] = m.Transitions
		cov["traces_validated_against_impl"] = m.Traces
	}
	for k, v := range m.Notes {
		cov[k] = v
	}
	kf := []string{}
	for _, k := range knownKeys {
		kf = append(kf, strings.ReplaceAll(k, "\x00", " | "))
	}
	cov["known_findings_hit"] = kf
	ev := map[string]interface{}{
		"property_id": ck.ID,
		"tier":        tier,
		"seed":        seed,
		"level":       ck.Level,
		"coverage":    cov,
		"assumptions": ck.Assumptions,
		"wall_s":      wall,
		"violations":  fresh,
	}
	b, _ := json.MarshalIndent(ev, "", " ")
	os.MkdirAll(filepath.Join(outDir(), "evidence"), 0o755)
	path := filepath.Join(outDir(), "evidence", ck.ID+".json")
	os.WriteFile(path+".tmp", b, 0o644)
	os.Rename(path+".tmp", path)
}

func doReplay(ck *Check, tier, path string) int {
	b, err := os.ReadFile(path)
	if err != nil {
		fmt.Fprintln(os.Stderr, err)
		return 2
	}
	var r struct {
		Unit int64  `json:"unit"`
		Tier string `json:"tier"`
		Seed int64  `json:"seed"`
	}
	if err := json.Unmarshal(b, &r); err != nil {
		fmt.Fprintln(os.Stderr, err)
		return 2
	}
	if r.Tier != "" {
		tier = r.Tier
	}
	c := newCtx(ck, tier, 0, 1, 0)
	c.OnlyUnit = r.Unit
	c.Verbose = true
	c.deadline = time.Now().Add(24 * time.Hour)
	ck.Run(c)
	if c.res.HarnessErr != "" {
		fmt.Fprintf(os.Stderr, "HARNESS-ERROR: %s\n", c.res.HarnessErr)
		return 2
	}
	if c.res.ViolCount > 0 {
		fmt.Printf("VIOLATION property=%s replay=%s\n", ck.Property, path)
		return 1
	}
	fmt.Printf("replay of unit %d: no violation\n", r.Unit)
	return 0
}
