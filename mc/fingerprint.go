package main

import (
	"hash/maphash"
	"math"
	"reflect"
	"sort"
	"strconv"
	"strings"
)

// fingerprint is the raw-memory fingerprint of DESIGN appendix D: a
// deterministic dump of every word reachable from the roots, following
// pointers once (identity = first-visit ordinal, so aliasing between roots is
// part of the fingerprint), slices up to their capacity, maps sorted by key.
// Funcs and unsafe pointers contribute identity only.
type fpSink interface {
	WriteString(string) (int, error)
	WriteByte(byte) error
	Write([]byte) (int, error)
}

type fpState struct {
	ptrs map[uintptr]int
	b    fpSink
	sb   *strings.Builder // set when b is a string builder
	num  [32]byte
	// slack: when false, slice elements between len and cap are omitted
	slack bool
}

func newFpString(slack bool) *fpState {
	sb := &strings.Builder{}
	return &fpState{ptrs: map[uintptr]int{}, slack: slack, b: sb, sb: sb}
}

func fingerprint(slack bool, roots ...interface{}) string {
	st := newFpString(slack)
	for i, r := range roots {
		st.b.WriteByte('#')
		st.int(int64(i))
		st.b.WriteByte(':')
		st.walk(reflect.ValueOf(r), 0)
		st.b.WriteByte('\n')
	}
	return st.sb.String()
}

// fingerprintHash is fingerprint streamed into a hash (same walk, no string is built): for
// large roots that are only ever compared for equality within one process.
func fingerprintHash(slack bool, roots ...interface{}) uint64 {
	h := &maphash.Hash{}
	h.SetSeed(fpSeed)
	st := &fpState{ptrs: map[uintptr]int{}, slack: slack, b: h}
	for i, r := range roots {
		st.b.WriteByte('#')
		st.int(int64(i))
		st.b.WriteByte(':')
		st.walk(reflect.ValueOf(r), 0)
		st.b.WriteByte('\n')
	}
	return h.Sum64()
}

var fpSeed = maphash.MakeSeed()

func (st *fpState) int(i int64)   { st.b.Write(strconv.AppendInt(st.num[:0], i, 10)) }
func (st *fpState) uint(u uint64) { st.b.Write(strconv.AppendUint(st.num[:0], u, 10)) }

func (st *fpState) ptr(p uintptr) (int, bool) {
	if id, ok := st.ptrs[p]; ok {
		return id, true
	}
	id := len(st.ptrs)
	st.ptrs[p] = id
	return id, false
}

func (st *fpState) walk(v reflect.Value, depth int) {
	if depth > 200 {
		st.b.WriteString("<deep>")
		return
	}
	if !v.IsValid() {
		st.b.WriteString("nil")
		return
	}
	switch v.Kind() {
	case reflect.Bool:
		if v.Bool() {
			st.b.WriteByte('T')
		} else {
			st.b.WriteByte('F')
		}
	case reflect.Int, reflect.Int8, reflect.Int16, reflect.Int32, reflect.Int64:
		st.int(v.Int())
	case reflect.Uint, reflect.Uint8, reflect.Uint16, reflect.Uint32, reflect.Uint64, reflect.Uintptr:
		st.uint(v.Uint())
	case reflect.Float32, reflect.Float64:
		st.b.WriteByte('f')
		st.uint(math.Float64bits(v.Float()))
	case reflect.String:
		st.b.WriteByte('"')
		st.int(int64(v.Len()))
		st.b.WriteByte(':')
		st.b.WriteString(v.String())
		st.b.WriteByte('"')
	case reflect.Ptr:
		if v.IsNil() {
			st.b.WriteString("nil")
			return
		}
		id, seen := st.ptr(v.Pointer())
		st.b.WriteByte('&')
		st.int(int64(id))
		if tn := v.Type().String(); strings.HasPrefix(tn, "*reflect.") || strings.HasPrefix(tn, "*abi.") {
			return // Go runtime type descriptors: identity only
		}
		if !seen {
			st.b.WriteByte('(')
			st.walk(v.Elem(), depth+1)
			st.b.WriteByte(')')
		}
	case reflect.Interface:
		if v.IsNil() {
			st.b.WriteString("nil")
			return
		}
		e := v.Elem()
		st.b.WriteString(e.Type().String())
		st.b.WriteByte(':')
		st.walk(e, depth+1)
	case reflect.Struct:
		if isSyncType(v.Type()) {
			// synchronisation objects (mutexes, pools, atomics, sync.Map, the scheduler's shims)
			// change by design and are safe to share: identity only
			st.b.WriteString("<" + v.Type().String() + ">")
			return
		}
		st.b.WriteByte('{')
		for i := 0; i < v.NumField(); i++ {
			if i > 0 {
				st.b.WriteByte(',')
			}
			st.walk(v.Field(i), depth+1)
		}
		st.b.WriteByte('}')
	case reflect.Slice:
		if v.IsNil() {
			st.b.WriteString("nil[]")
			return
		}
		n, c := v.Len(), v.Cap()
		id, seen := -1, false
		if c > 0 {
			id, seen = st.ptr(v.Pointer())
		}
		st.b.WriteByte('[')
		st.int(int64(n))
		st.b.WriteByte('/')
		st.int(int64(c))
		st.b.WriteByte('@')
		st.int(int64(id))
		if !seen || true {
			full := v
			lim := n
			if st.slack && c > n {
				full = v.Slice(0, c)
				lim = c
			}
			for i := 0; i < lim; i++ {
				st.b.WriteByte(' ')
				st.walk(full.Index(i), depth+1)
			}
		}
		st.b.WriteByte(']')
	case reflect.Array:
		st.b.WriteByte('[')
		for i := 0; i < v.Len(); i++ {
			if i > 0 {
				st.b.WriteByte(' ')
			}
			st.walk(v.Index(i), depth+1)
		}
		st.b.WriteByte(']')
	case reflect.Map:
		if v.IsNil() {
			st.b.WriteString("nilmap")
			return
		}
		id, seen := st.ptr(v.Pointer())
		st.b.WriteString("map@")
		st.int(int64(id))
		if seen {
			return
		}
		type kv struct{ k, v string }
		var kvs []kv
		it := v.MapRange()
		for it.Next() {
			// keys are fingerprinted with a private pointer table so that the
			// sort order does not depend on visit order
			ks := newFpString(st.slack)
			ks.walk(it.Key(), depth+1)
			kvs = append(kvs, kv{k: ks.sb.String()})
		}
		sort.Slice(kvs, func(i, j int) bool { return kvs[i].k < kvs[j].k })
		// second pass in sorted order so pointer ordinals are deterministic
		vals := map[string]reflect.Value{}
		it = v.MapRange()
		for it.Next() {
			ks := newFpString(st.slack)
			ks.walk(it.Key(), depth+1)
			vals[ks.sb.String()] = it.Value()
		}
		st.b.WriteByte('{')
		for _, e := range kvs {
			st.b.WriteString(e.k)
			st.b.WriteByte('=')
			st.walk(vals[e.k], depth+1)
			st.b.WriteByte(';')
		}
		st.b.WriteByte('}')
	case reflect.Func, reflect.Chan, reflect.UnsafePointer:
		if v.IsNil() {
			st.b.WriteString("nil")
			return
		}
		id, _ := st.ptr(v.Pointer())
		st.b.WriteString("fn@")
		st.int(int64(id))
	default:
		st.b.WriteString("<" + v.Kind().String() + ">")
	}
}

func isSyncType(t reflect.Type) bool {
	p := t.PkgPath()
	return p == "sync" || p == "sync/atomic" || strings.HasSuffix(p, "/verifsched")
}

// typeHasSync reports whether a value of type t contains a synchronisation object.
func typeHasSync(t reflect.Type, depth int) bool {
	if depth > 6 {
		return false
	}
	switch t.Kind() {
	case reflect.Struct:
		if isSyncType(t) {
			return true
		}
		for i := 0; i < t.NumField(); i++ {
			if typeHasSync(t.Field(i).Type, depth+1) {
				return true
			}
		}
	case reflect.Ptr, reflect.Slice, reflect.Array:
		return typeHasSync(t.Elem(), depth+1)
	case reflect.Map:
		return typeHasSync(t.Elem(), depth+1) || typeHasSync(t.Key(), depth+1)
	}
	return false
}
