package main

import (
	"fmt"
	"math"
	"math/big"
	"sort"
	"strings"

	"github.com/apparentlymart/go-textseg/v15/textseg"
	"github.com/zclconf/go-cty/cty"
)

// ---------------------------------------------------------------------------
// leaf alphabets

// NumSpec names one way of producing a number: value text, mantissa
// precision and constructor.
type NumSpec struct {
	Name string
	Mk   func() cty.Value
}

func parseNum(s string) cty.Value { return cty.MustParseNumberVal(s) }

func numPrec(s string, prec uint) cty.Value {
	f, _, err := big.ParseFloat(s, 10, prec, big.ToNearestEven)
	if err != nil {
		panic(err)
	}
	return cty.NumberVal(f)
}

var pow2 = func(k uint) *big.Int { return new(big.Int).Lsh(big.NewInt(1), k) }

func bigIntNum(i *big.Int) cty.Value {
	return cty.NumberVal(new(big.Float).SetInt(i))
}

// numCore is the quick number alphabet, numFull the thorough one.
var numCore = []NumSpec{
	{"0", func() cty.Value { return cty.NumberIntVal(0) }},
	{"1", func() cty.Value { return cty.NumberIntVal(1) }},
	{"-1", func() cty.Value { return cty.NumberIntVal(-1) }},
	{"2", func() cty.Value { return cty.NumberIntVal(2) }},
	{"3", func() cty.Value { return cty.NumberIntVal(3) }},
	{"0.5", func() cty.Value { return cty.NumberFloatVal(0.5) }},
	{"-0.5", func() cty.Value { return cty.NumberFloatVal(-0.5) }},
	{"0.1@53", func() cty.Value { return cty.NumberFloatVal(0.1) }},
	{"0.1@512", func() cty.Value { return parseNum("0.1") }},
	{"10", func() cty.Value { return cty.NumberIntVal(10) }},
	{"2^53+1", func() cty.Value { return cty.NumberIntVal(1<<53 + 1) }},
	{"2^63", func() cty.Value { return cty.NumberUIntVal(1 << 63) }},
	{"2^64@512", func() cty.Value { return parseNum("18446744073709551616") }},
	{"+Inf", func() cty.Value { return cty.PositiveInfinity }},
	{"-Inf", func() cty.Value { return cty.NegativeInfinity }},
}

var numExtra = []NumSpec{
	{"-0", func() cty.Value { return cty.NumberFloatVal(math.Copysign(0, -1)) }},
	{"1/3@512", func() cty.Value {
		f := new(big.Float).SetPrec(512).Quo(big.NewFloat(1).SetPrec(512), big.NewFloat(3).SetPrec(512))
		return cty.NumberVal(f)
	}},
	{"0.12345678905@53", func() cty.Value { return cty.NumberFloatVal(0.12345678905) }},
	{"0.12345678905@512", func() cty.Value { return parseNum("0.12345678905") }},
	{"1.00000000001", func() cty.Value { return parseNum("1.00000000001") }},
	{"1.00000000002", func() cty.Value { return parseNum("1.00000000002") }},
	{"1.00000000005", func() cty.Value { return parseNum("1.00000000005") }},
	{"2^31-1", func() cty.Value { return cty.NumberIntVal(1<<31 - 1) }},
	{"2^31", func() cty.Value { return cty.NumberIntVal(1 << 31) }},
	{"2^32-1", func() cty.Value { return cty.NumberIntVal(1<<32 - 1) }},
	{"2^32", func() cty.Value { return cty.NumberIntVal(1 << 32) }},
	{"2^53-1", func() cty.Value { return cty.NumberIntVal(1<<53 - 1) }},
	{"2^53", func() cty.Value { return cty.NumberFloatVal(float64(1 << 53)) }},
	{"2^63-1", func() cty.Value { return cty.NumberIntVal(math.MaxInt64) }},
	{"-2^63", func() cty.Value { return cty.NumberIntVal(math.MinInt64) }},
	{"2^64-1", func() cty.Value { return cty.NumberUIntVal(math.MaxUint64) }},
	{"2^64+1@512", func() cty.Value { return parseNum("18446744073709551617") }},
	{"1e20@64", func() cty.Value { return numPrec("100000000000000000000", 64) }},
	{"1e20@512", func() cty.Value { return parseNum("100000000000000000000") }},
	{"1e30", func() cty.Value { return parseNum("1e30") }},
	{"1e-7", func() cty.Value { return parseNum("0.0000001") }},
	{"-2", func() cty.Value { return cty.NumberIntVal(-2) }},
	{"-3", func() cty.Value { return cty.NumberIntVal(-3) }},
	{"7", func() cty.Value { return cty.NumberIntVal(7) }},
	{"2.5", func() cty.Value { return cty.NumberFloatVal(2.5) }},
	{"-2.5", func() cty.Value { return cty.NumberFloatVal(-2.5) }},
	{"maxf32", func() cty.Value { return cty.NumberFloatVal(math.MaxFloat32) }},
	{"maxf64", func() cty.Value { return cty.NumberFloatVal(math.MaxFloat64) }},
	{"2^1024", func() cty.Value { return bigIntNum(pow2(1024)) }},
	{"1.5@24", func() cty.Value { return numPrec("1.5", 24) }},
	// short mantissas with exponents outside (or at the edge of) the float64 range
	{"1.5*2^-1100", func() cty.Value { return cty.NumberVal(new(big.Float).SetMantExp(big.NewFloat(1.5), -1100)) }},
	{"-1.5*2^-1100", func() cty.Value { return cty.NumberVal(new(big.Float).SetMantExp(big.NewFloat(-1.5), -1100)) }},
	{"(2^52+1)*2^-1126", func() cty.Value {
		return cty.NumberVal(new(big.Float).SetMantExp(new(big.Float).SetInt64(1<<52+1), -1126))
	}},
	{"minsubnormal", func() cty.Value { return cty.NumberFloatVal(math.SmallestNonzeroFloat64) }},
	// exactly representable as float64, long decimal expansion, held at the parser's 512 bits
	{"2^-30@512", func() cty.Value { return parseNum("0.000000000931322574615478515625") }},
	{"float64(0.1)exact@512", func() cty.Value { return parseNum("0.1000000000000000055511151231257827021181583404541015625") }},
	{"-(1+2^-40)@512", func() cty.Value { return parseNum("-1.0000000000009094947017729282379150390625") }},
	// negative numbers whose mantissa needs more than 53 bits
	{"-(2^53+1)", func() cty.Value { return cty.NumberIntVal(-(1<<53 + 1)) }},
	{"-0.1@512", func() cty.Value { return parseNum("-0.1") }},
	{"-(2^64+1)@512", func() cty.Value { return parseNum("-18446744073709551617") }},
	{"-1/3@512", func() cty.Value {
		f := new(big.Float).SetPrec(512).Quo(big.NewFloat(-1).SetPrec(512), big.NewFloat(3).SetPrec(512))
		return cty.NumberVal(f)
	}},
	{"1.5*2^1100", func() cty.Value { return cty.NumberVal(new(big.Float).SetMantExp(big.NewFloat(1.5), 1100)) }},
}

func numAlphabet(thorough bool) []NumSpec {
	if thorough {
		return append(append([]NumSpec(nil), numCore...), numExtra...)
	}
	return numCore
}

func mkNums(specs []NumSpec) []cty.Value {
	out := make([]cty.Value, len(specs))
	for i, s := range specs {
		out[i] = s.Mk()
	}
	return out
}

// strAlphabet: strings with normalisation and grapheme-cluster hazards.
var strAlphabet = []string{
	"", "a", "b", "ab", "a,b",
	"e\u0301",                    // NFD e + combining acute (normalises to U+00E9)
	"\u00e9",                     // precomposed
	"\u1100\u1161",               // Hangul L+V jamo (composes to U+AC00)
	"\uac00\u11a8",               // LV syllable + T jamo (composes)
	"\U0001F44D\U0001F3FD",       // thumbs up + skin tone
	"\U0001F468\u200d\U0001F469", // ZWJ sequence
	"\U0001F1E9\U0001F1EA",       // regional indicators
	"\r\n", "-", ":",
}

// ---------------------------------------------------------------------------
// value universes

// ValOpts bounds the generated values.
type ValOpts struct {
	Nums      []cty.Value // top-level number alphabet
	Strs      []string    // top-level string alphabet
	NestNums  []cty.Value
	NestStrs  []string
	Nulls     bool // include null members / null roots
	MaxLen    int  // max collection length (sets: MaxLen+1)
	CapPerTy  int  // cap on number of values per composite type
	NestedCap int  // cap on alphabet used for members
}

func defaultValOpts(thorough bool) ValOpts {
	o := ValOpts{
		Nums:     mkNums(numAlphabet(thorough)),
		Strs:     strAlphabet,
		NestNums: []cty.Value{cty.NumberIntVal(0), cty.NumberIntVal(1), cty.NumberFloatVal(2.5)},
		NestStrs: []string{"a", "b", "e\u0301"},
		Nulls:    true,
		MaxLen:   2,
		CapPerTy: 40,
	}
	if thorough {
		o.CapPerTy = 120
	}
	return o
}

var capsVals = [][]cty.Value{
	{cty.CapsuleVal(capsTypes[0], &capsNative{1}), cty.CapsuleVal(capsTypes[0], &capsNative{2})},
	{cty.CapsuleVal(capsTypes[1], &capsNative{1}), cty.CapsuleVal(capsTypes[1], &capsNative{1}), cty.CapsuleVal(capsTypes[1], &capsNative{2})},
}

// knownValues returns known (possibly null, possibly with null members)
// values of exactly the type t.  t must not contain dynamic placeholders
// except where a null / value of dynamic pseudo-type is acceptable.
func knownValues(t *TS, o ValOpts, top bool) []cty.Value {
	var out []cty.Value
	ty := t.Build()
	switch t.K {
	case 'b':
		out = []cty.Value{cty.True, cty.False}
	case 'n':
		if top {
			out = append(out, o.Nums...)
		} else {
			out = append(out, o.NestNums...)
		}
	case 's':
		strs := o.Strs
		if !top {
			strs = o.NestStrs
		}
		for _, s := range strs {
			out = append(out, cty.StringVal(s))
		}
	case 'd':
		// the only known values of the pseudo-type are nulls
		return []cty.Value{cty.NullVal(cty.DynamicPseudoType)}
	case 'C':
		out = append(out, capsVals[t.Caps]...)
	case 'L', 'S':
		ms := knownValues(t.Elem, o, false)
		if t.K == 'S' {
			ms = dropNulls(ms, false)
		}
		if t.K == 'L' {
			out = append(out, cty.ListValEmpty(t.Elem.Build()))
		} else {
			out = append(out, cty.SetValEmpty(t.Elem.Build()))
		}
		mk := cty.ListVal
		if t.K == 'S' {
			mk = cty.SetVal
		}
		ms = capVals(ms, 4)
		for _, a := range ms {
			out = append(out, mk([]cty.Value{a}))
		}
		if o.MaxLen >= 2 {
			for i, a := range ms {
				for j, b := range ms {
					if t.K == 'S' && j <= i {
						continue
					}
					out = append(out, mk([]cty.Value{a, b}))
				}
			}
		}
		if t.K == 'S' && len(ms) >= 3 {
			out = append(out, mk([]cty.Value{ms[0], ms[1], ms[2]}))
		}
		if t.K == 'L' && o.MaxLen >= 3 && len(ms) >= 2 {
			out = append(out, mk([]cty.Value{ms[0], ms[1], ms[0]}))
		}
	case 'M':
		ms := capVals(knownValues(t.Elem, o, false), 3)
		out = append(out, cty.MapValEmpty(t.Elem.Build()))
		for _, a := range ms {
			out = append(out, cty.MapVal(map[string]cty.Value{"k1": a}))
		}
		for _, a := range ms {
			for _, b := range ms {
				out = append(out, cty.MapVal(map[string]cty.Value{"k1": a, "k2": b}))
			}
		}
		if len(ms) > 0 {
			out = append(out, cty.MapVal(map[string]cty.Value{"e\u0301": ms[0]}))
		}
	case 'T':
		out = productVals(len(t.Elems), func(i int) []cty.Value { return capVals(knownValues(t.Elems[i], o, false), 3) },
			func(vs []cty.Value) cty.Value { return cty.TupleVal(vs) })
	case 'O':
		out = productVals(len(t.Attrs), func(i int) []cty.Value { return capVals(knownValues(t.Attrs[i].T, o, false), 3) },
			func(vs []cty.Value) cty.Value {
				m := map[string]cty.Value{}
				for i, a := range t.Attrs {
					m[a.Name] = vs[i]
				}
				return cty.ObjectVal(m)
			})
	}
	if o.CapPerTy > 0 && t.Depth() > 0 {
		out = capVals(out, o.CapPerTy)
	}
	if o.Nulls {
		out = append(out, cty.NullVal(ty))
	}
	return out
}

func dropNulls(vs []cty.Value, _ bool) []cty.Value {
	return vs // sets may hold nulls; kept
}

func capVals(vs []cty.Value, n int) []cty.Value {
	if len(vs) <= n {
		return vs
	}
	// keep the first n-1 and the last (the null, when present)
	out := append([]cty.Value(nil), vs[:n-1]...)
	return append(out, vs[len(vs)-1])
}

func productVals(n int, alpha func(i int) []cty.Value, mk func([]cty.Value) cty.Value) []cty.Value {
	if n == 0 {
		return []cty.Value{mk(nil)}
	}
	var out []cty.Value
	cur := make([]cty.Value, n)
	var rec func(i int)
	rec = func(i int) {
		if i == n {
			out = append(out, mk(append([]cty.Value(nil), cur...)))
			return
		}
		for _, v := range alpha(i) {
			cur[i] = v
			rec(i + 1)
		}
	}
	rec(0)
	return out
}

// ---------------------------------------------------------------------------
// positions and functional update (checker-side; uses only constructors and
// the element iterator)

// children returns the direct members of a known, non-null, unmarked
// composite value in iteration order, nil otherwise.
func children(v cty.Value) []cty.Value {
	if v.IsMarked() || !v.IsKnown() || v.IsNull() || !v.CanIterateElements() {
		return nil
	}
	var out []cty.Value
	for it := v.ElementIterator(); it.Next(); {
		_, e := it.Element()
		out = append(out, e)
	}
	return out
}

// withChild rebuilds v with its i-th member replaced.  ok=false when the
// replacement cannot be expressed with the public constructors.
func withChild(v cty.Value, i int, nv cty.Value) (ret cty.Value, ok bool) {
	defer func() {
		if r := recover(); r != nil {
			ok = false
		}
	}()
	ty := v.Type()
	switch {
	case ty.IsListType():
		cs := children(v)
		cs[i] = nv
		return cty.ListVal(cs), true
	case ty.IsSetType():
		cs := children(v)
		cs[i] = nv
		return cty.SetVal(cs), true
	case ty.IsTupleType():
		cs := children(v)
		cs[i] = nv
		return cty.TupleVal(cs), true
	case ty.IsMapType(), ty.IsObjectType():
		m := map[string]cty.Value{}
		k := 0
		for it := v.ElementIterator(); it.Next(); k++ {
			key, e := it.Element()
			if k == i {
				e = nv
			}
			m[key.AsString()] = e
		}
		if ty.IsMapType() {
			return cty.MapVal(m), true
		}
		return cty.ObjectVal(m), true
	}
	return cty.NilVal, false
}

// Pos is a path of child indexes.
type Pos []int

func allPositions(v cty.Value, maxDepth int) []Pos {
	var out []Pos
	var rec func(v cty.Value, p Pos, d int)
	rec = func(v cty.Value, p Pos, d int) {
		out = append(out, append(Pos(nil), p...))
		if d == maxDepth {
			return
		}
		for i, c := range children(v) {
			rec(c, append(p, i), d+1)
		}
	}
	rec(v, nil, 0)
	return out
}

func getAt(v cty.Value, p Pos) cty.Value {
	for _, i := range p {
		v = children(v)[i]
	}
	return v
}

func replaceAt(v cty.Value, p Pos, nv cty.Value) (cty.Value, bool) {
	if len(p) == 0 {
		return nv, true
	}
	cs := children(v)
	if p[0] >= len(cs) {
		return cty.NilVal, false
	}
	sub, ok := replaceAt(cs[p[0]], p[1:], nv)
	if !ok {
		return cty.NilVal, false
	}
	return withChild(v, p[0], sub)
}

// ---------------------------------------------------------------------------
// exact numeric helpers

func bf(v cty.Value) *big.Float { return v.AsBigFloat() }

func numCmp(a, b cty.Value) int { return bf(a).Cmp(bf(b)) }

func isInf(v cty.Value) bool { return bf(v).IsInf() }

// numCmpDoc compares two known numbers the way the library documents number
// equality: numbers whose shortest decimal texts agree (0.1 as a float64 and
// "0.1" parsed at 512 bits) are the same number; otherwise exact comparison.
// Used only where the oracle decides membership in a range, so that a bound
// and a member that the library itself treats as equal are not told apart.
func numCmpDoc(a, b cty.Value) int {
	c := numCmp(a, b)
	if c != 0 && docEqNum(bf(a), bf(b)) {
		return 0
	}
	return c
}

// ---------------------------------------------------------------------------
// weakenings: unknowns whose refinements are true of x

func safeRefine(f func() cty.Value) (ret cty.Value, ok bool) {
	defer func() {
		if r := recover(); r != nil {
			ok = false
		}
	}()
	return f(), true
}

// weakeningsOf returns unknown replacements for the known value x whose type
// constraint and refinements admit x (per the reference relation admits).
// full selects the larger refinement alphabet.
func weakeningsOf(x cty.Value, full bool) []cty.Value {
	ty := x.Type()
	if ty == cty.DynamicPseudoType {
		return []cty.Value{cty.DynamicVal}
	}
	var out []cty.Value
	add := func(f func() cty.Value) {
		if v, ok := safeRefine(f); ok && !v.IsKnown() {
			out = append(out, v)
		}
	}
	out = append(out, cty.UnknownVal(ty))
	if x.IsNull() {
		// a null is admitted by every unknown not refined as non-null: bounds, prefix and
		// length refinements apply "only if the value turns out not to be null"
		// (value_range.go), so a nullable unknown carrying them is a valid weakening
		switch {
		case ty == cty.Number:
			add(func() cty.Value {
				return cty.UnknownVal(ty).Refine().NumberRangeLowerBound(cty.NumberIntVal(100), true).NewValue()
			})
			// a second one whose numeric range is disjoint from the first: two nulls weakened to
			// these stay equal although no number is in both ranges
			add(func() cty.Value {
				return cty.UnknownVal(ty).Refine().NumberRangeUpperBound(cty.NumberIntVal(-100), true).NewValue()
			})
			if full {
				add(func() cty.Value {
					return cty.UnknownVal(ty).Refine().NumberRangeLowerBound(cty.Zero, false).NumberRangeUpperBound(cty.NumberIntVal(1), false).NewValue()
				})
			}
		case ty == cty.String:
			add(func() cty.Value { return cty.UnknownVal(ty).Refine().StringPrefixFull("zq").NewValue() })
			add(func() cty.Value { return cty.UnknownVal(ty).Refine().StringPrefixFull("yy").NewValue() })
		case ty.IsCollectionType():
			add(func() cty.Value { return cty.UnknownVal(ty).Refine().CollectionLengthLowerBound(5).NewValue() })
			add(func() cty.Value { return cty.UnknownVal(ty).Refine().CollectionLengthUpperBound(0).NewValue() })
		}
		return dedupRaw(out)
	}
	add(func() cty.Value { return cty.UnknownVal(ty).RefineNotNull() })
	switch {
	case ty == cty.Number:
		type bnd struct {
			v   cty.Value
			inc bool
		}
		var los, his []bnd
		los = append(los, bnd{x, true})
		his = append(his, bnd{x, true})
		if !isInf(x) {
			one := cty.NumberIntVal(1)
			xm, xp := x.Subtract(one), x.Add(one)
			if numCmp(xm, x) < 0 {
				los = append(los, bnd{xm, false})
				if full {
					los = append(los, bnd{xm, true})
				}
			}
			if numCmp(xp, x) > 0 {
				his = append(his, bnd{xp, false})
				if full {
					his = append(his, bnd{xp, true})
				}
			}
			zero := cty.Zero
			switch c := numCmp(x, zero); {
			case c > 0:
				los = append(los, bnd{zero, false})
				if full {
					los = append(los, bnd{zero, true})
				}
			case c < 0:
				his = append(his, bnd{zero, false})
				if full {
					his = append(his, bnd{zero, true})
				}
			}
		}
		for _, nn := range []bool{true, false} {
			base := func() *cty.RefinementBuilder {
				b := cty.UnknownVal(ty).Refine()
				if nn {
					b = b.NotNull()
				}
				return b
			}
			for _, lo := range los {
				lo := lo
				add(func() cty.Value { return base().NumberRangeLowerBound(lo.v, lo.inc).NewValue() })
			}
			for _, hi := range his {
				hi := hi
				add(func() cty.Value { return base().NumberRangeUpperBound(hi.v, hi.inc).NewValue() })
			}
			for li, lo := range los {
				for hi_, hi := range his {
					if !full && li > 1 && hi_ > 1 {
						continue
					}
					lo, hi := lo, hi
					add(func() cty.Value {
						return base().NumberRangeLowerBound(lo.v, lo.inc).NumberRangeUpperBound(hi.v, hi.inc).NewValue()
					})
				}
			}
		}
		// the same constraints stated in two steps, on one builder and by refining the refined
		// value again, tight after loose and loose after tight: on a faithful builder these are the
		// one-step values (and disappear in dedupRaw); every stated constraint is true of x
		if !isInf(x) && len(los) > 1 && len(his) > 1 {
			xm, xp := los[1].v, his[1].v
			two := func(first, second func(b *cty.RefinementBuilder) *cty.RefinementBuilder) {
				add(func() cty.Value { return second(first(cty.UnknownVal(ty).Refine())).NewValue() })
				add(func() cty.Value { return second(first(cty.UnknownVal(ty).Refine()).NewValue().Refine()).NewValue() })
			}
			loT := func(b *cty.RefinementBuilder) *cty.RefinementBuilder { return b.NumberRangeLowerBound(x, true) }
			loL := func(b *cty.RefinementBuilder) *cty.RefinementBuilder { return b.NumberRangeLowerBound(xm, false) }
			hiT := func(b *cty.RefinementBuilder) *cty.RefinementBuilder { return b.NumberRangeUpperBound(x, true) }
			hiL := func(b *cty.RefinementBuilder) *cty.RefinementBuilder { return b.NumberRangeUpperBound(xp, false) }
			two(loL, loT)
			two(loT, loL)
			two(hiL, hiT)
			two(hiT, hiL)
			two(loL, hiT)
			two(hiL, loT)
		}
	case ty == cty.String:
		s := x.AsString()
		seen := map[string]bool{"": true}
		// only prefixes ending on a grapheme-cluster boundary of x: the full
		// prefix form is a caller's promise that the string continues with a
		// new cluster
		ends := clusterEnds(s)
		if len(ends) > 24 {
			// long strings: the first prefixes, the last ones, and those next to the sizes at
			// which encoders truncate or buffers refill
			keep := map[int]bool{}
			for k := 0; k < 8; k++ {
				keep[ends[k]] = true
				keep[ends[len(ends)-1-k/2]] = true
			}
			for _, at := range []int{255, 256, 257, 1023, 1024, 4095, 4096, 65535, 65536} {
				for _, e := range ends {
					if e >= at {
						keep[e] = true
						break
					}
				}
			}
			var sel []int
			for _, e := range ends {
				if keep[e] {
					sel = append(sel, e)
				}
			}
			ends = sel
		}
		for _, i := range ends {
			p := s[:i]
			if cty.NormalizeString(p) != p || seen[p] {
				continue
			}
			seen[p] = true
			for _, nn := range []bool{true, false} {
				p, nn := p, nn
				add(func() cty.Value {
					b := cty.UnknownVal(ty).Refine()
					if nn {
						b = b.NotNull()
					}
					v := b.StringPrefixFull(p).NewValue()
					if v.Range().StringPrefix() != p {
						panic("prefix not stored unchanged")
					}
					return v
				})
			}
		}
	case ty.IsCollectionType():
		n := x.LengthInt()
		los := []int{n}
		if n > 0 {
			los = append(los, n-1)
			if full && n > 1 {
				los = append(los, 0)
			}
		}
		his := []int{n, n + 1}
		if full {
			his = append(his, n+3)
		}
		for _, nn := range []bool{true, false} {
			nn := nn
			base := func() *cty.RefinementBuilder {
				b := cty.UnknownVal(ty).Refine()
				if nn {
					b = b.NotNull()
				}
				return b
			}
			for _, lo := range los {
				lo := lo
				if lo > 0 {
					add(func() cty.Value { return base().CollectionLengthLowerBound(lo).NewValue() })
				}
				for _, hi := range his {
					hi := hi
					add(func() cty.Value {
						return base().CollectionLengthLowerBound(lo).CollectionLengthUpperBound(hi).NewValue()
					})
				}
			}
			for _, hi := range his {
				hi := hi
				add(func() cty.Value { return base().CollectionLengthUpperBound(hi).NewValue() })
			}
		}
		// two-step statements of the same constraints (see the number case)
		add(func() cty.Value {
			return cty.UnknownVal(ty).Refine().CollectionLengthUpperBound(n + 1).NewValue().Refine().CollectionLengthUpperBound(n).NewValue()
		})
		add(func() cty.Value {
			return cty.UnknownVal(ty).Refine().CollectionLengthUpperBound(n).CollectionLengthUpperBound(n + 1).NewValue()
		})
		if n > 0 {
			add(func() cty.Value {
				return cty.UnknownVal(ty).Refine().CollectionLengthLowerBound(n - 1).NewValue().Refine().CollectionLengthLowerBound(n).NewValue()
			})
			add(func() cty.Value {
				return cty.UnknownVal(ty).Refine().CollectionLengthLowerBound(n).CollectionLengthLowerBound(n - 1).NewValue()
			})
		}
	}
	return dedupRaw(out)
}

func dedupRaw(vs []cty.Value) []cty.Value {
	var out []cty.Value
	seen := map[string]bool{}
	for _, v := range vs {
		k := v.GoString()
		if !seen[k] {
			seen[k] = true
			out = append(out, v)
		}
	}
	return out
}

// Weakened is one weakening of an operand: the weakened value and a
// description of what was replaced.
type Weakened struct {
	V    cty.Value
	Desc string
	N    int // number of positions replaced
	// Alts are other wholly known values the weakened value admits besides
	// the one it was derived from (the replaced part swapped for other
	// members of the leaf alphabets that satisfy the refinements); only for
	// single-position weakenings.
	Alts []cty.Value
}

// altLeaves returns a few wholly known values of type ty used as alternative
// concretisations of an unknown of that type.
func altLeaves(ty cty.Type) []cty.Value {
	switch {
	case ty == cty.Number:
		return []cty.Value{cty.NumberIntVal(0), cty.NumberIntVal(1), cty.NumberIntVal(2), cty.NumberIntVal(-1), cty.NumberFloatVal(2.5), cty.NumberFloatVal(0.5)}
	case ty == cty.String:
		return []cty.Value{cty.StringVal("a"), cty.StringVal("b"), cty.StringVal(""), cty.StringVal("ab"), cty.StringVal("\u00e9")}
	case ty == cty.Bool:
		return []cty.Value{cty.True, cty.False}
	case ty.IsListType() || ty.IsSetType():
		ety := ty.ElementType()
		out := []cty.Value{mkColl(ty, nil)}
		es := altLeaves(ety)
		if len(es) >= 2 {
			out = append(out, mkColl(ty, es[:1]), mkColl(ty, es[:2]), mkColl(ty, es[1:2]))
		}
		return out
	case ty.IsMapType():
		out := []cty.Value{cty.MapValEmpty(ty.ElementType())}
		es := altLeaves(ty.ElementType())
		if len(es) >= 2 {
			out = append(out, cty.MapVal(map[string]cty.Value{"k1": es[0]}), cty.MapVal(map[string]cty.Value{"k1": es[1], "k2": es[0]}))
		}
		return out
	case ty.IsTupleType():
		var alts [][]cty.Value
		for _, et := range ty.TupleElementTypes() {
			a := altLeaves(et)
			if len(a) == 0 {
				return nil
			}
			alts = append(alts, a)
		}
		var out []cty.Value
		for k := 0; k < 2; k++ {
			ms := make([]cty.Value, len(alts))
			for i, a := range alts {
				ms[i] = a[k%len(a)]
			}
			out = append(out, cty.TupleVal(ms))
		}
		return out
	case ty.IsObjectType():
		out := []cty.Value{}
		for k := 0; k < 2; k++ {
			m := map[string]cty.Value{}
			for n, at := range ty.AttributeTypes() {
				a := altLeaves(at)
				if len(a) == 0 {
					return nil
				}
				m[n] = a[k%len(a)]
			}
			out = append(out, cty.ObjectVal(m))
		}
		return out
	}
	return nil
}

// altConcretisations returns up to max values obtained from v by replacing
// the member at p (currently x) by other leaves that w admits.
func altConcretisations(v cty.Value, p Pos, x, w cty.Value, max int) []cty.Value {
	var out []cty.Value
	if w.Type() == cty.DynamicPseudoType {
		return nil
	}
	for _, a := range altLeaves(x.Type()) {
		if len(out) >= max {
			break
		}
		if a.RawEquals(x) {
			continue
		}
		if ok, _ := admits(w, a); !ok {
			continue
		}
		if nv, ok := replaceAt(v, p, a); ok {
			out = append(out, nv)
		}
	}
	return out
}

// weakenValue enumerates all weakenings of v with at most k replaced
// positions (k in 0..2); position depth is bounded by maxDepth.  Known
// partially-collapsed results of the builder (e.g. a known list of unknown
// members) are kept: they also admit v.  The identity (0 replacements) is not
// included.
// weakenAlts is the number of alternative concretisations attached to each
// single-position weakening (0 = none); set by the checks that use them.
var weakenAlts = 0

func weakenValue(v cty.Value, k int, full bool, maxDepth int) []Weakened {
	if k <= 0 {
		return nil
	}
	poss := allPositions(v, maxDepth)
	var out []Weakened
	type single struct {
		p Pos
		w cty.Value
	}
	var singles []single
	for _, p := range poss {
		x := getAt(v, p)
		if !x.IsKnown() {
			continue
		}
		for _, w := range weakeningsOf(x, full) {
			if len(p) > 0 && w.Type() == cty.DynamicPseudoType && x.Type() != cty.DynamicPseudoType {
				continue
			}
			nv, ok := replaceAt(v, p, w)
			if !ok {
				continue
			}
			singles = append(singles, single{p, w})
			wk := Weakened{V: nv, Desc: fmt.Sprintf("%v:=%#v", []int(p), w), N: 1}
			if weakenAlts > 0 {
				wk.Alts = altConcretisations(v, p, x, w, weakenAlts)
			}
			out = append(out, wk)
		}
		if len(p) == 0 && v.Type() != cty.DynamicPseudoType {
			out = append(out, Weakened{V: cty.DynamicVal, Desc: "[]:=cty.DynamicVal", N: 1})
		}
	}
	if k >= 2 {
		for i, a := range singles {
			for _, b := range singles[i+1:] {
				if isPrefix(a.p, b.p) || isPrefix(b.p, a.p) {
					continue
				}
				nv, ok := replaceAt(v, a.p, a.w)
				if !ok {
					continue
				}
				// sets may re-order / coalesce after the first replacement, so
				// positions inside sets are only combined when the path still
				// addresses a value RawEqual to the original member
				if !stillAddresses(v, nv, b.p) {
					continue
				}
				nv2, ok := replaceAt(nv, b.p, b.w)
				if !ok {
					continue
				}
				out = append(out, Weakened{V: nv2, Desc: fmt.Sprintf("%v:=%#v;%v:=%#v", []int(a.p), a.w, []int(b.p), b.w), N: 2})
			}
		}
	}
	return out
}

func stillAddresses(orig, now cty.Value, p Pos) (ok bool) {
	defer func() {
		if r := recover(); r != nil {
			ok = false
		}
	}()
	a, b := orig, now
	for _, i := range p {
		ca, cb := children(a), children(b)
		if i >= len(ca) || i >= len(cb) || len(ca) != len(cb) {
			return false
		}
		a, b = ca[i], cb[i]
	}
	return a.RawEquals(b)
}

func isPrefix(a, b Pos) bool {
	if len(a) > len(b) {
		return false
	}
	for i := range a {
		if a[i] != b[i] {
			return false
		}
	}
	return true
}

// ---------------------------------------------------------------------------
// the concretisation relation (DESIGN appendix A)

// admits reports whether the (possibly unknown / partially unknown) value A
// admits the wholly known value c.  why describes the first failing clause.
func admits(A, c cty.Value) (ok bool, why string) {
	defer func() {
		if r := recover(); r != nil {
			ok, why = false, fmt.Sprintf("accessor panic while reading abstract value: %v", r)
		}
	}()
	A, _ = A.UnmarkDeep()
	c, _ = c.UnmarkDeep()
	return admits1(A, c, "")
}

func admits1(A, c cty.Value, path string) (bool, string) {
	at, ct := tsOf(A.Type()), tsOf(c.Type())
	if !refConforms(ct, at) {
		return false, fmt.Sprintf("%s: type %#v does not conform to abstract type constraint %#v", path, c.Type(), A.Type())
	}
	if !A.IsKnown() {
		r := A.Range()
		if c.IsNull() {
			if !r.CouldBeNull() {
				return false, path + ": abstract result excludes null but concrete result is null"
			}
			return true, ""
		}
		aty := A.Type()
		switch {
		case aty == cty.Number:
			lo, loInc := r.NumberLowerBound()
			hi, hiInc := r.NumberUpperBound()
			// -Inf as lower / +Inf as upper bound is the accessor's way of saying "unbounded"
			if lo.IsKnown() && !lo.IsNull() && !(isInf(lo) && bf(lo).Sign() < 0) {
				cmp := numCmpDoc(c, lo)
				if cmp < 0 || (cmp == 0 && !loInc) {
					return false, fmt.Sprintf("%s: lower bound %#v (inclusive=%v) excludes %#v", path, lo, loInc, c)
				}
			}
			if hi.IsKnown() && !hi.IsNull() && !(isInf(hi) && bf(hi).Sign() > 0) {
				cmp := numCmpDoc(c, hi)
				if cmp > 0 || (cmp == 0 && !hiInc) {
					return false, fmt.Sprintf("%s: upper bound %#v (inclusive=%v) excludes %#v", path, hi, hiInc, c)
				}
			}
		case aty == cty.String:
			if p := r.StringPrefix(); !strings.HasPrefix(c.AsString(), p) {
				return false, fmt.Sprintf("%s: prefix %q excludes %q", path, p, c.AsString())
			}
		case aty.IsCollectionType():
			n := c.LengthInt()
			if n < r.LengthLowerBound() || n > r.LengthUpperBound() {
				return false, fmt.Sprintf("%s: length bounds [%d,%d] exclude length %d", path, r.LengthLowerBound(), r.LengthUpperBound(), n)
			}
		}
		return true, ""
	}
	if A.IsNull() {
		if !c.IsNull() {
			return false, path + ": abstract result is null, concrete is not"
		}
		return true, ""
	}
	if c.IsNull() {
		return false, path + ": abstract result is a known non-null value, concrete is null"
	}
	aty := A.Type()
	switch {
	case aty == cty.Number:
		if numCmp(A, c) != 0 && !A.RawEquals(c) {
			return false, fmt.Sprintf("%s: known %#v differs from %#v", path, A, c)
		}
	case aty == cty.String:
		if A.AsString() != c.AsString() {
			return false, fmt.Sprintf("%s: known %#v differs from %#v", path, A, c)
		}
	case aty == cty.Bool:
		if A.True() != c.True() {
			return false, fmt.Sprintf("%s: known %#v differs from %#v", path, A, c)
		}
	case aty.IsCapsuleType():
		if !A.RawEquals(c) {
			return false, fmt.Sprintf("%s: capsule values differ", path)
		}
	case aty.IsListType(), aty.IsTupleType():
		ac, cc := children(A), children(c)
		if len(ac) != len(cc) {
			return false, fmt.Sprintf("%s: length %d vs %d", path, len(ac), len(cc))
		}
		for i := range ac {
			if ok, why := admits1(ac[i], cc[i], fmt.Sprintf("%s[%d]", path, i)); !ok {
				return false, why
			}
		}
	case aty.IsMapType(), aty.IsObjectType():
		am, cm := A.AsValueMap(), c.AsValueMap()
		if len(am) != len(cm) {
			return false, fmt.Sprintf("%s: key sets differ", path)
		}
		keys := make([]string, 0, len(am))
		for k := range am {
			keys = append(keys, k)
		}
		sort.Strings(keys)
		for _, k := range keys {
			cv, ok := cm[k]
			if !ok {
				return false, fmt.Sprintf("%s: key %q missing in concrete value", path, k)
			}
			if ok, why := admits1(am[k], cv, path+"."+k); !ok {
				return false, why
			}
		}
	case aty.IsSetType():
		ac, cc := children(A), children(c)
		if !setAdmits(ac, cc) {
			return false, fmt.Sprintf("%s: no onto member-wise admitting assignment from %#v to %#v", path, A, c)
		}
	}
	return true, ""
}

// setAdmits: exists f: members(A) -> members(c), onto, with admits(a, f(a)).
func setAdmits(as, cs []cty.Value) bool {
	if len(cs) > len(as) {
		return false
	}
	if len(as) == 0 {
		return len(cs) == 0
	}
	if len(as) > 6 {
		return true // beyond the brute-force bound: not decided (never an alarm)
	}
	used := make([]int, len(cs))
	var rec func(i int) bool
	rec = func(i int) bool {
		if i == len(as) {
			for _, u := range used {
				if u == 0 {
					return false
				}
			}
			return true
		}
		for j := range cs {
			if ok, _ := admits1(as[i], cs[j], ""); ok {
				used[j]++
				if rec(i + 1) {
					return true
				}
				used[j]--
			}
		}
		return false
	}
	return rec(0)
}

// semEq is RawEquals up to the representation of unknown values: two
// unknowns of the same type with the same marks are the same value when their
// reported ranges agree (an absent refinement record and an empty one are not
// distinguished).
func semEq(a, b cty.Value) (eq bool) {
	defer func() {
		if r := recover(); r != nil {
			eq = false
		}
	}()
	if rawEq(a, b) {
		return true
	}
	if !a.Type().Equals(b.Type()) || marksStr(rootMarks(a)) != marksStr(rootMarks(b)) {
		return false
	}
	a, _ = a.Unmark()
	b, _ = b.Unmark()
	if a.IsKnown() != b.IsKnown() {
		return false
	}
	if !a.IsKnown() {
		ra, rb := a.Range(), b.Range()
		if ra.CouldBeNull() != rb.CouldBeNull() {
			return false
		}
		ty := a.Type()
		switch {
		case ty == cty.Number:
			al, ai := ra.NumberLowerBound()
			bl, bi := rb.NumberLowerBound()
			ah, ahi := ra.NumberUpperBound()
			bh, bhi := rb.NumberUpperBound()
			return rawEq(al, bl) && rawEq(ah, bh) && (ai == bi || isInf(al)) && (ahi == bhi || isInf(ah))
		case ty == cty.String:
			return ra.StringPrefix() == rb.StringPrefix()
		case ty.IsCollectionType():
			return ra.LengthLowerBound() == rb.LengthLowerBound() && ra.LengthUpperBound() == rb.LengthUpperBound()
		}
		return true
	}
	if a.IsNull() || b.IsNull() {
		return a.IsNull() && b.IsNull()
	}
	ca, cb := children(a), children(b)
	if ca == nil || len(ca) != len(cb) {
		return false
	}
	if a.Type().IsMapType() || a.Type().IsObjectType() {
		ma, mb := a.AsValueMap(), b.AsValueMap()
		for k, va := range ma {
			vb, ok := mb[k]
			if !ok || !semEq(va, vb) {
				return false
			}
		}
		return true
	}
	for i := range ca {
		if !semEq(ca[i], cb[i]) {
			return false
		}
	}
	return true
}

// whollyKnownRef is the checker's own wholly-known test (does not rely on
// IsWhollyKnown).
func whollyKnownRef(v cty.Value) bool {
	v, _ = v.UnmarkDeep()
	if !v.IsKnown() {
		return false
	}
	if v.IsNull() {
		return true
	}
	for _, c := range children(v) {
		if !whollyKnownRef(c) {
			return false
		}
	}
	return true
}

func goStr(v cty.Value) (s string) {
	defer func() {
		if r := recover(); r != nil {
			s = fmt.Sprintf("<GoString panic: %v>", r)
		}
	}()
	if v == cty.NilVal {
		return "cty.NilVal"
	}
	if !v.ContainsMarked() {
		return v.GoString()
	}
	// deterministic rendering of marked values (the library prints mark sets
	// in map order)
	inner, marks := v.Unmark()
	var ms []string
	for m := range marks {
		ms = append(ms, fmt.Sprintf("%#v", m))
	}
	sort.Strings(ms)
	suffix := ""
	if len(ms) > 0 {
		suffix = ".WithMarks(" + strings.Join(ms, ",") + ")"
	}
	if !inner.ContainsMarked() {
		return inner.GoString() + suffix
	}
	var parts []string
	if inner.Type().IsMapType() || inner.Type().IsObjectType() {
		for it := inner.ElementIterator(); it.Next(); {
			k, e := it.Element()
			parts = append(parts, fmt.Sprintf("%q:%s", k.AsString(), goStr(e)))
		}
	} else {
		for _, c := range children(inner) {
			parts = append(parts, goStr(c))
		}
	}
	return fmt.Sprintf("%s{%s}%s", tsOf(inner.Type()).Canon(), strings.Join(parts, ", "), suffix)
}

// shapeOf gives a compact class description of a value for known-finding
// shapes: type, knownness, refinement kinds, leaf class.
func shapeOf(v cty.Value) (s string) {
	defer func() {
		if r := recover(); r != nil {
			s = "?"
		}
	}()
	marks := ""
	if v.IsMarked() {
		v, _ = v.Unmark()
		marks = "^"
	}
	ty := v.Type()
	tn := tsOf(ty).Canon()
	switch {
	case !v.IsKnown():
		if ty == cty.DynamicPseudoType {
			return marks + "dynunk"
		}
		r := v.Range()
		s := marks + "unk(" + tn
		if !r.CouldBeNull() {
			s += ",nn"
		}
		switch {
		case ty == cty.Number:
			lo, _ := r.NumberLowerBound()
			hi, _ := r.NumberUpperBound()
			if lo.IsKnown() && !(isInf(lo)) {
				s += ",lo"
			} else if lo.IsKnown() && bf(lo).Sign() > 0 {
				s += ",lo+inf"
			}
			if hi.IsKnown() && !(isInf(hi)) {
				s += ",hi"
			} else if hi.IsKnown() && bf(hi).Sign() < 0 {
				s += ",hi-inf"
			}
		case ty == cty.String:
			if r.StringPrefix() != "" {
				s += ",pfx"
			}
		case ty.IsCollectionType():
			if r.LengthLowerBound() > 0 {
				s += ",minlen"
			}
			if r.LengthUpperBound() != math.MaxInt {
				s += ",maxlen"
			}
		}
		return s + ")"
	case v.IsNull():
		return marks + "null(" + tn + ")"
	case ty == cty.Number:
		return marks + "num:" + numClass(v)
	case ty == cty.String:
		return marks + "str"
	case ty == cty.Bool:
		return marks + "bool"
	case ty.IsCapsuleType():
		return marks + "caps"
	}
	var parts []string
	for _, c := range children(v) {
		parts = append(parts, shapeOf(c))
	}
	kind := string(tsOf(ty).K)
	return marks + kind + "[" + strings.Join(parts, ",") + "]"
}

func b2i(b bool) string {
	if b {
		return "i"
	}
	return "x"
}

func numClass(v cty.Value) string {
	f := bf(v)
	switch {
	case f.IsInf():
		if f.Sign() > 0 {
			return "+inf"
		}
		return "-inf"
	case f.Sign() == 0:
		if f.Signbit() {
			return "negzero"
		}
		return "zero"
	}
	s := ""
	if f.Sign() < 0 {
		s = "neg"
	}
	if !f.IsInt() {
		return fmt.Sprintf("%sfrac@%d", s, f.Prec())
	}
	abs := new(big.Float).Abs(f)
	if abs.Cmp(big.NewFloat(1<<53)) > 0 {
		return s + "huge"
	}
	return s + "int"
}

func strClass(s string) string {
	if s == "" {
		return "empty"
	}
	for _, r := range s {
		if r > 127 {
			return "nonascii"
		}
	}
	return "ascii"
}

// clusterEnds returns the byte offsets at which a grapheme cluster of s ends
// (textseg is the trusted definition of a cluster).
func clusterEnds(s string) []int {
	var out []int
	b := []byte(s)
	off := 0
	for len(b) > 0 {
		adv, _, err := textseg.ScanGraphemeClusters(b, true)
		if err != nil || adv == 0 {
			break
		}
		off += adv
		out = append(out, off)
		b = b[adv:]
	}
	return out
}

// numSpellings returns, for every finite number given, the same or a documented-equal number
// held differently: re-rounded to 64 and 2048 bits of mantissa (exact when the precision
// grows), passed through an arithmetic identity (x+0, x*1, which widen float-derived numbers),
// and its own shortest decimal text parsed again at the parser's 512 bits.  Equality, hashing
// and set membership must treat every group alike wherever Equals says the members are equal.
func numSpellings(base []cty.Value) []cty.Value {
	var out []cty.Value
	for _, v := range base {
		if v.IsNull() || !v.IsKnown() || v.Type() != cty.Number || isInf(v) {
			continue
		}
		f := bf(v)
		out = append(out,
			cty.NumberVal(new(big.Float).SetPrec(64).Set(f)),
			cty.NumberVal(new(big.Float).SetPrec(2048).Set(f)),
			v.Add(cty.NumberIntVal(0)), v.Multiply(cty.NumberIntVal(1)))
		if txt := f.Text('f', -1); len(txt) < 1500 {
			if p, err := cty.ParseNumberVal(txt); err == nil {
				out = append(out, p)
			}
		}
		if f.IsInt() {
			// whole numbers: also at the 53 bits a float-derived computation carries
			out = append(out, cty.NumberVal(new(big.Float).SetPrec(53).Set(f)))
		}
	}
	return dedupRaw(out)
}
