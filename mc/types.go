package main

import (
	"reflect"
	"sort"
	"strings"

	"github.com/zclconf/go-cty/cty"
	"golang.org/x/text/unicode/norm"
)

// TS is the checker's own structural model of a cty type ("type spec").
// Everything the reference semantics says about types is computed on TS,
// never by asking the library.
type TS struct {
	K     byte // b n s d (dynamic) L S M T O C
	Elem  *TS
	Elems []*TS
	Attrs []TAttr // sorted by normalised name
	Caps  int
}

// TAttr is one object attribute in a TS.
type TAttr struct {
	Name string // as spelled (may be NFD); the model identity is the NFC form
	T    *TS
	Opt  bool
}

var (
	tsBool   = &TS{K: 'b'}
	tsNum    = &TS{K: 'n'}
	tsStr    = &TS{K: 's'}
	tsDyn    = &TS{K: 'd'}
	tsCaps0  = &TS{K: 'C', Caps: 0}
	tsCaps1  = &TS{K: 'C', Caps: 1}
	tsPrims  = []*TS{tsBool, tsNum, tsStr}
	tsLeaves = []*TS{tsBool, tsNum, tsStr, tsDyn}
)

type capsNative struct{ N int }

// Two capsule types: one plain, one with RawEquals/HashKey/Equals ops.
var capsTypes = []cty.Type{
	cty.Capsule("capA", reflect.TypeOf(capsNative{})),
	cty.CapsuleWithOps("capB", reflect.TypeOf(capsNative{}), &cty.CapsuleOps{
		RawEquals: func(a, b interface{}) bool { return a.(*capsNative).N == b.(*capsNative).N },
		HashKey:   func(v interface{}) string { return "capB" + string(rune('0'+v.(*capsNative).N)) },
	}),
}

func tList(e *TS) *TS { return &TS{K: 'L', Elem: e} }
func tSet(e *TS) *TS  { return &TS{K: 'S', Elem: e} }
func tMap(e *TS) *TS  { return &TS{K: 'M', Elem: e} }
func tTuple(es ...*TS) *TS {
	return &TS{K: 'T', Elems: es}
}
func tObj(attrs ...TAttr) *TS {
	as := append([]TAttr(nil), attrs...)
	sort.Slice(as, func(i, j int) bool { return nfc(as[i].Name) < nfc(as[j].Name) })
	return &TS{K: 'O', Attrs: as}
}
func at(name string, t *TS) TAttr  { return TAttr{Name: name, T: t} }
func ato(name string, t *TS) TAttr { return TAttr{Name: name, T: t, Opt: true} }

func nfc(s string) string { return norm.NFC.String(s) }

// Build constructs the real cty.Type through the public constructors.  Each
// call builds fresh instances (no sharing with earlier calls).
func (t *TS) Build() cty.Type {
	switch t.K {
	case 'b':
		return cty.Bool
	case 'n':
		return cty.Number
	case 's':
		return cty.String
	case 'd':
		return cty.DynamicPseudoType
	case 'L':
		return cty.List(t.Elem.Build())
	case 'S':
		return cty.Set(t.Elem.Build())
	case 'M':
		return cty.Map(t.Elem.Build())
	case 'T':
		es := make([]cty.Type, len(t.Elems))
		for i, e := range t.Elems {
			es[i] = e.Build()
		}
		return cty.Tuple(es)
	case 'O':
		m := make(map[string]cty.Type, len(t.Attrs))
		var opt []string
		for _, a := range t.Attrs {
			m[a.Name] = a.T.Build()
			if a.Opt {
				opt = append(opt, a.Name)
			}
		}
		if len(opt) > 0 {
			return cty.ObjectWithOptionalAttrs(m, opt)
		}
		return cty.Object(m)
	case 'C':
		return capsTypes[t.Caps]
	}
	panic("bad TS")
}

// BuildAlt constructs the same type by other routes than Build: objects without optional
// attributes through ObjectWithOptionalAttrs with an empty (non-nil) optional list, optional
// lists in reverse order, element-type slices with spare capacity.  Structurally identical
// types are the same type however they were constructed.
func (t *TS) BuildAlt() cty.Type {
	switch t.K {
	case 'L':
		return cty.List(t.Elem.BuildAlt())
	case 'S':
		return cty.Set(t.Elem.BuildAlt())
	case 'M':
		return cty.Map(t.Elem.BuildAlt())
	case 'T':
		es := make([]cty.Type, len(t.Elems), len(t.Elems)+3)
		for i, e := range t.Elems {
			es[i] = e.BuildAlt()
		}
		return cty.Tuple(es)
	case 'O':
		m := make(map[string]cty.Type, len(t.Attrs)+2)
		opt := []string{}
		for i := len(t.Attrs) - 1; i >= 0; i-- {
			a := t.Attrs[i]
			m[a.Name] = a.T.BuildAlt()
			if a.Opt {
				opt = append(opt, a.Name)
			}
		}
		return cty.ObjectWithOptionalAttrs(m, opt)
	}
	return t.Build()
}

// Canon is an injective canonical string of the modelled type, optional
// markers included.
func (t *TS) Canon() string {
	var b strings.Builder
	t.canon(&b, true)
	return b.String()
}

// CanonNoOpt is Canon with optional-attribute annotations erased.
func (t *TS) CanonNoOpt() string {
	var b strings.Builder
	t.canon(&b, false)
	return b.String()
}

func (t *TS) canon(b *strings.Builder, opt bool) {
	switch t.K {
	case 'b', 'n', 's', 'd':
		b.WriteByte(t.K)
	case 'L', 'S', 'M':
		b.WriteByte(t.K)
		b.WriteByte('(')
		t.Elem.canon(b, opt)
		b.WriteByte(')')
	case 'T':
		b.WriteString("T[")
		for i, e := range t.Elems {
			if i > 0 {
				b.WriteByte(',')
			}
			e.canon(b, opt)
		}
		b.WriteByte(']')
	case 'O':
		b.WriteString("O{")
		for i, a := range t.Attrs {
			if i > 0 {
				b.WriteByte(',')
			}
			b.WriteString(nfc(a.Name))
			if opt && a.Opt {
				b.WriteByte('?')
			}
			b.WriteByte(':')
			a.T.canon(b, opt)
		}
		b.WriteByte('}')
	case 'C':
		b.WriteString("C")
		b.WriteByte(byte('0' + t.Caps))
	}
}

// HasDyn reports whether a dynamic placeholder occurs anywhere in t.
func (t *TS) HasDyn() bool {
	switch t.K {
	case 'd':
		return true
	case 'L', 'S', 'M':
		return t.Elem.HasDyn()
	case 'T':
		for _, e := range t.Elems {
			if e.HasDyn() {
				return true
			}
		}
	case 'O':
		for _, a := range t.Attrs {
			if a.T.HasDyn() {
				return true
			}
		}
	}
	return false
}

// HasOpt reports whether any optional annotation occurs in t.
func (t *TS) HasOpt() bool {
	switch t.K {
	case 'L', 'S', 'M':
		return t.Elem.HasOpt()
	case 'T':
		for _, e := range t.Elems {
			if e.HasOpt() {
				return true
			}
		}
	case 'O':
		for _, a := range t.Attrs {
			if a.Opt || a.T.HasOpt() {
				return true
			}
		}
	}
	return false
}

// HasCaps reports whether a capsule type occurs in t.
func (t *TS) HasCaps() bool {
	switch t.K {
	case 'C':
		return true
	case 'L', 'S', 'M':
		return t.Elem.HasCaps()
	case 'T':
		for _, e := range t.Elems {
			if e.HasCaps() {
				return true
			}
		}
	case 'O':
		for _, a := range t.Attrs {
			if a.T.HasCaps() {
				return true
			}
		}
	}
	return false
}

// Depth of nesting (leaves = 0).
func (t *TS) Depth() int {
	d := 0
	switch t.K {
	case 'L', 'S', 'M':
		d = 1 + t.Elem.Depth()
	case 'T':
		d = 1
		for _, e := range t.Elems {
			if k := 1 + e.Depth(); k > d {
				d = k
			}
		}
	case 'O':
		d = 1
		for _, a := range t.Attrs {
			if k := 1 + a.T.Depth(); k > d {
				d = k
			}
		}
	}
	return d
}

// refConforms is the reference conformance relation: given conforms to want.
func refConforms(given, want *TS) bool {
	if want.K == 'd' {
		return true
	}
	if given.K != want.K {
		return false
	}
	switch given.K {
	case 'b', 'n', 's':
		return true
	case 'C':
		return given.Caps == want.Caps
	case 'L', 'S', 'M':
		return refConforms(given.Elem, want.Elem)
	case 'T':
		if len(given.Elems) != len(want.Elems) {
			return false
		}
		for i := range given.Elems {
			if !refConforms(given.Elems[i], want.Elems[i]) {
				return false
			}
		}
		return true
	case 'O':
		if len(given.Attrs) != len(want.Attrs) {
			return false
		}
		for i := range given.Attrs {
			if nfc(given.Attrs[i].Name) != nfc(want.Attrs[i].Name) {
				return false
			}
			if !refConforms(given.Attrs[i].T, want.Attrs[i].T) {
				return false
			}
		}
		return true
	}
	return false
}

// tsOf derives the model of a real type through public accessors only.  It is
// used where the checker must reason about a type the library produced.
func tsOf(t cty.Type) *TS {
	switch {
	case t == cty.Bool:
		return tsBool
	case t == cty.Number:
		return tsNum
	case t == cty.String:
		return tsStr
	case t == cty.DynamicPseudoType:
		return tsDyn
	case t.IsListType():
		return tList(tsOf(t.ElementType()))
	case t.IsSetType():
		return tSet(tsOf(t.ElementType()))
	case t.IsMapType():
		return tMap(tsOf(t.ElementType()))
	case t.IsTupleType():
		var es []*TS
		for _, e := range t.TupleElementTypes() {
			es = append(es, tsOf(e))
		}
		return &TS{K: 'T', Elems: es}
	case t.IsObjectType():
		var as []TAttr
		opt := t.OptionalAttributes()
		for n, at := range t.AttributeTypes() {
			_, o := opt[n]
			as = append(as, TAttr{Name: n, T: tsOf(at), Opt: o})
		}
		return tObj(as...)
	case t.IsCapsuleType():
		for i, c := range capsTypes {
			if c.Equals(t) {
				return &TS{K: 'C', Caps: i}
			}
		}
		return &TS{K: 'C', Caps: 9}
	}
	panic("tsOf: unknown type kind " + t.GoString())
}

// ---------------------------------------------------------------------------
// universes

// TypeOpts selects which features a generated universe contains.
type TypeOpts struct {
	Leaves   []*TS
	Tuples   int // max tuple width
	Attrs    []string
	Optional bool // also every subset of attributes optional
	MaxObj   int  // max number of attributes
}

// typeUniverse returns all types of depth <= d over the options, simplest
// first, in a fixed order.
func typeUniverse(d int, o TypeOpts) []*TS {
	cur := append([]*TS(nil), o.Leaves...)
	all := append([]*TS(nil), cur...)
	for depth := 1; depth <= d; depth++ {
		inner := all // all types of depth < depth
		var next []*TS
		isNew := func(parts ...*TS) bool {
			// a composite is new at this depth iff at least one part has depth == depth-1
			for _, p := range parts {
				if p.Depth() == depth-1 {
					return true
				}
			}
			return len(parts) == 0 && depth == 1
		}
		for _, e := range inner {
			if isNew(e) {
				next = append(next, tList(e), tSet(e), tMap(e))
			}
		}
		// tuples
		if depth == 1 {
			next = append(next, tTuple())
		}
		if o.Tuples >= 1 {
			for _, e := range inner {
				if isNew(e) {
					next = append(next, tTuple(e))
				}
			}
		}
		if o.Tuples >= 2 {
			for _, e1 := range inner {
				for _, e2 := range inner {
					if isNew(e1, e2) {
						next = append(next, tTuple(e1, e2))
					}
				}
			}
		}
		// objects
		if depth == 1 {
			next = append(next, tObj())
		}
		if o.MaxObj >= 1 {
			for _, n := range o.Attrs {
				for _, e := range inner {
					if isNew(e) {
						next = append(next, tObj(at(n, e)))
						if o.Optional {
							next = append(next, tObj(ato(n, e)))
						}
					}
				}
			}
		}
		if o.MaxObj >= 2 && len(o.Attrs) >= 2 {
			n1, n2 := o.Attrs[0], o.Attrs[1]
			for _, e1 := range inner {
				for _, e2 := range inner {
					if isNew(e1, e2) {
						next = append(next, tObj(at(n1, e1), at(n2, e2)))
						if o.Optional {
							next = append(next, tObj(ato(n1, e1), at(n2, e2)), tObj(at(n1, e1), ato(n2, e2)), tObj(ato(n1, e1), ato(n2, e2)))
						}
					}
				}
			}
		}
		all = append(all, next...)
	}
	return all
}
