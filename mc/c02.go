package main

import (
	"fmt"
	"math"
	"math/big"
	"reflect"
	"sort"
	"strings"

	"github.com/zclconf/go-cty/cty"
)

func init() {
	register(&Check{
		ID:        "C02",
		DeepQuick: true,
		Level:     "exploration",
		Rule: "all ordered pairs of the number alphabet (value text x mantissa precision x constructor) x 9 binary numeric operations, all numbers x 2 unary ones, all boolean tuples, " +
			"and every container (list, set, map, tuple, object) built from every member sequence of length 0..3 over per-type member alphabets x every key of the key alphabet; " +
			"reference = exact big.Rat arithmetic / plain Go slices and maps; distinct by operation and operand GoStrings; non-trivial = all cases (each has a computed expected result or expected rejection)",
		Assumptions: []string{
			"precision rule: with p = max operand mantissa precision, the result must be exact when the exact result fits p bits, otherwise within 1 ulp_p of it; Modulo is judged at the smaller operand precision, within 2 ulp of max(|a|,|exact|), and when the exact quotient is within 4 ulp of an integer the remainder for the neighbouring quotient is accepted too (backward-stable reading)",
			"0/0, Inf-Inf, 0*Inf, x mod 0 and modulo with infinite operands are unspecified and not compared",
			"numbers whose shortest decimal texts agree but whose exact values differ (0.1@53 vs 0.1@512) are neither equal nor different for membership purposes (not compared)",
		},
		Run: runC02,
	})
}

func ratOf(v cty.Value) *big.Rat {
	r, _ := bf(v).Rat(nil)
	return r
}

// ulpAt returns 2^(exp(x)-p) as a Rat: one unit in the last place of x at
// precision p.
func ulpAt(x *big.Rat, p uint) *big.Rat {
	if x.Sign() == 0 {
		return new(big.Rat)
	}
	f := new(big.Float).SetPrec(2048).SetRat(x)
	e := f.MantExp(nil) // x = m * 2^e, 0.5 <= |m| < 1
	k := e - int(p)
	r := new(big.Rat).SetInt64(1)
	if k >= 0 {
		r.SetInt(new(big.Int).Lsh(big.NewInt(1), uint(k)))
	} else {
		r.SetFrac(big.NewInt(1), new(big.Int).Lsh(big.NewInt(1), uint(-k)))
	}
	return r
}

func fitsPrec(x *big.Rat, p uint) bool {
	if x.Sign() == 0 {
		return true
	}
	f := new(big.Float).SetPrec(p).SetMode(big.ToNearestEven)
	f.SetRat(x)
	back, _ := f.Rat(nil)
	return back.Cmp(x) == 0
}

func sgn(v cty.Value) int { return bf(v).Sign() }

func maxPrec(a, b cty.Value) uint {
	pa, pb := bf(a).Prec(), bf(b).Prec()
	if pb > pa {
		pa = pb
	}
	if pa == 0 {
		pa = 64
	}
	return pa
}

// ieee maps a number to a float64 carrying only what matters for the
// infinity rules: \u00b1Inf, 0 or \u00b11.
func ieee(v cty.Value) float64 {
	f := bf(v)
	switch {
	case f.IsInf():
		return math.Inf(f.Sign())
	case f.Sign() == 0:
		if f.Signbit() {
			return math.Copysign(0, -1)
		}
		return 0
	case f.Sign() < 0:
		return -1
	}
	return 1
}

type numExpect struct {
	unspecified bool
	inf         int      // \u00b11 when the expected result is an infinity
	exact       *big.Rat // expected exact value (finite)
	tolUlps     int64
	tolBase     *big.Rat   // value whose ulp is the tolerance unit
	prec        uint       // when non-zero, overrides the precision the result is judged at
	alts        []*big.Rat // alternative acceptable exact values (Modulo near an integer quotient)
}

func refNumBinary(op string, a, b cty.Value) numExpect {
	ainf, binf := isInf(a), isInf(b)
	if ainf || binf {
		x, y := ieee(a), ieee(b)
		var r float64
		switch op {
		case "Add":
			r = x + y
			if !ainf || !binf {
				// finite + inf: value of the finite operand is irrelevant
			}
		case "Subtract":
			r = x - y
		case "Multiply":
			r = x * y
		case "Divide":
			r = x / y
		default:
			return numExpect{unspecified: true}
		}
		switch {
		case math.IsNaN(r):
			return numExpect{unspecified: true}
		case math.IsInf(r, 1):
			return numExpect{inf: 1}
		case math.IsInf(r, -1):
			return numExpect{inf: -1}
		default:
			return numExpect{exact: new(big.Rat), tolUlps: 0}
		}
	}
	ra, rb := ratOf(a), ratOf(b)
	e := new(big.Rat)
	switch op {
	case "Add":
		e.Add(ra, rb)
	case "Subtract":
		e.Sub(ra, rb)
	case "Multiply":
		e.Mul(ra, rb)
	case "Divide":
		if rb.Sign() == 0 {
			if ra.Sign() == 0 {
				return numExpect{unspecified: true}
			}
			s := ra.Sign()
			if bf(b).Signbit() {
				// division by negative zero: sign convention not documented
				return numExpect{unspecified: true}
			}
			return numExpect{inf: s}
		}
		e.Quo(ra, rb)
	case "Modulo":
		if rb.Sign() == 0 {
			return numExpect{unspecified: true}
		}
		q := new(big.Rat).Quo(ra, rb)
		qi := new(big.Int).Quo(q.Num(), q.Denom()) // truncates toward zero
		e.Sub(ra, new(big.Rat).Mul(rb, new(big.Rat).SetInt(qi)))
		base := new(big.Rat).Abs(ra)
		if ea := new(big.Rat).Abs(e); ea.Cmp(base) > 0 {
			base = ea
		}
		ex := numExpect{exact: e, tolUlps: 2, tolBase: base}
		// backward-stable reading of "within the precision of the operands":
		// when the exact quotient is within a few ulp of an integer, the
		// remainder for the neighbouring quotient is the exact answer for
		// operands perturbed by less than their precision; accept it too.
		p := minPrec(a, b)
		ex.prec = p
		near := new(big.Rat).Sub(q, new(big.Rat).SetInt(qi))
		near.Abs(near)
		one := new(big.Rat).SetInt64(1)
		dist := near
		if d2 := new(big.Rat).Sub(one, near); d2.Cmp(dist) < 0 {
			dist = d2
		}
		qtol := new(big.Rat).Mul(ulpAt(q, p), new(big.Rat).SetInt64(4))
		if dist.Cmp(qtol) <= 0 {
			for _, d := range []int64{-1, 1} {
				alt := new(big.Rat).Sub(ra, new(big.Rat).Mul(rb, new(big.Rat).SetInt(new(big.Int).Add(qi, big.NewInt(d)))))
				ex.alts = append(ex.alts, alt)
			}
		}
		return ex
	}
	return numExpect{exact: e, tolUlps: 1, tolBase: e}
}

func minPrec(a, b cty.Value) uint {
	pa, pb := bf(a).Prec(), bf(b).Prec()
	if pb < pa && pb != 0 {
		pa = pb
	}
	if pa == 0 {
		pa = 64
	}
	return pa
}

func checkNumResult(u *U, site, desc string, shape string, r cty.Value, ex numExpect, p uint) {
	if ex.prec != 0 {
		p = ex.prec
	}
	if ex.unspecified {
		u.Class("unspecified")
		return
	}
	if r.Type() != cty.Number || !r.IsKnown() || r.IsNull() {
		u.Violation(site+".type", shape, fmt.Sprintf("%s returned %s, expected a known number", desc, goStr(r)))
		return
	}
	rf := bf(r)
	if ex.inf != 0 {
		if !rf.IsInf() || rf.Sign() != ex.inf {
			u.Violation(site+".infinity", shape, fmt.Sprintf("%s returned %s, expected infinity of sign %d", desc, goStr(r), ex.inf))
		}
		u.Class("infinite")
		return
	}
	if rf.IsInf() {
		u.Violation(site+".infinity", shape, fmt.Sprintf("%s returned %s, expected finite %s", desc, goStr(r), ex.exact.FloatString(30)))
		return
	}
	got, _ := rf.Rat(nil)
	diff := new(big.Rat).Sub(got, ex.exact)
	diff.Abs(diff)
	if diff.Sign() == 0 {
		u.Class("exact")
		return
	}
	if fitsPrec(ex.exact, p) && ex.tolUlps <= 1 {
		u.Violation(site+".inexact", shape, fmt.Sprintf("%s returned %s but the exact result %s fits the operands' precision (%d bits)", desc, rf.Text('g', 60), ex.exact.FloatString(40), p))
		return
	}
	tol := new(big.Rat).Mul(ulpAt(ex.tolBase, p), new(big.Rat).SetInt64(ex.tolUlps))
	for _, alt := range ex.alts {
		d2 := new(big.Rat).Sub(got, alt)
		if d2.Abs(d2).Cmp(tol) <= 0 {
			u.Class("rounded-quotient")
			return
		}
	}
	if diff.Cmp(tol) > 0 {
		u.Violation(site+".imprecise", shape, fmt.Sprintf("%s returned %s, exact result %s; error exceeds %d ulp at %d bits", desc, rf.Text('g', 60), ex.exact.FloatString(60), ex.tolUlps, p))
		return
	}
	u.Class("rounded")
}

// ---------------------------------------------------------------------------
// reference equality on wholly known values

const (
	eqNo = iota
	eqYes
	eqMurky
)

// refEq is the checker's structural equality.  Numbers are compared as exact
// values; a pair of different exact values whose shortest decimal texts agree
// is "murky" (cty documents decimal-text equality there).
func refEq(a, b cty.Value) int {
	a, _ = a.UnmarkDeep()
	b, _ = b.UnmarkDeep()
	if tsOf(a.Type()).Canon() != tsOf(b.Type()).Canon() {
		return eqNo
	}
	if a.IsNull() || b.IsNull() {
		if a.IsNull() && b.IsNull() {
			return eqYes
		}
		return eqNo
	}
	ty := a.Type()
	switch {
	case ty == cty.Number:
		fa, fb := bf(a), bf(b)
		if fa.Cmp(fb) == 0 {
			if !fa.IsInf() && !fa.IsInt() && fa.Prec() != fb.Prec() && fa.Text('f', -1) != fb.Text('f', -1) {
				// one fraction held at two mantissa precisions: the library's equality (shortest
				// text at each number's own precision) says "different" - the upstream defect
				// recorded for C03 (same-value-at-two-precisions); membership is not compared here
				return eqMurky
			}
			return eqYes
		}
		if fa.IsInf() || fb.IsInf() {
			return eqNo
		}
		if fa.Text('g', -1) == fb.Text('g', -1) || fa.Text('f', -1) == fb.Text('f', -1) {
			return eqMurky
		}
		// values this close are murky as well: the library compares texts
		// at a precision of its choosing
		d := new(big.Float).SetPrec(600).Sub(fa, fb)
		d.Abs(d)
		m := new(big.Float).SetPrec(600).Abs(fa)
		m.Mul(m, new(big.Float).SetMantExp(big.NewFloat(1), -50))
		if d.Cmp(m) < 0 {
			return eqMurky
		}
		return eqNo
	case ty == cty.String:
		if a.AsString() == b.AsString() {
			return eqYes
		}
		return eqNo
	case ty == cty.Bool:
		if a.True() == b.True() {
			return eqYes
		}
		return eqNo
	case ty.IsCapsuleType():
		pa, pb := a.EncapsulatedValue().(*capsNative), b.EncapsulatedValue().(*capsNative)
		if ty.Equals(capsTypes[1]) {
			if pa.N == pb.N {
				return eqYes
			}
			return eqNo
		}
		if pa == pb {
			return eqYes
		}
		return eqNo
	case ty.IsSetType():
		ca, cb := children(a), children(b)
		res := eqYes
		for _, x := range ca {
			switch refMember(cb, x) {
			case eqNo:
				return eqNo
			case eqMurky:
				res = eqMurky
			}
		}
		for _, x := range cb {
			switch refMember(ca, x) {
			case eqNo:
				return eqNo
			case eqMurky:
				res = eqMurky
			}
		}
		return res
	case ty.IsMapType(), ty.IsObjectType():
		ma, mb := a.AsValueMap(), b.AsValueMap()
		if len(ma) != len(mb) {
			return eqNo
		}
		res := eqYes
		for k, va := range ma {
			vb, ok := mb[k]
			if !ok {
				return eqNo
			}
			switch refEq(va, vb) {
			case eqNo:
				return eqNo
			case eqMurky:
				res = eqMurky
			}
		}
		return res
	default:
		ca, cb := children(a), children(b)
		if len(ca) != len(cb) {
			return eqNo
		}
		res := eqYes
		for i := range ca {
			switch refEq(ca[i], cb[i]) {
			case eqNo:
				return eqNo
			case eqMurky:
				res = eqMurky
			}
		}
		return res
	}
}

func refMember(ms []cty.Value, x cty.Value) int {
	res := eqNo
	for _, m := range ms {
		if m.IsKnown() && x.IsKnown() && !m.IsNull() && !x.IsNull() && m.Type() == cty.Number && x.Type() == cty.Number {
			// membership follows the documented equality: two fractions with the same shortest
			// decimal text, each at its own precision (0.1 as a float64 and "0.1" parsed at 512
			// bits), are one member although their exact values differ
			fa, fb := bf(m), bf(x)
			if fa.Cmp(fb) != 0 && !fa.IsInf() && !fb.IsInf() && !fa.IsInt() && !fb.IsInt() && fa.Text('f', -1) == fb.Text('f', -1) {
				return eqYes
			}
		}
		switch refEq(m, x) {
		case eqYes:
			return eqYes
		case eqMurky:
			res = eqMurky
		}
	}
	return res
}

// ---------------------------------------------------------------------------

func runC02(c *Ctx) {
	// history clause first, so that each worker process meets it in its initial state
	histFamily(c, "operation methods and hashing after accepted and rejected calls", c02HistoryOps)
	c02Derived(c)
	nums := numAlphabet(true) // the pairs are cheap: the full alphabet in both tiers
	vals := mkNums(nums)
	binOps := []string{"Add", "Subtract", "Multiply", "Divide", "Modulo"}
	cmpOps := []string{"LessThan", "GreaterThan", "LessThanOrEqualTo", "GreaterThanOrEqualTo"}
	for i := range vals {
		i := i
		c.Unit(func(u *U) {
			a := vals[i]
			for j, b := range vals {
				p := maxPrec(a, b)
				shape := numClass(a) + " ; " + numClass(b)
				for _, on := range binOps {
					op := opByName(on)
					u.Eval(1)
					u.Distinct(on + nums[i].Name + "," + nums[j].Name)
					ex := refNumBinary(on, a, b)
					r, pan, msg := callOp(op, []cty.Value{a, b})
					desc := fmt.Sprintf("%s(%s, %s)", on, nums[i].Name, nums[j].Name)
					if pan {
						if !ex.unspecified {
							u.Violation(on+".rejects", shape, fmt.Sprintf("%s panicked (%s) but has a defined result", desc, msg))
						}
						u.Class("rejected")
						continue
					}
					checkNumResult(u, on, desc, shape, r, ex, p)
				}
				for _, on := range cmpOps {
					op := opByName(on)
					u.Eval(1)
					u.Distinct(on + nums[i].Name + "," + nums[j].Name)
					r, pan, msg := callOp(op, []cty.Value{a, b})
					desc := fmt.Sprintf("%s(%s, %s)", on, nums[i].Name, nums[j].Name)
					if pan {
						u.Violation(on+".rejects", shape, fmt.Sprintf("%s panicked: %s", desc, msg))
						continue
					}
					cmp := bf(a).Cmp(bf(b))
					var want bool
					switch on {
					case "LessThan":
						want = cmp < 0
					case "GreaterThan":
						want = cmp > 0
					case "LessThanOrEqualTo":
						want = cmp <= 0
					case "GreaterThanOrEqualTo":
						want = cmp >= 0
					}
					if refEq(a, b) == eqMurky {
						// the operands differ by less than their precision: either answer is within it
						u.Class("unspecified")
						continue
					}
					if r.Type() != cty.Bool || !r.IsKnown() || r.IsNull() || r.True() != want {
						u.Violation(on+".wrong", shape, fmt.Sprintf("%s = %s, exact comparison says %v", desc, goStr(r), want))
					}
				}
			}
			// unary
			for _, on := range []string{"Negate", "Absolute"} {
				u.Eval(1)
				u.Distinct(on + nums[i].Name)
				r, pan, msg := callOp(opByName(on), []cty.Value{a})
				desc := fmt.Sprintf("%s(%s)", on, nums[i].Name)
				if pan {
					u.Violation(on+".rejects", numClass(a), desc+" panicked: "+msg)
					continue
				}
				if isInf(a) {
					want := -sgn(a)
					if on == "Absolute" {
						want = 1
					}
					checkNumResult(u, on, desc, numClass(a), r, numExpect{inf: want}, 64)
					continue
				}
				e := ratOf(a)
				if on == "Negate" {
					e.Neg(e)
				} else {
					e.Abs(e)
				}
				checkNumResult(u, on, desc, numClass(a), r, numExpect{exact: e, tolUlps: 0, tolBase: e}, bf(a).Prec())
			}
			if u.WantSample() {
				u.Sample(map[string]string{"row": nums[i].Name, "ops": "Add,Subtract,Multiply,Divide,Modulo,comparisons vs all numbers"})
			}
		})
	}
	// the magnitude of a number carries no sign, negative zero included: the
	// documented signed infinity of x / |y| follows the sign of x alone
	c.Unit(func(u *U) {
		zeros := map[string]func() cty.Value{
			"float -0": func() cty.Value { return cty.NumberFloatVal(math.Copysign(0, -1)) },
			"0.Negate": func() cty.Value { return cty.Zero.Negate() },
			"-5*0":     func() cty.Value { return cty.NumberIntVal(-5).Multiply(cty.Zero) },
			"parse -0": func() cty.Value { return parseNum("-0") },
			"0":        func() cty.Value { return cty.Zero },
		}
		for _, name := range []string{"float -0", "0.Negate", "-5*0", "parse -0", "0"} {
			u.Eval(1)
			u.Distinct("abszero" + name)
			func() {
				defer func() {
					if r := recover(); r != nil {
						u.Violation("Absolute.rejects", "num:negzero", fmt.Sprintf("Absolute of %s panicked: %v", name, r))
					}
				}()
				z := zeros[name]()
				r := z.Absolute()
				if bf(r).Sign() != 0 || bf(r).Signbit() {
					u.Violation("Absolute.keeps-sign", "num:negzero", fmt.Sprintf("Absolute(%s) = %s still carries a sign", name, bf(r).Text('g', 5)))
					return
				}
				if q := cty.NumberIntVal(1).Divide(r); !isInf(q) || bf(q).Sign() < 0 {
					u.Violation("Absolute.keeps-sign", "num:negzero", fmt.Sprintf("1 / Absolute(%s) = %s, expected +Inf", name, goStr(q)))
				}
			}()
		}
	})
	// booleans
	c.Unit(func(u *U) {
		bs := []cty.Value{cty.True, cty.False}
		for _, a := range bs {
			u.Eval(1)
			u.Distinct("Not" + goStr(a))
			if r := a.Not(); r.Type() != cty.Bool || !r.IsKnown() || r.True() != !a.True() {
				u.Violation("Not.wrong", "bool", fmt.Sprintf("Not(%s) = %s", goStr(a), goStr(r)))
			}
			for _, b := range bs {
				u.Eval(2)
				u.Distinct("AndOr" + goStr(a) + goStr(b))
				if r := a.And(b); r.Type() != cty.Bool || !r.IsKnown() || r.True() != (a.True() && b.True()) {
					u.Violation("And.wrong", "bool", fmt.Sprintf("And(%s,%s) = %s", goStr(a), goStr(b), goStr(r)))
				}
				if r := a.Or(b); r.Type() != cty.Bool || !r.IsKnown() || r.True() != (a.True() || b.True()) {
					u.Violation("Or.wrong", "bool", fmt.Sprintf("Or(%s,%s) = %s", goStr(a), goStr(b), goStr(r)))
				}
			}
		}
		// wrong operand types are rejected
		for _, bad := range []cty.Value{cty.StringVal("a"), cty.Zero, cty.EmptyObjectVal} {
			u.Eval(3)
			if _, pan, _ := callOp(opByName("Not"), []cty.Value{bad}); !pan {
				u.Violation("Not.accepts-wrong-type", shapeOf(bad), "Not on a non-bool did not panic")
			}
			// with each boolean on either side (a dominating operand must not hide the type error)
			for _, bv := range []cty.Value{cty.True, cty.False, cty.True.Mark(markM1), cty.False.Mark(markM1)} {
				for _, on := range []string{"And", "Or"} {
					for _, args := range [][]cty.Value{{bv, bad}, {bad, bv}} {
						u.Eval(1)
						if r, pan, _ := callOp(opByName(on), args); !pan {
							u.Violation(on+".accepts-wrong-type", shapeOf(args[0])+" ; "+shapeOf(args[1]), fmt.Sprintf("%s(%s) = %s: an operand that is not a bool was accepted", on, argsStr(args), goStr(r)))
						}
					}
				}
			}
			if bad.Type() != cty.Number {
				if _, pan, _ := callOp(opByName("Add"), []cty.Value{cty.Zero, bad}); !pan {
					u.Violation("Add.accepts-wrong-type", shapeOf(bad), "Add with a non-number did not panic")
				}
			}
		}
	})
	c02Containers(c)
}

func c02Members(thorough bool) map[string][]cty.Value {
	m := map[string][]cty.Value{
		"n": {cty.NumberIntVal(0), cty.NumberIntVal(1), cty.NumberFloatVal(2.5), cty.NumberFloatVal(0.1), parseNum("0.1"), cty.NumberIntVal(1<<53 + 1), cty.NullVal(cty.Number),
			// the same whole numbers held at different mantissa precisions
			cty.NumberUIntVal(1 << 63), cty.NumberFloatVal(9223372036854775808), cty.NumberFloatVal(1e30), parseNum("1000000000000000019884624838656"),
			// a float64 fraction widened to 64 bits by an arithmetic identity, and its own shortest text parsed again (512 bits): documented-equal
			cty.NumberFloatVal(0.1).Add(cty.NumberIntVal(0)), parseNum(cty.NumberFloatVal(0.1).Add(cty.NumberIntVal(0)).AsBigFloat().Text('f', -1)),
			cty.NumberFloatVal(2.5).Multiply(cty.NumberIntVal(1)),
			// both signs of zero (equal, so one member)
			cty.NumberFloatVal(math.Copysign(0, -1)), cty.Zero.Negate(), parseNum("-0")},
		"s":    {cty.StringVal(""), cty.StringVal("a"), cty.StringVal("e\u0301"), cty.StringVal("\u00e9"), cty.StringVal("k1"), cty.NullVal(cty.String)},
		"b":    {cty.True, cty.False, cty.NullVal(cty.Bool)},
		"L(n)": {cty.ListValEmpty(cty.Number), cty.ListVal([]cty.Value{cty.Zero}), cty.ListVal([]cty.Value{cty.Zero, cty.NumberIntVal(1)}), cty.NullVal(cty.List(cty.Number))},
		"T[s,n]": {
			cty.TupleVal([]cty.Value{cty.StringVal("a"), cty.Zero}), cty.TupleVal([]cty.Value{cty.StringVal("a"), cty.NumberIntVal(1)}),
			cty.TupleVal([]cty.Value{cty.StringVal("b"), cty.Zero}), cty.TupleVal([]cty.Value{cty.NullVal(cty.String), cty.Zero}),
		},
		"O{a:s}": {
			cty.ObjectVal(map[string]cty.Value{"a": cty.StringVal("x")}), cty.ObjectVal(map[string]cty.Value{"a": cty.StringVal("y")}),
			cty.ObjectVal(map[string]cty.Value{"a": cty.NullVal(cty.String)}), cty.NullVal(cty.Object(map[string]cty.Type{"a": cty.String})),
		},
	}
	if thorough {
		m["n"] = append(m["n"], cty.NumberIntVal(-1), parseNum("1.00000000001"), parseNum("1.00000000002"), cty.PositiveInfinity, cty.NumberUIntVal(1<<63))
		m["s"] = append(m["s"], cty.StringVal("b"), cty.StringVal("\uac00"))
	}
	return m
}

func seqs(alpha []cty.Value, maxLen int, emit func([]cty.Value)) {
	cur := []cty.Value{}
	var rec func()
	rec = func() {
		emit(append([]cty.Value(nil), cur...))
		if len(cur) == maxLen {
			return
		}
		for _, v := range alpha {
			cur = append(cur, v)
			rec()
			cur = cur[:len(cur)-1]
		}
	}
	rec()
}

var c02MapKeys = []string{"k1", "e\u0301", "k2", ""}

func c02Keys(thorough bool) []cty.Value {
	ks := []cty.Value{
		cty.NumberIntVal(-1), cty.NumberIntVal(0), cty.NumberIntVal(1), cty.NumberIntVal(2), cty.NumberIntVal(3), cty.NumberFloatVal(0.5),
		cty.NumberUIntVal(1 << 63), parseNum("18446744073709551616"), parseNum("1"), cty.NumberFloatVal(1),
		cty.StringVal("k1"), cty.StringVal("k2"), cty.StringVal("zz"), cty.StringVal("e\u0301"), cty.StringVal("\u00e9"), cty.StringVal(""),
		cty.True, cty.NullVal(cty.Number), cty.NullVal(cty.String), cty.EmptyTupleVal,
	}
	if thorough {
		ks = append(ks, cty.NumberIntVal(4), cty.NegativeInfinity, cty.PositiveInfinity, parseNum("0.99999999999999999999"), parseNum("1e-30"), cty.NumberFloatVal(math.Copysign(0, -1)))
	}
	return ks
}

func c02Containers(c *Ctx) {
	members := c02Members(c.Thorough)
	var etys []string
	for k := range members {
		etys = append(etys, k)
	}
	sort.Strings(etys)
	keys := c02Keys(c.Thorough)
	maxLen := 2
	if c.Thorough {
		maxLen = 3
	}
	for _, ek := range etys {
		alpha := members[ek]
		ety := alpha[0].Type()
		seqs(alpha, maxLen, func(ms []cty.Value) {
			c.Unit(func(u *U) { c02List(u, ety, ms, keys) })
			c.Unit(func(u *U) { c02Tuple(u, ms, keys) })
			c.Unit(func(u *U) { c02Set(u, ety, ms, alpha) })
			if len(ms) <= len(c02MapKeys) {
				c.Unit(func(u *U) { c02Map(u, ety, ms, keys) })
				c.Unit(func(u *U) { c02Object(u, ms) })
			}
		})
	}
}

func rawEq(a, b cty.Value) (eq bool) {
	defer func() {
		if r := recover(); r != nil {
			eq = false
		}
	}()
	return a.RawEquals(b)
}

// intKey classifies a key as a valid list index.
func intKey(k cty.Value) (int, bool) {
	if k.Type() != cty.Number || k.IsNull() || !k.IsKnown() {
		return 0, false
	}
	f := bf(k)
	if f.IsInf() || !f.IsInt() {
		return 0, false
	}
	i, acc := f.Int64()
	if acc != big.Exact || i < 0 || i > 1<<30 {
		return 0, false
	}
	return int(i), true
}

func checkIndexing(u *U, kind string, v cty.Value, keys []cty.Value, lookup func(k cty.Value) (cty.Value, bool)) {
	for _, k := range keys {
		u.Eval(2)
		desc := fmt.Sprintf("%s / key %s", goStr(v), goStr(k))
		u.Distinct(kind + desc)
		want, has := lookup(k)
		hi, pan, msg := callOp(opByName("HasIndex"), []cty.Value{v, k})
		shape := shapeOf(v) + " ; " + shapeOf(k)
		hasKnown := false
		if pan {
			u.Violation(kind+".HasIndex-panics", shape, fmt.Sprintf("HasIndex on %s panicked: %s", desc, msg))
		} else if hi.Type() != cty.Bool || !hi.IsKnown() || hi.IsNull() {
			u.Violation(kind+".HasIndex-type", shape, fmt.Sprintf("HasIndex on %s = %s, expected a known bool", desc, goStr(hi)))
		} else {
			hasKnown = true
			if hi.True() != has {
				u.Violation(kind+".HasIndex-wrong", shape, fmt.Sprintf("HasIndex on %s = %s, reference says %v", desc, goStr(hi), has))
			}
		}
		r, pan, _ := callOp(opByName("Index"), []cty.Value{v, k})
		if hasKnown && (pan == hi.True()) {
			u.Violation(kind+".Index-vs-HasIndex", shape, fmt.Sprintf("on %s: HasIndex = %s but Index panicked = %v (result %s)", desc, goStr(hi), pan, goStr(r)))
		}
		if has {
			u.Class("key-present")
			if pan {
				u.Violation(kind+".Index-rejects-present", shape, fmt.Sprintf("Index on %s panicked but the member exists", desc))
			} else if !rawEq(r, want) {
				u.Violation(kind+".Index-wrong-member", shape, fmt.Sprintf("Index on %s = %s, constructed member is %s", desc, goStr(r), goStr(want)))
			}
		} else {
			u.Class("key-absent")
			if !pan {
				u.Violation(kind+".Index-accepts-absent", shape, fmt.Sprintf("Index on %s returned %s although no such member exists", desc, goStr(r)))
			}
		}
	}
}

func checkLength(u *U, kind string, v cty.Value, want int) {
	u.Eval(1)
	shape := shapeOf(v)
	r, pan, msg := callOp(opByName("Length"), []cty.Value{v})
	if pan {
		u.Violation(kind+".Length-panics", shape, fmt.Sprintf("Length(%s) panicked: %s", goStr(v), msg))
		return
	}
	if r.Type() != cty.Number || !r.IsKnown() || r.IsNull() || bf(r).Cmp(big.NewFloat(float64(want))) != 0 {
		u.Violation(kind+".Length-wrong", shape, fmt.Sprintf("Length(%s) = %s, expected %d", goStr(v), goStr(r), want))
	}
	func() {
		defer func() {
			if r := recover(); r != nil {
				u.Violation(kind+".LengthInt-panics", shape, fmt.Sprintf("LengthInt(%s) panicked: %v", goStr(v), r))
			}
		}()
		if got := v.LengthInt(); got != want {
			u.Violation(kind+".LengthInt-wrong", shape, fmt.Sprintf("LengthInt(%s) = %d, expected %d", goStr(v), got, want))
		}
	}()
}

func iterate(u *U, kind string, v cty.Value) (ks, vs []cty.Value, ok bool) {
	defer func() {
		if r := recover(); r != nil {
			u.Violation(kind+".iterator-panics", shapeOf(v), fmt.Sprintf("ElementIterator on %s panicked: %v", goStr(v), r))
			ok = false
		}
	}()
	for it := v.ElementIterator(); it.Next(); {
		k, e := it.Element()
		ks = append(ks, k)
		vs = append(vs, e)
	}
	return ks, vs, true
}

func c02List(u *U, ety cty.Type, ms []cty.Value, keys []cty.Value) {
	var v cty.Value
	if len(ms) == 0 {
		v = cty.ListValEmpty(ety)
	} else {
		v = cty.ListVal(append([]cty.Value(nil), ms...))
	}
	if !v.Type().Equals(cty.List(ety)) {
		u.Violation("list.type", shapeOf(v), fmt.Sprintf("ListVal gave type %#v, expected list of %#v", v.Type(), ety))
	}
	checkIndexing(u, "list", v, keys, func(k cty.Value) (cty.Value, bool) {
		i, ok := intKey(k)
		if !ok || i >= len(ms) {
			return cty.NilVal, false
		}
		return ms[i], true
	})
	checkLength(u, "list", v, len(ms))
	if ks, vs, ok := iterate(u, "list", v); ok {
		if len(vs) != len(ms) {
			u.Violation("list.iterator-count", shapeOf(v), fmt.Sprintf("iterator over %s yields %d members", goStr(v), len(vs)))
		} else {
			for i := range vs {
				if !rawEq(vs[i], ms[i]) || !rawEq(ks[i], cty.NumberIntVal(int64(i))) {
					u.Violation("list.iterator-member", shapeOf(v), fmt.Sprintf("iterator over %s: position %d yields (%s, %s)", goStr(v), i, goStr(ks[i]), goStr(vs[i])))
				}
			}
		}
	}
	if u.WantSample() {
		u.Sample(map[string]string{"container": goStr(v), "keys": fmt.Sprint(len(keys))})
	}
}

func c02Tuple(u *U, ms []cty.Value, keys []cty.Value) {
	v := cty.TupleVal(append([]cty.Value(nil), ms...))
	checkIndexing(u, "tuple", v, keys, func(k cty.Value) (cty.Value, bool) {
		i, ok := intKey(k)
		if !ok || i >= len(ms) {
			return cty.NilVal, false
		}
		return ms[i], true
	})
	checkLength(u, "tuple", v, len(ms))
	if _, vs, ok := iterate(u, "tuple", v); ok && len(ms) > 0 {
		if len(vs) != len(ms) {
			u.Violation("tuple.iterator-count", shapeOf(v), fmt.Sprintf("iterator over %s yields %d members", goStr(v), len(vs)))
		} else {
			for i := range vs {
				if !rawEq(vs[i], ms[i]) {
					u.Violation("tuple.iterator-member", shapeOf(v), fmt.Sprintf("iterator over %s: position %d yields %s", goStr(v), i, goStr(vs[i])))
				}
			}
		}
	}
}

func c02Map(u *U, ety cty.Type, ms []cty.Value, keys []cty.Value) {
	var v cty.Value
	ref := map[string]cty.Value{}
	in := map[string]cty.Value{}
	for i, m := range ms {
		in[c02MapKeys[i]] = m
		ref[nfc(c02MapKeys[i])] = m
	}
	if len(ms) == 0 {
		v = cty.MapValEmpty(ety)
	} else {
		v = cty.MapVal(in)
	}
	checkIndexing(u, "map", v, keys, func(k cty.Value) (cty.Value, bool) {
		if k.Type() != cty.String || k.IsNull() {
			return cty.NilVal, false
		}
		m, ok := ref[k.AsString()]
		return m, ok
	})
	checkLength(u, "map", v, len(ref))
	if ks, vs, ok := iterate(u, "map", v); ok {
		var want []string
		for k := range ref {
			want = append(want, k)
		}
		sort.Strings(want)
		if len(ks) != len(want) {
			u.Violation("map.iterator-count", shapeOf(v), fmt.Sprintf("iterator over %s yields %d members", goStr(v), len(ks)))
		} else {
			for i := range ks {
				if ks[i].Type() != cty.String || ks[i].AsString() != want[i] || !rawEq(vs[i], ref[want[i]]) {
					u.Violation("map.iterator-member", shapeOf(v), fmt.Sprintf("iterator over %s: position %d yields (%s,%s), expected key %q", goStr(v), i, goStr(ks[i]), goStr(vs[i]), want[i]))
				}
			}
		}
	}
}

func c02Object(u *U, ms []cty.Value) {
	in := map[string]cty.Value{}
	ref := map[string]cty.Value{}
	for i, m := range ms {
		in[c02MapKeys[i]] = m
		ref[nfc(c02MapKeys[i])] = m
	}
	v := cty.ObjectVal(in)
	shape := shapeOf(v)
	for _, name := range []string{"k1", "k2", "e\u0301", "\u00e9", "", "zz"} {
		u.Eval(1)
		u.Distinct("obj" + goStr(v) + name)
		want, has := ref[nfc(name)]
		// the raw Go string is passed (StringVal would normalise it first)
		r, pan, msg := func() (r cty.Value, pan bool, msg string) {
			defer func() {
				if x := recover(); x != nil {
					pan, msg = true, fmt.Sprint(x)
				}
			}()
			return v.GetAttr(name), false, ""
		}()
		switch {
		case has && pan:
			u.Violation("object.GetAttr-rejects-present", shape, fmt.Sprintf("GetAttr(%q) on %s panicked: %s", name, goStr(v), msg))
		case has && !rawEq(r, want):
			u.Violation("object.GetAttr-wrong-member", shape, fmt.Sprintf("GetAttr(%q) on %s = %s, constructed with %s", name, goStr(v), goStr(r), goStr(want)))
		case !has && !pan:
			u.Violation("object.GetAttr-accepts-absent", shape, fmt.Sprintf("GetAttr(%q) on %s returned %s", name, goStr(v), goStr(r)))
		}
		func() {
			defer func() { recover() }()
			if got := v.Type().HasAttribute(name); got != has {
				u.Violation("object.HasAttribute-wrong", shape, fmt.Sprintf("HasAttribute(%q) on %#v = %v", name, v.Type(), got))
			}
		}()
	}
	if ks, vs, ok := iterate(u, "object", v); ok && len(ref) > 0 {
		if len(ks) != len(ref) {
			u.Violation("object.iterator-count", shape, fmt.Sprintf("iterator over %s yields %d members", goStr(v), len(ks)))
		}
		for i := range ks {
			if w, ok := ref[ks[i].AsString()]; !ok || !rawEq(w, vs[i]) {
				u.Violation("object.iterator-member", shape, fmt.Sprintf("iterator over %s yields (%s,%s)", goStr(v), goStr(ks[i]), goStr(vs[i])))
			}
		}
	}
}

func c02Set(u *U, ety cty.Type, ms []cty.Value, alpha []cty.Value) {
	var v cty.Value
	if len(ms) == 0 {
		v = cty.SetValEmpty(ety)
	} else {
		v = cty.SetVal(append([]cty.Value(nil), ms...))
	}
	shape := shapeOf(v)
	// distinct members by the reference equality; murky pairs make the
	// expected cardinality a range
	minN, maxN := 0, 0
	var reps []cty.Value
	murky := false
	for _, m := range ms {
		switch refMember(reps, m) {
		case eqNo:
			reps = append(reps, m)
		case eqMurky:
			murky = true
			reps = append(reps, m)
			minN--
		}
	}
	maxN = len(reps)
	minN += len(reps)
	for _, cand := range alpha {
		u.Eval(1)
		u.Distinct("set" + goStr(v) + goStr(cand))
		want := refMember(ms, cand)
		r, pan, msg := callOp(opByName("HasElement"), []cty.Value{v, cand})
		if pan {
			u.Violation("set.HasElement-panics", shape+" ; "+shapeOf(cand), fmt.Sprintf("HasElement(%s, %s) panicked: %s", goStr(v), goStr(cand), msg))
			continue
		}
		if r.Type() != cty.Bool || !r.IsKnown() || r.IsNull() {
			u.Violation("set.HasElement-type", shape+" ; "+shapeOf(cand), fmt.Sprintf("HasElement(%s, %s) = %s", goStr(v), goStr(cand), goStr(r)))
			continue
		}
		if want != eqMurky && r.True() != (want == eqYes) {
			u.Violation("set.HasElement-wrong", shape+" ; "+shapeOf(cand), fmt.Sprintf("HasElement(%s, %s) = %s, reference membership says %v", goStr(v), goStr(cand), goStr(r), want == eqYes))
		}
	}
	// wrong-typed candidate is rejected or False, never True
	if r, pan, _ := callOp(opByName("HasElement"), []cty.Value{v, cty.EmptyObjectVal}); !pan && !(r.IsKnown() && r.False()) {
		u.Violation("set.HasElement-wrong-type", shape, fmt.Sprintf("HasElement(%s, {}) = %s", goStr(v), goStr(r)))
	}
	if !murky {
		checkLength(u, "set", v, maxN)
	} else if n := v.LengthInt(); n < minN || n > maxN {
		u.Violation("set.Length-wrong", shape, fmt.Sprintf("LengthInt(%s) = %d, expected %d..%d", goStr(v), n, minN, maxN))
	}
	if _, vs, ok := iterate(u, "set", v); ok {
		for _, e := range vs {
			if refMember(ms, e) == eqNo {
				u.Violation("set.iterator-alien", shape, fmt.Sprintf("iterator over %s yields %s which was not given to the constructor", goStr(v), goStr(e)))
			}
		}
		for _, m := range ms {
			if refMember(vs, m) == eqNo {
				u.Violation("set.iterator-missing", shape, fmt.Sprintf("iterator over %s never yields constructor member %s", goStr(v), goStr(m)))
			}
		}
		if !murky && len(vs) != maxN {
			u.Violation("set.iterator-count", shape, fmt.Sprintf("iterator over %s yields %d members, expected %d", goStr(v), len(vs), maxN))
		}
	}
}

// c02HistoryOps: the history clause of C02.  Operation methods on wholly known operands are
// functions of their operands; the alphabet holds, per operation method, accepted and rejected
// calls (a rejection is a recovered panic, after which a program carries on), the set
// operations that go through hashing, and the documented rejections of hashing itself (a value
// with a mark at or below its top level handed to Hash / ValueSet.Add / ValueSet.Has, a
// capsule whose HashKey callback panics).
func c02HistoryOps() []histOp {
	var ops []histOp
	perOp := map[string][2]int{}
	c01Cases(false, func(oc opCase) {
		k := perOp[oc.op.Name]
		_, p, _ := callOp(oc.op, oc.args)
		cls := 0
		if p {
			cls = 1
		}
		// simplest-first enumeration: keep the first few of each outcome class, and a
		// thinned sample of the rest
		k[cls]++
		perOp[oc.op.Name] = k
		if k[cls] > 4 && !(k[cls]%97 == 0 && k[cls] < 97*6) {
			return
		}
		ops = append(ops, histOp{
			desc: oc.op.Name + "(" + argsStr(oc.args) + ")",
			run: func() string {
				r, p, _ := callOp(oc.op, oc.args)
				if p {
					return "rejected"
				}
				return goStr(r)
			},
			perturbing: p,
		})
	})
	ints := hashCollidingInts()
	strs := []cty.Value{cty.StringVal("a"), cty.StringVal("b"), cty.StringVal("é")}
	tup := func(a, b cty.Value) cty.Value { return cty.TupleVal([]cty.Value{a, b}) }
	tups := []cty.Value{tup(cty.StringVal("a"), cty.NumberIntVal(1)), tup(cty.StringVal("b"), cty.NumberIntVal(2))}
	member := func(name string, ms []cty.Value) {
		for i := range ms {
			i := i
			ops = append(ops, histOp{
				desc: fmt.Sprintf("SetVal(%s).HasElement(member %d)", name, i),
				run: func() string {
					s := cty.SetVal(ms)
					return goStr(s.HasElement(ms[i])) + fmt.Sprint(" length ", s.LengthInt())
				},
				oracle: func(out string) string {
					if out != fmt.Sprint("cty.True length ", len(ms)) {
						return fmt.Sprintf("a set built from %d distinct values has them all as elements", len(ms))
					}
					return ""
				},
			})
			ops = append(ops, histOp{
				desc: fmt.Sprintf("ValueSet(%s) Add all, Has(member %d), Remove, Has", name, i),
				run: func() string {
					vs := cty.NewValueSet(ms[0].Type())
					for _, m := range ms {
						vs.Add(m)
					}
					a := vs.Has(ms[i])
					vs.Remove(ms[i])
					return fmt.Sprint(a, vs.Has(ms[i]), vs.Length())
				},
				oracle: func(out string) string {
					if out != fmt.Sprint(true, false, len(ms)-1) {
						return "Add, Has, Remove, Has on a value set must answer true, false and lose exactly one member"
					}
					return ""
				},
			})
		}
	}
	member("colliding ints", ints[:3])
	member("strings", strs)
	member("tuples", tups)
	rej := func(desc string, f func()) {
		ops = append(ops, histOp{desc: desc, perturbing: true, run: func() string {
			f()
			return "returned"
		}})
	}
	rej("Hash(marked string)", func() { cty.StringVal("secret").Mark(markM1).Hash() })
	rej("Hash(tuple with a marked member)", func() { tup(cty.StringVal("a"), cty.NumberIntVal(1).Mark(markM1)).Hash() })
	rej("ValueSet.Add(tuple with a marked member)", func() {
		cty.NewValueSet(tups[0].Type()).Add(tup(cty.StringVal("zz"), cty.NumberIntVal(1).Mark(markM1)))
	})
	rej("ValueSet.Has(list with a marked member)", func() {
		cty.NewValueSet(cty.List(cty.String)).Has(cty.ListVal([]cty.Value{cty.StringVal("q"), cty.StringVal("r").Mark(markM2)}))
	})
	rej("Hash(object with a long string and then a marked attribute)", func() {
		cty.ObjectVal(map[string]cty.Value{"a": cty.StringVal(strings.Repeat("x", 100)), "b": cty.True.Mark(markM1)}).Hash()
	})
	rej("Hash(capsule whose HashKey panics)", func() { cty.CapsuleVal(capsPanicHashType, &capsNative{1}).Hash() })
	rej("SetVal(capsules whose HashKey panics)", func() {
		cty.SetVal([]cty.Value{cty.CapsuleVal(capsPanicHashType, &capsNative{1})})
	})
	return ops
}

// capsPanicHashType: a capsule type whose HashKey callback panics (a caller's bug the library
// has to survive: the panic propagates, the process may recover and carry on).
var capsPanicHashType = cty.CapsuleWithOps("panichash", reflect.TypeOf(capsNative{}), &cty.CapsuleOps{
	RawEquals: func(a, b interface{}) bool { return a.(*capsNative).N == b.(*capsNative).N },
	HashKey:   func(v interface{}) string { panic("HashKey callback failed") },
})

// c02Derived: operands that are themselves results of operations (two-step expressions).  The
// statement's integer clause does not depend on how an integer operand was obtained: when both
// operands are whole numbers and the exact result is a whole number that fits 64 bits, the
// result is exact; otherwise it agrees with exact rational arithmetic to within the precision
// of the leaves the operands were computed from (at least 53 bits).
func c02Derived(c *Ctx) {
	leaves := []int64{0, 1, -1, 3, 4, 6, 7, 10, 37, 100, 1000, 65536, 1 << 31, -5, 255, 12345}
	type dv struct {
		v    cty.Value
		desc string
	}
	var ds []dv
	seen := map[string]bool{}
	add := func(v cty.Value, desc string) {
		f := bf(v)
		k := fmt.Sprintf("%s/%d", f.Text('g', 40), f.Prec())
		if f.IsInf() || seen[k] {
			return
		}
		seen[k] = true
		ds = append(ds, dv{v, desc})
	}
	for _, a := range leaves {
		for _, b := range leaves {
			x, y := cty.NumberIntVal(a), cty.NumberIntVal(b)
			for _, on := range []string{"Multiply", "Add", "Subtract", "Divide", "Modulo"} {
				if r, p, _ := callOp(opByName(on), []cty.Value{x, y}); !p {
					add(r, fmt.Sprintf("%s(%d, %d)", on, a, b))
				}
			}
		}
		x := cty.NumberIntVal(a)
		add(x.Negate(), fmt.Sprintf("Negate(%d)", a))
		add(x.Absolute(), fmt.Sprintf("Absolute(%d)", a))
		add(cty.NumberFloatVal(float64(a)).Multiply(cty.NumberFloatVal(0.5)), fmt.Sprintf("Multiply(%d.0, 0.5)", a))
	}
	c.Note("derived_operands", fmt.Sprint(len(ds)))
	for i := range ds {
		i := i
		c.Unit(func(u *U) {
			a := ds[i]
			for _, b := range ds {
				for _, on := range []string{"Add", "Subtract", "Multiply", "Divide", "Modulo"} {
					u.Eval(1)
					u.DistinctN(1)
					ex := refNumBinary(on, a.v, b.v)
					if ex.unspecified || ex.inf != 0 || ex.exact == nil {
						continue
					}
					r, pan, msg := callOp(opByName(on), []cty.Value{a.v, b.v})
					desc := fmt.Sprintf("%s(%s = %s, %s = %s)", on, a.desc, goStr(a.v), b.desc, goStr(b.v))
					if pan {
						u.Violation(on+".rejects", "derived operands", desc+" panicked: "+msg)
						continue
					}
					ra, rb := ratOf(a.v), ratOf(b.v)
					if ra.IsInt() && rb.IsInt() && ex.exact.IsInt() && ex.exact.Num().IsInt64() {
						u.Class("derived-integer-exact")
						if ratOf(r).Cmp(ex.exact) != 0 {
							u.Violation(on+".integer-inexact", "derived operands", fmt.Sprintf("%s = %s; both operands are whole numbers and the exact result %s fits 64 bits", desc, goStr(r), ex.exact.RatString()))
						}
						continue
					}
					u.Class("derived-within-precision")
					// every leaf came from a constructor giving at least 53 bits
					p := maxPrec(a.v, b.v)
					if p < 53 {
						p = 53
					}
					checkNumResult(u, on, desc, "derived operands", r, ex, p)
				}
			}
		})
	}
}
