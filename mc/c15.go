package main

import (
	"encoding/json"
	"fmt"
	"strings"

	"github.com/zclconf/go-cty/cty"
	ctyjson "github.com/zclconf/go-cty/cty/json"
)

func init() {
	register(&Check{
		ID:        "C15",
		DeepQuick: true,
		Level:     "exploration",
		Rule: "(a) every wholly known, unmarked, capsule-free value of the bounded universe (all kinds, nulls at any depth, empty collections, the full number alphabet except infinities, normalising strings) x every type constraint obtained from its type by replacing any antichain of sub-types by the dynamic placeholder: Marshal / Unmarshal round trip, JSON validity, plain-decoding mirror; " +
			"(b) every document of a JSON grammar (scalars in several spellings, arrays and objects of <=2 members, depth<=2 (thorough 3), duplicate and normalising keys): ImpliedType = structural type, Unmarshal with it, re-marshal equal up to key order / number spelling / NFC, SimpleJSONValue agrees; " +
			"(c) values JSON cannot represent (unknown at any depth, marked at any depth, infinities) are rejected with an error; distinct by value GoString x constraint / by document; non-trivial = every case",
		Assumptions: []string{
			"encoding/json is the trusted judge of JSON validity and of the plain decoding",
			"the plain mirror wraps a position constrained by the dynamic placeholder as {\"value\":…,\"type\":…} (docs/json.md)",
			"documents with duplicate keys of equal implied type are checked for acceptance and type only (the statement's re-marshalling clause cannot apply to them)",
		},
		Run: runC15,
	})
}

// dynVariants returns t and every type obtained by replacing an antichain of
// sub-type positions by the dynamic placeholder (capped per node).
func dynVariants(t *TS, cap int) []*TS {
	out := []*TS{t}
	add := func(x *TS) {
		if len(out) < cap {
			out = append(out, x)
		}
	}
	switch t.K {
	case 'L', 'S', 'M':
		for _, e := range dynVariants(t.Elem, cap)[1:] {
			add(&TS{K: t.K, Elem: e})
		}
	case 'T':
		combos := [][]*TS{{}}
		for _, e := range t.Elems {
			var next [][]*TS
			for _, c := range combos {
				for _, ev := range dynVariants(e, 4) {
					next = append(next, append(append([]*TS(nil), c...), ev))
				}
			}
			combos = next
		}
		for _, c := range combos[1:] {
			add(&TS{K: 'T', Elems: c})
		}
	case 'O':
		combos := [][]TAttr{{}}
		for _, a := range t.Attrs {
			var next [][]TAttr
			for _, c := range combos {
				for _, av := range dynVariants(a.T, 4) {
					next = append(next, append(append([]TAttr(nil), c...), TAttr{Name: a.Name, T: av}))
				}
			}
			combos = next
		}
		for _, c := range combos[1:] {
			add(&TS{K: 'O', Attrs: c})
		}
	}
	if t.K != 'd' {
		add(tsDyn)
	}
	return out
}

func codecTypes(thorough bool) []*TS {
	ts := []*TS{
		tsBool, tsNum, tsStr,
		tList(tsStr), tList(tsNum), tSet(tsStr), tSet(tsNum), tMap(tsStr), tMap(tsNum), tList(tsBool),
		tTuple(), tTuple(tsStr), tTuple(tsStr, tsNum), tObj(), tObj(at("a", tsStr)), tObj(at("a", tsStr), at("b", tsNum)), tObj(at("é", tsNum)),
		tList(tList(tsNum)), tList(tObj(at("a", tsStr))), tSet(tTuple(tsStr, tsNum)), tMap(tList(tsStr)),
		tTuple(tList(tsStr), tObj(at("a", tsNum))), tObj(at("a", tList(tsStr))), tObj(at("a", tTuple(tsNum))), tSet(tList(tsNum)),
	}
	if thorough {
		ts = append(ts,
			tSet(tObj(at("a", tsStr), at("b", tsNum))), tMap(tMap(tsNum)), tList(tSet(tsStr)), tSet(tSet(tsNum)), tTuple(tsNum, tsNum), tTuple(tTuple(tsStr)),
			tObj(at("a", tObj(at("b", tsStr)))), tMap(tObj(at("a", tsNum))), tList(tTuple(tsStr, tsNum)), tSet(tMap(tsStr)), tMap(tSet(tsNum)), tMap(tsBool),
			tObj(at("a", tMap(tList(tsNum))), at("b", tTuple(tsBool, tSet(tsStr)))), tList(tList(tList(tsStr))),
		)
	}
	return ts
}

func codecValues(t *TS, thorough bool) []cty.Value {
	o := defaultValOpts(thorough)
	var nums []cty.Value
	for _, n := range mkNums(numAlphabet(true)) {
		if !isInf(n) {
			nums = append(nums, n)
		}
	}
	o.Nums = nums
	o.NestNums = []cty.Value{cty.NumberIntVal(0), cty.NumberFloatVal(2.5), parseNum("0.1"), cty.NumberUIntVal(1 << 63), parseNum("1e30")}
	o.NestStrs = []string{"a", "", "e\u0301", "\U0001F44D\U0001F3FD"}
	o.CapPerTy = 400
	if thorough {
		o.CapPerTy = 4000
		o.NestNums = nums
		o.NestStrs = strAlphabet
		o.MaxLen = 3
	}
	return codecKnownValues(t, o, true)
}

func jsonCall(f func() ([]byte, error)) (b []byte, err error, pan string) {
	defer func() {
		if r := recover(); r != nil {
			pan = fmt.Sprint(r)
		}
	}()
	b, err = f()
	return
}

func jsonUnm(f func() (cty.Value, error)) (v cty.Value, err error, pan string) {
	defer func() {
		if r := recover(); r != nil {
			pan = fmt.Sprint(r)
		}
	}()
	v, err = f()
	return
}

// jsonMirror builds the expected plain-JSON tree of v marshalled against
// constraint c.
func jsonMirror(v cty.Value, c *TS) *jnode {
	if c.K == 'd' {
		if v.IsNull() && v.Type() == cty.DynamicPseudoType {
			// an untyped null under a dynamic constraint: documented as the
			// wrapper with a null value; accept either (see jsonMirrorEq)
			return &jnode{kind: 'W', vals: []*jnode{{kind: 'z'}}, s: "dynamic"}
		}
		return &jnode{kind: 'W', vals: []*jnode{jsonMirror(v, tsOf(v.Type()))}, s: tsOf(v.Type()).Canon()}
	}
	if v.IsNull() {
		return &jnode{kind: 'z'}
	}
	t := v.Type()
	switch {
	case t == cty.String:
		return &jnode{kind: 's', s: v.AsString()}
	case t == cty.Number:
		if bf(v).IsInt() {
			return &jnode{kind: 'n', s: bf(v).Text('f', 0)}
		}
		return &jnode{kind: 'n', s: bf(v).Text('f', -1)}
	case t == cty.Bool:
		return &jnode{kind: 'b', b: v.True()}
	case t.IsListType() || t.IsSetType():
		n := &jnode{kind: 'a'}
		if t.IsSetType() {
			n.kind = 'A' // unordered array
		}
		for _, e := range seqElems(v) {
			n.vals = append(n.vals, jsonMirror(e, c.Elem))
		}
		return n
	case t.IsTupleType():
		n := &jnode{kind: 'a'}
		for i, e := range seqElems(v) {
			n.vals = append(n.vals, jsonMirror(e, c.Elems[i]))
		}
		return n
	case t.IsMapType():
		n := &jnode{kind: 'o'}
		for k, e := range v.AsValueMap() {
			n.keys = append(n.keys, k)
			n.vals = append(n.vals, jsonMirror(e, c.Elem))
		}
		return n
	case t.IsObjectType():
		n := &jnode{kind: 'o'}
		for k, e := range v.AsValueMap() {
			var ac *TS
			for _, a := range c.Attrs {
				if nfc(a.Name) == k {
					ac = a.T
				}
			}
			n.keys = append(n.keys, k)
			n.vals = append(n.vals, jsonMirror(e, ac))
		}
		return n
	}
	panic("jsonMirror: unsupported type")
}

// jsonMirrorEq compares an expected mirror with the decoded document.
func jsonMirrorEq(want, got *jnode) string {
	switch want.kind {
	case 'W':
		if want.s == "dynamic" && len(want.vals) == 1 && want.vals[0].kind == 'z' && got.kind == 'z' {
			return "" // an untyped null under the placeholder is written as a bare null
		}
		if got.kind != 'o' || len(got.keys) != 2 {
			return "a position under the dynamic placeholder is not a {value,type} wrapper"
		}
		var val, typ *jnode
		for i, k := range got.keys {
			switch k {
			case "value":
				val = got.vals[i]
			case "type":
				typ = got.vals[i]
			}
		}
		if val == nil || typ == nil {
			return "wrapper object lacks \"value\" or \"type\""
		}
		// the type member must decode to the value's type
		tb := renderJnode(typ)
		ty, err, pan := func() (t cty.Type, err error, pan string) {
			defer func() {
				if r := recover(); r != nil {
					pan = fmt.Sprint(r)
				}
			}()
			t, err = ctyjson.UnmarshalType([]byte(tb))
			return
		}()
		if pan != "" || err != nil {
			return "wrapper type member does not decode as a type: " + tb
		}
		if tsOf(ty).Canon() != want.s {
			return fmt.Sprintf("wrapper type member is %s, value type is %s", tsOf(ty).Canon(), want.s)
		}
		return jsonMirrorEq(want.vals[0], val)
	case 'z':
		if got.kind != 'z' {
			return "expected null"
		}
	case 's', 'n', 'b':
		w := *want
		if !jsonTreesEqual(&w, got) {
			return "scalar differs"
		}
	case 'a':
		if got.kind != 'a' || len(got.vals) != len(want.vals) {
			return "array shape differs"
		}
		for i := range want.vals {
			if why := jsonMirrorEq(want.vals[i], got.vals[i]); why != "" {
				return why
			}
		}
	case 'A':
		if got.kind != 'a' || len(got.vals) != len(want.vals) {
			return "array shape differs (set)"
		}
		used := make([]bool, len(got.vals))
		for _, w := range want.vals {
			found := false
			for j, g := range got.vals {
				if !used[j] && jsonMirrorEq(w, g) == "" {
					used[j], found = true, true
					break
				}
			}
			if !found {
				return "set member missing from the array"
			}
		}
	case 'o':
		if got.kind != 'o' || len(got.keys) != len(want.keys) || got.dup {
			return "object shape differs"
		}
		for i, k := range want.keys {
			found := false
			for j, gk := range got.keys {
				if gk == k {
					found = true
					if why := jsonMirrorEq(want.vals[i], got.vals[j]); why != "" {
						return why
					}
				}
			}
			if !found {
				return fmt.Sprintf("object lacks key %q", k)
			}
		}
	}
	return ""
}

func renderJnode(n *jnode) string {
	switch n.kind {
	case 'z':
		return "null"
	case 's':
		b, _ := json.Marshal(n.s)
		return string(b)
	case 'n':
		return n.s
	case 'b':
		if n.b {
			return "true"
		}
		return "false"
	case 'a':
		parts := make([]string, len(n.vals))
		for i, v := range n.vals {
			parts[i] = renderJnode(v)
		}
		return "[" + strings.Join(parts, ",") + "]"
	case 'o':
		parts := make([]string, len(n.vals))
		for i, v := range n.vals {
			k, _ := json.Marshal(n.keys[i])
			parts[i] = string(k) + ":" + renderJnode(v)
		}
		return "{" + strings.Join(parts, ",") + "}"
	}
	return "?"
}

func c15RoundTrip(u *U, v cty.Value, ct *TS) {
	defer tolerateOptFor(v)()
	u.Eval(1)
	cty_ := ct.Build()
	desc := func() string { return fmt.Sprintf("value %s against constraint %s", goStr(v), ct.Canon()) }
	shape := shapeOf(v) + " @ " + ct.Canon()
	b, err, pan := jsonCall(func() ([]byte, error) { return ctyjson.Marshal(v, cty_) })
	if pan != "" {
		u.Violation("json.marshal-panics", shape, fmt.Sprintf("Marshal of %s panicked: %s", desc(), firstLineOf(pan)))
		return
	}
	if err != nil {
		u.Violation("json.marshal-fails", shape, fmt.Sprintf("Marshal of %s failed: %v", desc(), err))
		return
	}
	checkRetained(u, "json.marshal", b, desc())
	if !json.Valid(b) {
		u.Violation("json.invalid-bytes", shape, fmt.Sprintf("Marshal of %s produced invalid JSON %q", desc(), b))
		return
	}
	if tree, perr := parseJSONDoc(string(b)); perr != nil {
		u.Violation("json.invalid-bytes", shape, fmt.Sprintf("Marshal of %s produced JSON that does not parse as one document: %q", desc(), b))
	} else if why := jsonMirrorEq(jsonMirror(v, ct), tree); why != "" {
		u.Violation("json.mirror-differs", shape, fmt.Sprintf("Marshal of %s = %s: plain decoding does not mirror the value: %s", desc(), b, why))
	}
	v2, err, pan := jsonUnm(func() (cty.Value, error) { return ctyjson.Unmarshal(b, cty_) })
	if pan != "" {
		u.Violation("json.unmarshal-panics", shape, fmt.Sprintf("Unmarshal of %s (from %s) panicked: %s", b, desc(), firstLineOf(pan)))
		return
	}
	if err != nil {
		site := "json.unmarshal-fails"
		if losesNestedType(v, ct) {
			site = "json.unmarshal-fails.null-or-empty-above-placeholder"
		}
		u.Violation(site, shape, fmt.Sprintf("Unmarshal of %s (from %s) failed: %v", b, desc(), err))
		return
	}
	if !v2.Type().Equals(v.Type()) {
		site := "json.roundtrip-type"
		if losesNestedType(v, ct) {
			// a null or an empty collection sits at a position whose constraint
			// has a placeholder further down: there is no member to carry the
			// type wrapper
			site = "json.roundtrip-type.null-or-empty-above-placeholder"
		}
		u.Violation(site, shape, fmt.Sprintf("%s: bytes %s decode to type %#v, original type %#v", desc(), b, v2.Type(), v.Type()))
		return
	}
	if !rawEq(v2, v) {
		u.Violation("json.roundtrip-value", shape, fmt.Sprintf("%s: bytes %s decode to %s", desc(), b, goStr(v2)))
		return
	}
	if why := wf(v2); why != "" {
		u.Violation("json.malformed", shape, fmt.Sprintf("%s: decoded value is malformed: %s", desc(), why))
	}
	u.Class("roundtrip-ok")
	if u.WantSample() {
		u.Sample(map[string]string{"value": goStr(v), "constraint": ct.Canon(), "json": string(b)})
	}
}

// ---- (b) documents

func jsonDocs(depth int) []string {
	scalars := []string{"null", "true", "false", "0", "-0", "1", "1.0", "1e2", "1E2", "0.1", "-1.5e-3", "123456789012345678901234567890", "0.10", `""`, `"a"`, "\"é\"", `"é"`, `"\n"`, `"👍"`}
	cur := scalars
	all := append([]string(nil), scalars...)
	keys := []string{`"a"`, `"b"`, "\"é\"", `"é"`, `""`}
	for d := 1; d <= depth; d++ {
		inner := cur
		if len(inner) > 14 {
			// members: a representative subset (every kind, every structure of the previous level)
			var sub []string
			for i, s := range inner {
				if i < 6 || i%5 == 0 || s[0] == '[' || s[0] == '{' {
					sub = append(sub, s)
				}
			}
			inner = sub
			if len(inner) > 60 {
				inner = inner[:60]
			}
		}
		var next []string
		next = append(next, "[]", "{}")
		for _, a := range inner {
			next = append(next, "["+a+"]", " [ "+a+" ] ")
			for _, k := range keys[:3] {
				next = append(next, "{"+k+":"+a+"}")
			}
			for _, b := range inner {
				next = append(next, "["+a+","+b+"]")
				next = append(next, "{"+keys[0]+":"+a+","+keys[1]+":"+b+"}")
				if a[0] == b[0] || (a[0] >= '0' && a[0] <= '9' || a[0] == '-') == (b[0] >= '0' && b[0] <= '9' || b[0] == '-') {
					next = append(next, "{"+keys[0]+":"+a+","+keys[0]+":"+b+"}") // duplicate key
					next = append(next, "{"+keys[2]+":"+a+","+keys[3]+":"+b+"}") // keys equal after normalisation
				}
			}
		}
		all = append(all, next...)
		cur = next
	}
	// number spellings: exponents of either sign and case, magnitudes beyond what a float64
	// holds exactly or at all, long digit strings, short literals of every length up to 16
	for _, x := range jsonNumberSpellings() {
		all = append(all, x, "["+x+"]", `{"a":`+x+"}", "["+x+",1]", "[0.5,"+x+"]")
	}
	return all
}

func jsonNumberSpellings() []string {
	out := []string{"1e22", "1e23", "-3e25", "1.5e30", "7e100", "1e308", "1.7976931348623157e308", "1e309", "1e400", "-1e400", "1e-400", "2.5e-320", "5e-324", "1e-7", "1E-7", "1e+2", "1E+2", "2.5e0", "25e-1",
		"9007199254740993", "123456789012345", "1234567890123456", "12345678901234567", "0.1234567890123", "0.12345678901234567", "0.000000000931322574615478515625",
		"340282346638528859811704183484516925440", "3.4028234663852886e38", "18446744073709551615", "18446744073709551616", "-9223372036854775808", "-9223372036854775809",
		"0.30000000000000004", "0.1000000000000000055511151231257827021181583404541015625", "1.00000000000000000000000000000000000001", "100e-2", "0e0", "-0.0", "0.0e-5"}
	return out
}

// structural type of a parsed document (the reference implied type), ok=false
// when duplicate keys conflict.
func impliedRef(n *jnode) (*TS, bool, bool) {
	switch n.kind {
	case 's':
		return tsStr, true, false
	case 'n':
		return tsNum, true, false
	case 'b':
		return tsBool, true, false
	case 'z':
		return tsDyn, true, false
	case 'a':
		var es []*TS
		dup := false
		for _, v := range n.vals {
			t, ok, d := impliedRef(v)
			if !ok {
				return nil, false, d
			}
			dup = dup || d
			es = append(es, t)
		}
		return &TS{K: 'T', Elems: es}, true, dup
	case 'o':
		m := map[string]*TS{}
		dup := false
		for i, k := range n.keys {
			t, ok, d := impliedRef(n.vals[i])
			if !ok {
				return nil, false, d
			}
			dup = dup || d
			if prev, seen := m[k]; seen {
				dup = true
				if prev.Canon() != t.Canon() {
					return nil, false, true
				}
			}
			m[k] = t
		}
		var as []TAttr
		for k, t := range m {
			as = append(as, TAttr{Name: k, T: t})
		}
		return tObj(as...), true, dup
	}
	return nil, false, false
}

func c15Doc(u *U, doc string) {
	u.Eval(1)
	tree, perr := parseJSONDoc(doc)
	if perr != nil {
		return // the grammar only produces valid documents; defensive
	}
	want, ok, dup := impliedRef(tree)
	shape := "doc"
	if dup {
		shape = "doc-with-duplicate-keys"
	}
	ity, err, pan := func() (t cty.Type, err error, pan string) {
		defer func() {
			if r := recover(); r != nil {
				pan = fmt.Sprint(r)
			}
		}()
		t, err = ctyjson.ImpliedType([]byte(doc))
		return
	}()
	if pan != "" {
		u.Violation("json.impliedtype-panics", shape, fmt.Sprintf("ImpliedType(%s) panicked: %s", doc, firstLineOf(pan)))
		return
	}
	if !ok {
		// conflicting duplicate keys: outside the statement
		u.Class("conflicting-duplicates")
		return
	}
	if err != nil {
		u.Violation("json.impliedtype-fails", shape, fmt.Sprintf("ImpliedType(%s) failed: %v", doc, err))
		return
	}
	if tsOf(ity).Canon() != want.Canon() {
		u.Violation("json.impliedtype-differs", shape, fmt.Sprintf("ImpliedType(%s) = %#v, structural type is %s", doc, ity, want.Canon()))
		return
	}
	v, err, pan := jsonUnm(func() (cty.Value, error) { return ctyjson.Unmarshal([]byte(doc), ity) })
	if pan != "" {
		u.Violation("json.unmarshal-panics", shape, fmt.Sprintf("Unmarshal(%s, implied type) panicked: %s", doc, firstLineOf(pan)))
		return
	}
	if err != nil {
		u.Violation("json.unmarshal-fails", shape, fmt.Sprintf("Unmarshal(%s, implied type %#v) failed: %v", doc, ity, err))
		return
	}
	if why := wf(v); why != "" {
		u.Violation("json.malformed", shape, fmt.Sprintf("Unmarshal(%s) is malformed: %s", doc, why))
		return
	}
	if !refConforms(tsOf(v.Type()), want) {
		u.Violation("json.unmarshal-type", shape, fmt.Sprintf("Unmarshal(%s) has type %#v", doc, v.Type()))
		return
	}
	u.Class("doc-ok")
	if dup {
		return
	}
	b, err, pan := jsonCall(func() ([]byte, error) { return ctyjson.Marshal(v, ity) })
	if pan != "" || err != nil {
		u.Violation("json.remarshal-fails", shape, fmt.Sprintf("re-marshalling the value of %s failed: %v %s", doc, err, firstLineOf(pan)))
		return
	}
	checkRetained(u, "json.marshal", b, "document "+doc)
	t2, perr := parseJSONDoc(string(b))
	if perr != nil || !jsonTreesEqual(tree, t2) {
		u.Violation("json.remarshal-differs", shape, fmt.Sprintf("document %s re-marshals as %s", doc, b))
	}
	// SimpleJSONValue agrees with ImpliedType + Unmarshal
	var sv ctyjson.SimpleJSONValue
	err, pan = func() (err error, pan string) {
		defer func() {
			if r := recover(); r != nil {
				pan = fmt.Sprint(r)
			}
		}()
		return sv.UnmarshalJSON([]byte(doc)), ""
	}()
	if pan != "" || err != nil {
		u.Violation("json.simple-fails", shape, fmt.Sprintf("SimpleJSONValue.UnmarshalJSON(%s) failed: %v %s", doc, err, firstLineOf(pan)))
		return
	}
	if !rawEq(sv.Value, v) {
		u.Violation("json.simple-differs", shape, fmt.Sprintf("SimpleJSONValue.UnmarshalJSON(%s) = %s, Unmarshal with the implied type = %s", doc, goStr(sv.Value), goStr(v)))
	}
	sb, err, pan := jsonCall(func() ([]byte, error) { return sv.MarshalJSON() })
	if pan != "" || err != nil {
		u.Violation("json.simple-fails", shape, fmt.Sprintf("SimpleJSONValue.MarshalJSON for %s failed: %v %s", doc, err, firstLineOf(pan)))
		return
	}
	if t3, perr := parseJSONDoc(string(sb)); perr != nil || !jsonTreesEqual(tree, t3) {
		u.Violation("json.simple-differs", shape, fmt.Sprintf("SimpleJSONValue re-marshals %s as %s", doc, sb))
	}
	if u.WantSample() {
		u.Sample(map[string]string{"document": doc, "implied_type": want.Canon()})
	}
}

func runC15(c *Ctx) {
	// history clause first, so that each worker process meets it in its initial state
	histFamily(c, "json encoder and decoder calls", jsonHistoryOps)
	// (a)
	for _, t := range codecTypes(c.Thorough) {
		t := t
		vals := codecValues(t, c.Thorough)
		cons := dynVariants(t, 40)
		for lo := 0; lo < len(vals); lo += 8 {
			hi := lo + 8
			if hi > len(vals) {
				hi = len(vals)
			}
			part := vals[lo:hi]
			c.Unit(func(u *U) {
				for _, v := range part {
					for _, ct := range cons {
						u.DistinctN(1)
						c15RoundTrip(u, v, ct)
					}
				}
			})
		}
	}
	// (a') names and strings that need escaping: object attribute names, map keys and string
	// values holding control characters, DEL, quotes, backslashes, line separators and
	// non-printable runes beyond the BMP, against their own type and under the placeholder
	for _, hv := range nameHazardValues() {
		hv := hv
		c.Unit(func(u *U) {
			for _, ct := range dynVariants(hv.t, 8) {
				u.DistinctN(1)
				c15RoundTrip(u, hv.v, ct)
			}
		})
	}
	// (a'') untyped nulls below tuples and objects, hand-built types with optional attributes
	for _, hv := range untypedNullValues(false) {
		hv := hv
		c.Unit(func(u *U) {
			for _, ct := range dynVariants(hv.t, 16) {
				u.DistinctN(1)
				c15RoundTrip(u, hv.v, ct)
			}
		})
	}
	// (c) rejections
	c.Unit(func(u *U) {
		bad := []cty.Value{
			cty.UnknownVal(cty.String), cty.DynamicVal, cty.PositiveInfinity, cty.NegativeInfinity, cty.StringVal("a").Mark(markM1),
			cty.ListVal([]cty.Value{cty.UnknownVal(cty.String)}), cty.ListVal([]cty.Value{cty.StringVal("a").Mark(markM1)}),
			cty.TupleVal([]cty.Value{cty.PositiveInfinity}), cty.ObjectVal(map[string]cty.Value{"a": cty.UnknownVal(cty.Number).RefineNotNull()}),
			cty.MapVal(map[string]cty.Value{"k": cty.NegativeInfinity}), cty.SetVal([]cty.Value{cty.UnknownVal(cty.String)}),
			cty.ListVal([]cty.Value{cty.StringVal("a")}).Mark(markM2), cty.NullVal(cty.String).Mark(markM1), cty.UnknownVal(cty.List(cty.String)),
			cty.TupleVal([]cty.Value{cty.DynamicVal}), cty.ObjectVal(map[string]cty.Value{"a": cty.ListVal([]cty.Value{cty.True.Mark(markM3)})}),
		}
		for _, v := range bad {
			for _, ct := range []cty.Type{v.Type(), cty.DynamicPseudoType} {
				u.Eval(1)
				u.DistinctN(1)
				b, err, pan := jsonCall(func() ([]byte, error) { return ctyjson.Marshal(v, ct) })
				switch {
				case pan != "":
					u.Violation("json.reject-panics", shapeOf(v), fmt.Sprintf("Marshal(%s, %#v) panicked instead of returning an error: %s", goStr(v), ct, firstLineOf(pan)))
				case err == nil:
					u.Violation("json.mis-encodes", shapeOf(v), fmt.Sprintf("Marshal(%s, %#v) = %s although JSON cannot represent the value", goStr(v), ct, b))
				default:
					u.Class("rejected-as-required")
				}
			}
		}
	})
	// (b)
	depth := 3
	docs := jsonDocs(depth)
	c.Note("json_documents", fmtInt(len(docs)))
	for lo := 0; lo < len(docs); lo += 100 {
		hi := lo + 100
		if hi > len(docs) {
			hi = len(docs)
		}
		part := docs[lo:hi]
		c.Unit(func(u *U) {
			for _, d := range part {
				u.DistinctN(1)
				c15Doc(u, d)
			}
		})
	}
}

// losesNestedType reports whether v has a null or an empty collection at a
// position whose constraint is not itself the dynamic placeholder but contains
// one below.
func losesNestedType(v cty.Value, ct *TS) bool {
	if ct.K == 'd' {
		return false
	}
	if v.IsNull() {
		return ct.HasDyn()
	}
	if !v.IsKnown() {
		// (msgpack only) an unknown value carries no members either
		return ct.HasDyn()
	}
	t := v.Type()
	switch {
	case t.IsListType() || t.IsSetType() || t.IsMapType():
		es := children(v)
		if len(es) == 0 {
			return ct.Elem.HasDyn()
		}
		if ct.Elem.K == 'O' || ct.Elem.K == 'T' {
			// members of a collection are unified after decoding, and for object and tuple
			// members that works attribute by attribute: one member that carries its full type
			// gives it to the null ones, so the type is lost only when every member loses it.
			// (For members that are themselves collections the unification of an empty or null
			// member with a typed sibling fails on the unchanged tree: part of the known finding.)
			for _, e := range es {
				if !losesNestedType(e, ct.Elem) {
					return false
				}
			}
			return true
		}
		for _, e := range es {
			if losesNestedType(e, ct.Elem) {
				return true
			}
		}
	case t.IsTupleType():
		for i, e := range children(v) {
			if losesNestedType(e, ct.Elems[i]) {
				return true
			}
		}
	case t.IsObjectType():
		for k, e := range v.AsValueMap() {
			for _, a := range ct.Attrs {
				if nfc(a.Name) == k && losesNestedType(e, a.T) {
					return true
				}
			}
		}
	}
	return false
}

// codecKnownValues is knownValues without the small per-level member caps
// (the codec checks are cheap per case): members are drawn from the whole
// nested alphabets, bounded only by o.CapPerTy per type.
func codecKnownValues(t *TS, o ValOpts, top bool) []cty.Value {
	var out []cty.Value
	ty := t.Build()
	memberCap := 8
	if o.CapPerTy >= 4000 {
		memberCap = 24
	}
	switch t.K {
	case 'L', 'S':
		ms := capVals(codecKnownValues(t.Elem, o, false), memberCap)
		if t.K == 'L' {
			out = append(out, cty.ListValEmpty(t.Elem.Build()))
		} else {
			out = append(out, cty.SetValEmpty(t.Elem.Build()))
		}
		mk := cty.ListVal
		if t.K == 'S' {
			mk = cty.SetVal
		}
		for _, a := range ms {
			out = append(out, mk([]cty.Value{a}))
		}
		for i, a := range ms {
			for j, b := range ms {
				if t.K == 'S' && j <= i {
					continue
				}
				out = append(out, mk([]cty.Value{a, b}))
			}
		}
		if len(ms) >= 3 {
			out = append(out, mk([]cty.Value{ms[0], ms[1], ms[2]}), mk([]cty.Value{ms[2], ms[0], ms[len(ms)-1]}))
		}
	case 'M':
		ms := capVals(codecKnownValues(t.Elem, o, false), memberCap)
		out = append(out, cty.MapValEmpty(t.Elem.Build()))
		for _, a := range ms {
			out = append(out, cty.MapVal(map[string]cty.Value{"k1": a}), cty.MapVal(map[string]cty.Value{"e\u0301": a}))
			for _, b := range ms {
				out = append(out, cty.MapVal(map[string]cty.Value{"k1": a, "": b}))
			}
		}
	case 'T':
		out = productVals(len(t.Elems), func(i int) []cty.Value { return capVals(codecKnownValues(t.Elems[i], o, false), memberCap) },
			func(vs []cty.Value) cty.Value { return cty.TupleVal(vs) })
	case 'O':
		out = productVals(len(t.Attrs), func(i int) []cty.Value { return capVals(codecKnownValues(t.Attrs[i].T, o, false), memberCap) },
			func(vs []cty.Value) cty.Value {
				m := map[string]cty.Value{}
				for i, a := range t.Attrs {
					m[a.Name] = vs[i]
				}
				return cty.ObjectVal(m)
			})
	default:
		return knownValues(t, o, top)
	}
	if o.CapPerTy > 0 {
		out = capVals(out, o.CapPerTy)
	}
	if o.Nulls {
		out = append(out, cty.NullVal(ty))
	}
	return out
}

// retainedOutput keeps the byte slice a marshal call returned, with a private copy, until the
// next marshal call of the same family has returned: the caller owns what an encoder returns,
// so a later call must not change it (a pooled or reused scratch buffer would).
type retainedOutput struct {
	b    []byte
	copy string
	desc string
}

var retainedOutputs = map[string]*retainedOutput{}

// checkRetained compares the previously retained output of this family with its copy, then
// retains b.  Call it right after every successful marshal.
func checkRetained(u *U, family string, b []byte, desc string) {
	if r := retainedOutputs[family]; r != nil && string(r.b) != r.copy {
		u.Violation(family+".output-overwritten", family, fmt.Sprintf("the bytes returned for %s were %q; after the next call (%s) the same slice holds %q", r.desc, r.copy, desc, string(r.b)))
	}
	retainedOutputs[family] = &retainedOutput{b: b, copy: string(b), desc: desc}
}

type hazardValue struct {
	v cty.Value
	t *TS
}

var hazardNames = []string{"\a", "\v", "\x01", "\x1f", "\x7f", "\x00", "\U000E0001", "\"q\"", "back\\slash", "line\nbreak\ttab", "\u2028\u2029", "<&>", "\b\f\r", "\u0085", "\ufeffbom", "/", "\U0001F44D"}

// nameHazardValues: every hazardous string as an object attribute name, a map key, a string
// value and a set member, alone and nested.
func nameHazardValues() []hazardValue {
	var out []hazardValue
	for _, h := range hazardNames {
		sv := cty.StringVal("v" + h)
		out = append(out,
			hazardValue{cty.ObjectVal(map[string]cty.Value{h: sv}), tObj(at(h, tsStr))},
			hazardValue{cty.ObjectVal(map[string]cty.Value{h: cty.NumberIntVal(1), "a": cty.True}), tObj(at(h, tsNum), at("a", tsBool))},
			hazardValue{cty.MapVal(map[string]cty.Value{h: sv, "k": cty.StringVal("")}), tMap(tsStr)},
			hazardValue{cty.ListVal([]cty.Value{cty.ObjectVal(map[string]cty.Value{h: sv})}), tList(tObj(at(h, tsStr)))},
			hazardValue{cty.TupleVal([]cty.Value{cty.MapVal(map[string]cty.Value{h: cty.NumberIntVal(2)}), sv}), tTuple(tMap(tsNum), tsStr)},
			hazardValue{cty.SetVal([]cty.Value{sv, cty.StringVal(h)}), tSet(tsStr)},
			hazardValue{cty.ObjectVal(map[string]cty.Value{"o": cty.ObjectVal(map[string]cty.Value{h: cty.NullVal(cty.String)})}), tObj(at("o", tObj(at(h, tsStr))))},
		)
	}
	return out
}

// retainedValue: the value counterpart of retainedOutput.  A value the library returned stays
// what it was while later calls of the same family run (no scratch storage shared with them).
type retainedValue struct {
	v    cty.Value
	str  string
	desc string
}

var retainedValues = map[string]*retainedValue{}

func checkRetainedValue(u *U, family string, v cty.Value, desc string) {
	if r := retainedValues[family]; r != nil {
		if now := goStr(r.v); now != r.str {
			u.Violation(family+".result-overwritten", family, fmt.Sprintf("the value returned for %s was %s; after the next call (%s) the same value reads %s", r.desc, trunc(r.str, 300), desc, trunc(now, 300)))
		}
	}
	retainedValues[family] = &retainedValue{v: v, str: goStr(v), desc: desc}
}

// untypedNullValues: wholly known values that hold an untyped null (a null of the dynamic
// pseudo-type: what decoding a JSON null without type information gives) below a tuple or an
// object, so that the value's own type has a placeholder inside; and, for C16R-like routes, null /
// unknown / empty values whose hand-built type has optional attributes.  Each goes against its own
// type and against every constraint with a placeholder at an ancestor of the null.
func untypedNullValues(withUnknown bool) []hazardValue {
	dn := cty.NullVal(cty.DynamicPseudoType)
	vs := []cty.Value{
		dn,
		cty.TupleVal([]cty.Value{dn, cty.True}),
		cty.ObjectVal(map[string]cty.Value{"a": dn, "b": cty.StringVal("x")}),
		cty.TupleVal([]cty.Value{cty.TupleVal([]cty.Value{dn}), cty.StringVal("s")}),
		cty.ObjectVal(map[string]cty.Value{"a": cty.TupleVal([]cty.Value{dn, cty.NumberIntVal(1)})}),
		cty.TupleVal([]cty.Value{cty.ObjectVal(map[string]cty.Value{"n": dn}), cty.ListVal([]cty.Value{cty.StringVal("l")})}),
		cty.TupleVal([]cty.Value{dn, dn}),
	}
	// collections with a null member next to members that fill a placeholder nested in the
	// element constraint (the decoded members then differ in type until they are unified)
	{
		ot := cty.Object(map[string]cty.Type{"a": cty.String, "b": cty.Number})
		ov := cty.ObjectVal(map[string]cty.Value{"a": cty.StringVal("x"), "b": cty.NumberIntVal(1)})
		tt := cty.Tuple([]cty.Type{cty.String, cty.Bool})
		tv := cty.TupleVal([]cty.Value{cty.StringVal("x"), cty.True})
		vs = append(vs,
			cty.ListVal([]cty.Value{cty.NullVal(ot), ov}), cty.ListVal([]cty.Value{ov, cty.NullVal(ot)}), cty.SetVal([]cty.Value{cty.NullVal(ot), ov}),
			cty.MapVal(map[string]cty.Value{"n": cty.NullVal(ot), "v": ov}),
			cty.ListVal([]cty.Value{cty.NullVal(tt), tv}), cty.MapVal(map[string]cty.Value{"n": cty.NullVal(tt), "v": tv}),
			cty.ListVal([]cty.Value{cty.NullVal(cty.List(cty.String)), cty.ListVal([]cty.Value{cty.StringVal("x")})}),
			cty.TupleVal([]cty.Value{cty.ListVal([]cty.Value{cty.NullVal(ot), ov, ov})}),
		)
		// ... and members that are not null themselves but hold a null at an intermediate position
		// above a placeholder two levels down, before and after a fully populated member
		it := cty.Object(map[string]cty.Type{"a": cty.String})
		full := cty.ObjectVal(map[string]cty.Value{"b": cty.ObjectVal(map[string]cty.Value{"a": cty.StringVal("x")})})
		hole := cty.ObjectVal(map[string]cty.Value{"b": cty.NullVal(it)})
		tfull := cty.TupleVal([]cty.Value{cty.TupleVal([]cty.Value{cty.NumberIntVal(1)})})
		thole := cty.TupleVal([]cty.Value{cty.NullVal(cty.Tuple([]cty.Type{cty.Number}))})
		vs = append(vs,
			cty.ListVal([]cty.Value{hole, full}), cty.ListVal([]cty.Value{full, hole}), cty.ListVal([]cty.Value{hole, hole, full}),
			cty.SetVal([]cty.Value{hole, full}),
			cty.MapVal(map[string]cty.Value{"a": hole, "b": full}), cty.MapVal(map[string]cty.Value{"a": full, "b": hole}),
			cty.ListVal([]cty.Value{thole, tfull}), cty.ListVal([]cty.Value{tfull, thole}),
			cty.ObjectVal(map[string]cty.Value{"l": cty.ListVal([]cty.Value{hole, full})}),
		)
	}
	optTy := cty.ObjectWithOptionalAttrs(map[string]cty.Type{"a": cty.String, "b": cty.Number}, []string{"b"})
	vs = append(vs, cty.NullVal(optTy), cty.ListValEmpty(optTy), cty.MapValEmpty(optTy),
		cty.TupleVal([]cty.Value{cty.NullVal(optTy), cty.StringVal("x")}), cty.ObjectVal(map[string]cty.Value{"o": cty.ListValEmpty(optTy)}), cty.NullVal(cty.List(optTy)))
	if withUnknown {
		vs = append(vs, cty.UnknownVal(optTy), cty.TupleVal([]cty.Value{cty.UnknownVal(cty.List(optTy)), cty.True}))
	}
	var out []hazardValue
	for _, v := range vs {
		out = append(out, hazardValue{v, tsOf(v.Type())})
	}
	return out
}
