package main

import (
	"fmt"
	"math"
	"math/big"
	"sort"
	"strings"

	"github.com/zclconf/go-cty/cty"
)

func init() {
	register(&Check{
		ID:    "C03",
		Level: "model_checking",
		Rule: "(a) all ordered pairs and same-type triples of a value pool (numbers at several precisions incl. decimal-text-equal and hash-text-colliding ones, normalising strings, nulls, nested structures, capsules, refined unknowns) checked against a documented-equality reference; " +
			"(b) breadth-first search over all histories (depth 5, thorough 7) of Add/Remove/Copy/swap/Union/Intersection/Subtract/SymmetricDifference on two real ValueSets over a 6-element colliding alphabet, a model set advanced in lock-step, invariant checked in every state; states keyed on the full bucket dump + model; " +
			"distinct = distinct pair GoStrings / distinct states; non-trivial = pairs of same type or both null, and every transition",
		Assumptions: []string{
			"documented number equality: equal integers, or equal shortest decimal text (reference implementation in the checker)",
			"set histories are bounded by depth and by the 6-element alphabet; states are de-duplicated per level-1 subtree",
		},
		Run: runC03,
	})
}

// docEqNum is the documented equality of numbers.
func docEqNum(a, b *big.Float) bool {
	if a.IsInf() || b.IsInf() {
		return a.IsInf() && b.IsInf() && a.Sign() == b.Sign()
	}
	if a.Sign() != b.Sign() {
		return false
	}
	if a.IsInt() != b.IsInt() {
		return false
	}
	if a.IsInt() {
		ai, _ := a.Int(nil)
		bi, _ := b.Int(nil)
		return ai.Cmp(bi) == 0
	}
	return a.Text('f', -1) == b.Text('f', -1)
}

// refRawEq: documented structural equality on known values (no marks).
func refRawEq(a, b cty.Value) bool {
	if tsOf(a.Type()).Canon() != tsOf(b.Type()).Canon() {
		return false
	}
	if a.IsNull() || b.IsNull() {
		return a.IsNull() && b.IsNull()
	}
	ty := a.Type()
	switch {
	case ty == cty.Number:
		return docEqNum(bf(a), bf(b))
	case ty == cty.String:
		return a.AsString() == b.AsString()
	case ty == cty.Bool:
		return a.True() == b.True()
	case ty.IsCapsuleType():
		return refEq(a, b) == eqYes
	case ty.IsSetType():
		ca, cb := children(a), children(b)
		for _, x := range ca {
			if !refRawMember(cb, x) {
				return false
			}
		}
		for _, x := range cb {
			if !refRawMember(ca, x) {
				return false
			}
		}
		return true
	case ty.IsMapType(), ty.IsObjectType():
		ma, mb := a.AsValueMap(), b.AsValueMap()
		if len(ma) != len(mb) {
			return false
		}
		for k, va := range ma {
			vb, ok := mb[k]
			if !ok || !refRawEq(va, vb) {
				return false
			}
		}
		return true
	default:
		ca, cb := children(a), children(b)
		if len(ca) != len(cb) {
			return false
		}
		for i := range ca {
			if !refRawEq(ca[i], cb[i]) {
				return false
			}
		}
		return true
	}
}

func refRawMember(ms []cty.Value, x cty.Value) bool {
	for _, m := range ms {
		if refRawEq(m, x) {
			return true
		}
	}
	return false
}

func c03Pool(thorough bool) []cty.Value {
	var pool []cty.Value
	pool = append(pool, mkNums(numAlphabet(true))...)
	for _, s := range strAlphabet {
		pool = append(pool, cty.StringVal(s))
	}
	pool = append(pool, structPool(thorough)...)
	// different whole numbers whose shortest decimal texts coincide at their
	// own precisions, and the same whole number at two precisions
	pool = append(pool,
		cty.NumberFloatVal(1e30), parseNum("1000000000000000019884624838656"), cty.NumberFloatVal(9223372036854775808), cty.NumberUIntVal(1<<63),
		cty.NumberFloatVal(math.MaxFloat32), parseNum("340282346638528860000000000000000000000"), parseNum("340282346638528859811704183484516925440"),
		cty.NumberFloatVal(1e22), parseNum("1e22"), cty.NumberFloatVal(1e23), parseNum("1e23"), parseNum("99999999999999991611392"),
		cty.NumberFloatVal(math.Copysign(0, -1)), cty.Zero.Negate(), parseNum("-0"),
	)
	// every number of the alphabet held differently (other precisions, widened by x+0 / x*1,
	// own shortest text parsed again), plus whole numbers beyond the float64 range
	huge := []cty.Value{bigIntNum(pow2(1024)), bigIntNum(pow2(1200)), parseNum("1e400"), cty.NumberVal(new(big.Float).SetPrec(53).SetInt(pow2(1024)))}
	pool = append(pool, huge...)
	pool = append(pool, numSpellings(append(mkNums(numAlphabet(true)), huge...))...)
	// structures wrapping the delicate numbers
	delicate := []cty.Value{
		cty.NumberFloatVal(0.1), parseNum("0.1"), cty.NumberFloatVal(0.12345678905), parseNum("0.12345678905"),
		parseNum("1.00000000001"), parseNum("1.00000000002"), cty.NumberIntVal(1), numPrec("1", 24),
	}
	for i, a := range delicate {
		pool = append(pool, cty.TupleVal([]cty.Value{a}), cty.ListVal([]cty.Value{a}), cty.SetVal([]cty.Value{a}),
			cty.ObjectVal(map[string]cty.Value{"a": a}), cty.MapVal(map[string]cty.Value{"k": a}))
		for j, b := range delicate {
			if j != i {
				pool = append(pool, cty.ListVal([]cty.Value{a, b}), cty.SetVal([]cty.Value{a, b}),
					cty.SetVal([]cty.Value{cty.TupleVal([]cty.Value{a}), cty.TupleVal([]cty.Value{b})}))
			}
		}
	}
	return pool
}

func hashOf(v cty.Value) (h int, ok bool) {
	defer func() {
		if r := recover(); r != nil {
			ok = false
		}
	}()
	return v.Hash(), true
}

// c03Strings: string values are equal exactly when their sources are
// canonically equivalent (NFC), including equivalences that involve no
// combining mark; equal ones hash alike and cannot both be set members.
func c03Strings(c *Ctx) {
	srcs := []string{
		"", "a", "A", "\u00c5", "\u212b", "A\u030a", "\u03a9", "\u2126", "\uac00", "\u1100\u1161", "\uac01", "\uac00\u11a8", "\u1100\u1161\u11a8",
		"\u8c48", "\uf900", "\u0308\u0301", "\u0344", "q\u0307\u0323", "q\u0323\u0307", "\u1e0b\u0323", "\u1e0d\u0307", "e\u0301", "\u00e9", "\u212a", "K",
		"\u00c5b", "\u212bb", "x\uf900", "x\u8c48",
	}
	c.Unit(func(u *U) {
		for _, s1 := range srcs {
			for _, s2 := range srcs {
				u.Eval(1)
				u.Distinct("nfc" + s1 + "|" + s2)
				a, b := cty.StringVal(s1), cty.StringVal(s2)
				want := nfc(s1) == nfc(s2)
				desc := fmt.Sprintf("StringVal(%+q) vs StringVal(%+q)", s1, s2)
				if got := a.RawEquals(b); got != want {
					u.Violation("String.rawequals-vs-canonical-equivalence", "str ; str", fmt.Sprintf("%s: RawEquals = %v, canonically equivalent = %v", desc, got, want))
					continue
				}
				if got := a.Equals(b); !got.IsKnown() || got.True() != want {
					u.Violation("String.equals-vs-canonical-equivalence", "str ; str", fmt.Sprintf("%s: Equals = %s, canonically equivalent = %v", desc, goStr(got), want))
				}
				ha, ok1 := hashOf(a)
				hb, ok2 := hashOf(b)
				if want && ok1 && ok2 && ha != hb {
					u.Violation("Hash.equal-values-differ", "str ; str", fmt.Sprintf("%s are equal but hash to %d and %d", desc, ha, hb))
				}
				if n := cty.SetVal([]cty.Value{a, b}).LengthInt(); (n == 1) != want {
					u.Violation("Set.holds-equal-strings", "str ; str", fmt.Sprintf("SetVal(%+q, %+q) has %d members, canonically equivalent = %v", s1, s2, n, want))
				}
				m := cty.MapVal(map[string]cty.Value{s1: cty.True})
				if has := m.HasIndex(b); !has.IsKnown() || has.True() != want {
					u.Violation("Map.key-vs-canonical-equivalence", "str ; str", fmt.Sprintf("MapVal{%+q:..}.HasIndex(%+q) = %s, canonically equivalent = %v", s1, s2, goStr(has), want))
				}
			}
		}
	})
}

func runC03(c *Ctx) {
	c03Strings(c)
	pool := c03Pool(c.Thorough)
	canon := make([]string, len(pool))
	for i, v := range pool {
		canon[i] = tsOf(v.Type()).Canon()
	}
	c.Note("pool_values", fmt.Sprint(len(pool)))
	// (a) pairs
	for i := range pool {
		i := i
		c.Unit(func(u *U) {
			a := pool[i]
			for j, b := range pool {
				u.Eval(1)
				sameType := canon[i] == canon[j]
				bothNull := a.IsNull() && b.IsNull()
				if sameType || bothNull {
					u.DistinctN(1)
				}
				c03Pair(u, a, b, sameType)
			}
			if u.WantSample() {
				u.Sample(map[string]string{"pair_row": goStr(a), "against": fmt.Sprintf("%d pool values", len(pool))})
			}
		})
	}
	// triples within a type
	groups := map[string][]int{}
	var gkeys []string
	for i := range pool {
		if _, ok := groups[canon[i]]; !ok {
			gkeys = append(gkeys, canon[i])
		}
		groups[canon[i]] = append(groups[canon[i]], i)
	}
	sort.Strings(gkeys)
	for _, gk := range gkeys {
		idx := groups[gk]
		c.Unit(func(u *U) {
			for _, i := range idx {
				for _, j := range idx {
					if !rawEq(pool[i], pool[j]) {
						continue
					}
					for _, k := range idx {
						u.Eval(1)
						if rawEq(pool[j], pool[k]) && !rawEq(pool[i], pool[k]) {
							u.Violation("RawEquals.transitive", shapeOf(pool[i])+" ; "+shapeOf(pool[j])+" ; "+shapeOf(pool[k]),
								fmt.Sprintf("RawEquals(%s,%s) and RawEquals(%s,%s) but not RawEquals(%s,%s)", goStr(pool[i]), goStr(pool[j]), goStr(pool[j]), goStr(pool[k]), goStr(pool[i]), goStr(pool[k])))
						}
					}
				}
			}
			u.DistinctN(len(idx))
		})
	}
	// unknowns: RawEquals reflexive / symmetric, Equals symmetric
	c.Unit(func(u *U) {
		var unks []cty.Value
		for _, x := range []cty.Value{cty.NumberIntVal(1), cty.StringVal("ab"), cty.ListVal([]cty.Value{cty.Zero}), cty.True, cty.EmptyObjectVal} {
			unks = append(unks, weakeningsOf(x, true)...)
		}
		unks = append(unks, cty.DynamicVal)
		for _, a := range unks {
			if !rawEq(a, a) {
				u.Violation("RawEquals.reflexive", shapeOf(a), fmt.Sprintf("RawEquals(%s, itself) = false", goStr(a)))
			}
			for _, b := range unks {
				u.Eval(1)
				u.DistinctN(1)
				if rawEq(a, b) != rawEq(b, a) {
					u.Violation("RawEquals.symmetric", shapeOf(a)+" ; "+shapeOf(b), fmt.Sprintf("RawEquals(%s,%s) asymmetric", goStr(a), goStr(b)))
				}
				r1, p1, _ := callOp(opByName("Equals"), []cty.Value{a, b})
				r2, p2, _ := callOp(opByName("Equals"), []cty.Value{b, a})
				if p1 != p2 || (!p1 && !rawEq(r1, r2)) {
					u.Violation("Equals.symmetric", shapeOf(a)+" ; "+shapeOf(b), fmt.Sprintf("Equals(%s,%s)=%s but reversed %s", goStr(a), goStr(b), goStr(r1), goStr(r2)))
				}
			}
		}
	})
	// (b) set histories
	depth := 5
	if c.Thorough {
		depth = 7
	}
	c.Note("set_history_depth", fmt.Sprint(depth))
	for _, alpha := range c03SetAlphabets() {
		if !c.Thorough && strings.Contains(alpha.name, "delimiters") {
			// quick tier: these alphabets go through the permutation clause and one shallower search
			exploreE2(c, &setSys{elems: alpha.elems, name: alpha.name}, depth-1, "set["+alpha.name+"].")
			continue
		}
		exploreE2(c, &setSys{elems: alpha.elems, name: alpha.name}, depth, "set["+alpha.name+"].")
		// the same search from non-initial states: three members (a bucket of length 3 has spare
		// capacity when the members collide), four, and a populated second set
		d2 := depth - 2
		exploreE2(c, &setSys{elems: alpha.elems, name: alpha.name + "/A={e0,e1,e2}", initA: []int{0, 1, 2}, initB: []int{3}}, d2, "set["+alpha.name+"/3].")
		exploreE2(c, &setSys{elems: alpha.elems, name: alpha.name + "/A={e0..e3},B={e1,e4}", initA: []int{0, 1, 2, 3}, initB: []int{1, 4}}, d2, "set["+alpha.name+"/4].")
		exploreE2(c, &setSys{elems: alpha.elems, name: alpha.name + "/A={e2,e1,e0},B={}", initA: []int{2, 1, 0}}, d2, "set["+alpha.name+"/3r].")
	}
	// constructor permutations
	c03Permutations(c)
}

func c03Pair(u *U, a, b cty.Value, sameType bool) {
	shape := shapeOf(a) + " ; " + shapeOf(b)
	desc := func() string { return goStr(a) + " vs " + goStr(b) }
	rab, rba := rawEq(a, b), rawEq(b, a)
	if rab != rba {
		u.Violation("RawEquals.symmetric", shape, fmt.Sprintf("RawEquals asymmetric on %s: %v / %v", desc(), rab, rba))
	}
	if want := refRawEq(a, b); rab != want {
		u.Violation("RawEquals.model", shape, fmt.Sprintf("RawEquals(%s) = %v, documented structural equality says %v", desc(), rab, want))
	}
	e1, p1, m1 := callOp(opByName("Equals"), []cty.Value{a, b})
	e2, p2, _ := callOp(opByName("Equals"), []cty.Value{b, a})
	if p1 || p2 {
		u.Violation("Equals.panics", shape, fmt.Sprintf("Equals(%s) panicked: %s", desc(), m1))
		return
	}
	if !rawEq(e1, e2) {
		u.Violation("Equals.symmetric", shape, fmt.Sprintf("Equals(%s) = %s but reversed = %s", desc(), goStr(e1), goStr(e2)))
	}
	if a.IsNull() && b.IsNull() {
		u.Class("null-null")
		if !(e1.IsKnown() && e1.True()) {
			u.Violation("Equals.null-null", shape, fmt.Sprintf("Equals(%s) = %s; two nulls must be equal", desc(), goStr(e1)))
		}
	}
	if sameType {
		if !e1.IsKnown() || e1.IsNull() {
			// wholly known pool values of one type: must be decided, unless a
			// dynamic-typed member makes the type not wholly known
			if !tsOf(a.Type()).HasDyn() {
				u.Violation("Equals.undecided", shape, fmt.Sprintf("Equals(%s) = %s on wholly known values of the same type", desc(), goStr(e1)))
			}
		} else if e1.True() != rab {
			u.Violation("Equals.vs-RawEquals", shape, fmt.Sprintf("Equals(%s) = %s but RawEquals = %v", desc(), goStr(e1), rab))
		}
		if rab {
			u.Class("equal")
		} else {
			u.Class("unequal")
		}
	} else {
		u.Class("cross-type")
		if e1.IsKnown() && e1.True() && !(a.IsNull() && b.IsNull()) {
			u.Violation("Equals.cross-type-true", shape, fmt.Sprintf("Equals(%s) = True for values of different types", desc()))
		}
	}
	if e1.IsKnown() && !e1.IsNull() && e1.True() && !a.IsNull() {
		ha, oka := hashOf(a)
		hb, okb := hashOf(b)
		if oka && okb && ha != hb {
			u.Violation("Hash.equal-values-differ", shape, fmt.Sprintf("Equals(%s) is True but Hash differs (%d vs %d)", desc(), ha, hb))
		}
	}
	if a.Type() == cty.Number && b.Type() == cty.Number && !a.IsNull() && !b.IsNull() {
		n := 0
		if a.LessThan(b).True() {
			n++
		}
		if a.GreaterThan(b).True() {
			n++
		}
		if e1.True() {
			n++
		}
		if n == 0 && numCmp(a, b) == 0 && bf(a).Prec() != bf(b).Prec() {
			// exactly the same numeric value held at two mantissa precisions, reported as
			// neither equal nor ordered: identified separately (see the findings file)
			u.Violation("Number.trichotomy.same-value-at-two-precisions-unordered", shape, fmt.Sprintf("%s are numerically identical (mantissa precisions %d and %d) yet LessThan, Equals and GreaterThan are all false", desc(), bf(a).Prec(), bf(b).Prec()))
		} else if n != 1 {
			u.Violation("Number.trichotomy", shape, fmt.Sprintf("%s: LessThan=%v Equals=%v GreaterThan=%v", desc(), a.LessThan(b).True(), e1.True(), a.GreaterThan(b).True()))
		}
	}
}

// ---------------------------------------------------------------------------
// (b) explicit-state search over ValueSet histories

type setAlpha struct {
	name  string
	elems []cty.Value
}

func c03SetAlphabets() []setAlpha {
	one := cty.NumberIntVal(1)
	return []setAlpha{
		{"numbers-colliding", []cty.Value{
			one, parseNum("1.00000000001"), parseNum("1.00000000002"), parseNum("1.00000000003"), parseNum("1.00000000004"),
			numPrec("1", 24), // equal to the first element, different precision
		}},
		{"numbers-decimal-text", []cty.Value{
			cty.NumberFloatVal(0.1), parseNum("0.1"), cty.NumberFloatVal(0.12345678905), parseNum("0.12345678905"), cty.Zero, cty.NullVal(cty.Number),
		}},
		{"tuples", []cty.Value{
			cty.TupleVal([]cty.Value{cty.StringVal("a"), one}), cty.TupleVal([]cty.Value{cty.StringVal("a"), parseNum("1.00000000001")}),
			cty.TupleVal([]cty.Value{cty.StringVal("a"), parseNum("1.00000000002")}), cty.TupleVal([]cty.Value{cty.StringVal("a"), parseNum("1.00000000003")}),
			cty.TupleVal([]cty.Value{cty.StringVal("a"), parseNum("1.00000000004")}), cty.TupleVal([]cty.Value{cty.StringVal("e\u0301"), numPrec("1", 24)}),
		}},
		{"strings", []cty.Value{
			cty.StringVal("a"), cty.StringVal("e\u0301"), cty.StringVal("\u00e9"), cty.StringVal(""), cty.NullVal(cty.String), cty.StringVal("b"),
		}},
		// capsule values of a type without a HashKey all share one hash
		// bucket (documented), so bucket-internal positions are exercised
		{"capsules-one-bucket", []cty.Value{
			cty.CapsuleVal(capsTypes[0], capsPtrs[0]), cty.CapsuleVal(capsTypes[0], capsPtrs[1]), cty.CapsuleVal(capsTypes[0], capsPtrs[2]),
			cty.CapsuleVal(capsTypes[0], capsPtrs[3]), cty.CapsuleVal(capsTypes[0], capsPtrs[4]), cty.CapsuleVal(capsTypes[0], capsPtrs[0]),
		}},
		{"numbers-hash-colliding", hashCollidingInts()},
		// one fraction held at several mantissa precisions (distinct members by the documented
		// equality - the upstream quirk recorded as a known finding - that no comparison orders)
		{"numbers-same-value-several-precisions", []cty.Value{
			cty.NumberFloatVal(0.1), cty.NumberFloatVal(0.1).Add(cty.NumberIntVal(0)), cty.NumberFloatVal(0.1).Multiply(parseNum("1")),
			cty.NumberFloatVal(0.3), cty.NumberFloatVal(0.3).Multiply(parseNum("1")), cty.NumberIntVal(1),
		}},
		// compound members whose strings hold the characters a rendering of the member uses as
		// quotes, separators and brackets: distinct members that any unescaped rendering confuses
		{"lists-of-strings-with-delimiters", []cty.Value{
			cty.ListVal([]cty.Value{cty.StringVal("a"), cty.StringVal("b")}), cty.ListVal([]cty.Value{cty.StringVal(`a";"b`)}),
			cty.ListVal([]cty.Value{cty.StringVal(`a","b`)}), cty.ListVal([]cty.Value{cty.StringVal("a;b")}),
			cty.ListVal([]cty.Value{cty.StringVal(`a"`), cty.StringVal(`"b`)}), cty.ListVal([]cty.Value{cty.StringVal(`a\";\"b`)}),
		}},
		{"objects-of-strings-with-delimiters", []cty.Value{
			cty.ObjectVal(map[string]cty.Value{"k": cty.StringVal("x"), "l": cty.StringVal("y")}), cty.ObjectVal(map[string]cty.Value{"k": cty.StringVal(`x";"l":"y`), "l": cty.StringVal("")}),
			cty.ObjectVal(map[string]cty.Value{"k": cty.StringVal(`x"`), "l": cty.StringVal(`;y`)}), cty.ObjectVal(map[string]cty.Value{"k": cty.StringVal(`x";`), "l": cty.StringVal(`y`)}),
			cty.ObjectVal(map[string]cty.Value{"k": cty.StringVal("x:y"), "l": cty.StringVal("")}), cty.ObjectVal(map[string]cty.Value{"k": cty.StringVal(""), "l": cty.StringVal("x:y")}),
		}},
		{"tuples-of-strings-with-delimiters", []cty.Value{
			cty.TupleVal([]cty.Value{cty.StringVal("a"), cty.StringVal("b")}), cty.TupleVal([]cty.Value{cty.StringVal(`a";"b`), cty.StringVal("")}),
			cty.TupleVal([]cty.Value{cty.StringVal(""), cty.StringVal(`a";"b`)}), cty.TupleVal([]cty.Value{cty.StringVal(`a"`), cty.StringVal(`;"b`)}),
			cty.TupleVal([]cty.Value{cty.StringVal(`a";`), cty.StringVal(`"b`)}), cty.TupleVal([]cty.Value{cty.StringVal("a;"), cty.StringVal("b")}),
		}},
	}
}

var capsPtrs = []*capsNative{{10}, {11}, {12}, {13}, {14}}

// hashCollidingInts searches the whole numbers 0,1,2,... for members whose
// real Value.Hash() coincide (found at run time through the public API, so
// it follows whatever hashing scheme the tree under test uses) and returns
// two colliding pairs (or a triple and a pair) plus fillers.
var hashCollidingCache []cty.Value

func hashCollidingInts() []cty.Value {
	if hashCollidingCache == nil {
		hashCollidingCache = hashCollidingInts1()
	}
	return hashCollidingCache
}

func hashCollidingInts1() []cty.Value {
	byHash := map[int][]int64{}
	var groups [][]int64
	for i := int64(0); i < 2_000_000 && len(groups) < 2; i++ {
		h := cty.NumberIntVal(i).Hash()
		byHash[h] = append(byHash[h], i)
		if len(byHash[h]) == 2 {
			groups = append(groups, byHash[h])
		}
	}
	var out []cty.Value
	for _, g := range groups {
		for _, i := range byHash[int64Hash(g[0])] {
			out = append(out, cty.NumberIntVal(i))
		}
	}
	for i := int64(0); len(out) < 6; i++ {
		out = append(out, cty.NumberIntVal(i))
	}
	return out[:6]
}

func int64Hash(i int64) int { return cty.NumberIntVal(i).Hash() }

type setSys struct {
	name  string
	elems []cty.Value
	initA []int // members A holds in the initial state (start from non-initial states too)
	initB []int
}

var setAlgebra = []string{"Union", "Intersection", "Subtract", "SymmetricDifference"}

func (s *setSys) NumOps() int { return 2*len(s.elems) + 2 + 2*len(setAlgebra) }
func (s *setSys) OpName(i int) string {
	n := len(s.elems)
	switch {
	case i < n:
		return fmt.Sprintf("A.Add(e%d)", i)
	case i < 2*n:
		return fmt.Sprintf("A.Remove(e%d)", i-n)
	case i == 2*n:
		return "B=A.Copy()"
	case i == 2*n+1:
		return "swap(A,B)"
	}
	if k := i - 2*n - 2; k < len(setAlgebra) {
		return "A=A." + setAlgebra[k] + "(B)"
	}
	// the result replaces B: the receiver A stays alive next to it
	return "B=A." + setAlgebra[i-2*n-2-len(setAlgebra)] + "(B)"
}

type setInst struct {
	sys    *setSys
	A, B   cty.ValueSet
	mA, mB []int // model: sorted indexes of equivalence-class representatives
	cls    []int // element index -> class representative index
}

func (s *setSys) New() E2Inst {
	ety := s.elems[0].Type()
	inst := &setInst{sys: s, A: cty.NewValueSet(ety), B: cty.NewValueSet(ety)}
	inst.cls = make([]int, len(s.elems))
	for i := range s.elems {
		inst.cls[i] = i
		for j := 0; j < i; j++ {
			if refRawEq(s.elems[i], s.elems[j]) {
				inst.cls[i] = inst.cls[j]
				break
			}
		}
	}
	for _, i := range s.initA {
		inst.A.Add(s.elems[i])
		inst.mA = modelAdd(inst.mA, inst.cls[i])
	}
	for _, i := range s.initB {
		inst.B.Add(s.elems[i])
		inst.mB = modelAdd(inst.mB, inst.cls[i])
	}
	return inst
}

func modelHas(m []int, c int) bool {
	for _, x := range m {
		if x == c {
			return true
		}
	}
	return false
}

func modelAdd(m []int, c int) []int {
	if modelHas(m, c) {
		return m
	}
	out := append(append([]int(nil), m...), c)
	sort.Ints(out)
	return out
}

func modelRemove(m []int, c int) []int {
	var out []int
	for _, x := range m {
		if x != c {
			out = append(out, x)
		}
	}
	return out
}

func (in *setInst) Apply(op int, check bool, report func(site, shape, detail string)) (ok bool) {
	n := len(in.sys.elems)
	defer func() {
		if r := recover(); r != nil {
			if report != nil {
				report("panic", in.sys.OpName(op), fmt.Sprintf("operation panicked: %v", r))
			}
			ok = true
		}
	}()
	var oldB string
	if check {
		oldB = fingerprint(false, in.B)
	}
	bTouched := false
	switch {
	case op < n:
		in.A.Add(in.sys.elems[op])
		in.mA = modelAdd(in.mA, in.cls[op])
	case op < 2*n:
		in.A.Remove(in.sys.elems[op-n])
		in.mA = modelRemove(in.mA, in.cls[op-n])
	case op == 2*n:
		in.B = in.A.Copy()
		in.mB = append([]int(nil), in.mA...)
		bTouched = true
	case op == 2*n+1:
		in.A, in.B = in.B, in.A
		in.mA, in.mB = in.mB, in.mA
		bTouched = true
	default:
		var r cty.ValueSet
		var m []int
		intoB := op-2*n-2 >= len(setAlgebra)
		switch setAlgebra[(op-2*n-2)%len(setAlgebra)] {
		case "Union":
			r = in.A.Union(in.B)
			m = append([]int(nil), in.mA...)
			for _, x := range in.mB {
				m = modelAdd(m, x)
			}
		case "Intersection":
			r = in.A.Intersection(in.B)
			for _, x := range in.mA {
				if modelHas(in.mB, x) {
					m = append(m, x)
				}
			}
		case "Subtract":
			r = in.A.Subtract(in.B)
			for _, x := range in.mA {
				if !modelHas(in.mB, x) {
					m = append(m, x)
				}
			}
		case "SymmetricDifference":
			r = in.A.SymmetricDifference(in.B)
			for _, x := range in.mA {
				if !modelHas(in.mB, x) {
					m = append(m, x)
				}
			}
			for _, x := range in.mB {
				if !modelHas(in.mA, x) {
					m = modelAdd(m, x)
				}
			}
			sort.Ints(m)
		}
		if intoB {
			in.B, in.mB = r, m
			bTouched = true
		} else {
			in.A, in.mA = r, m
		}
	}
	if !check {
		return true
	}
	in.checkSet("A", in.A, in.mA, report)
	in.checkSet("B", in.B, in.mB, report)
	if !bTouched {
		if nb := fingerprint(false, in.B); nb != oldB {
			// B is a different ValueSet than the one the operation mutated;
			// any change to the memory it reports from (slice elements up to
			// len; slack beyond len is not observable) is interference
			report("copy-interference", in.sys.OpName(op), "operation on A changed the memory reachable from the other set B")
		}
	}
	return true
}

func (in *setInst) checkSet(name string, s cty.ValueSet, model []int, report func(site, shape, detail string)) {
	elems := in.sys.elems
	for i, e := range elems {
		if got, want := s.Has(e), modelHas(model, in.cls[i]); got != want {
			report("has", fmt.Sprintf("%s.Has(e%d)", name, i), fmt.Sprintf("%s.Has(%s) = %v, model says %v (model members %v)", name, goStr(e), got, want, model))
		}
	}
	if got := s.Length(); got != len(model) {
		report("length", name, fmt.Sprintf("%s.Length() = %d, model has %d members %v", name, got, len(model), model))
	}
	vals := s.Values()
	for i := range vals {
		for j := i + 1; j < len(vals); j++ {
			if refRawEq(vals[i], vals[j]) {
				report("duplicate", name, fmt.Sprintf("%s holds two equal members %s and %s", name, goStr(vals[i]), goStr(vals[j])))
			}
		}
	}
	if len(vals) != len(model) {
		report("values-count", name, fmt.Sprintf("%s.Values() has %d members, model %d", name, len(vals), len(model)))
	}
	for _, c := range model {
		if !refRawMember(vals, elems[c]) {
			report("values-missing", name, fmt.Sprintf("%s.Values() lacks model member %s", name, goStr(elems[c])))
		}
	}
	// the set-typed value and a constructor call on the model members agree
	sv := cty.SetValFromValueSet(s)
	var ms []cty.Value
	for _, c := range model {
		ms = append(ms, elems[c])
	}
	var ref cty.Value
	if len(ms) == 0 {
		ref = cty.SetValEmpty(s.ElementType())
	} else {
		ref = cty.SetVal(ms)
	}
	if eq := sv.Equals(ref); !eq.IsKnown() || !eq.True() {
		report("value-equals", name, fmt.Sprintf("set value of %s = %s does not equal SetVal(model) = %s", name, goStr(sv), goStr(ref)))
	}
}

func (in *setInst) Key() string {
	return fingerprint(true, in.A, in.B) + fmt.Sprint(in.mA, in.mB)
}

// ---------------------------------------------------------------------------
// constructor permutations: same members in any order => RawEquals sets with
// identical iteration order (capsule-free members)

func c03Permutations(c *Ctx) {
	c.Note("repeated_reads", "every set value of the permutation clause is printed 48 more times: Go map iteration order is not under the harness's control, so stability of the iteration order is decided by repeated reads, not by enumeration")
	for _, alpha := range c03SetAlphabets() {
		alpha := alpha
		n := len(alpha.elems)
		if tsOf(alpha.elems[0].Type()).HasCaps() {
			// the statement promises a member-determined iteration order only
			// for capsule-free members (and set RawEquals follows that order)
			continue
		}
		// every subset of size 2..4, every permutation
		for mask := 1; mask < 1<<n; mask++ {
			var sub []cty.Value
			for i := 0; i < n; i++ {
				if mask&(1<<i) != 0 {
					sub = append(sub, alpha.elems[i])
				}
			}
			if len(sub) < 2 || len(sub) > 4 {
				continue
			}
			c.Unit(func(u *U) {
				base := cty.SetVal(append([]cty.Value(nil), sub...))
				baseOrder := iterOrder(base)
				permute(len(sub), func(p []int) {
					vs := make([]cty.Value, len(sub))
					for i, k := range p {
						vs[i] = sub[k]
					}
					u.Eval(1)
					u.DistinctN(1)
					u.Transition(1)
					v := cty.SetVal(vs)
					shape := "set[" + alpha.name + "]"
					if eq := v.Equals(base); !eq.IsKnown() || !eq.True() {
						u.Violation("perm.equals", shape, fmt.Sprintf("SetVal(%s) does not equal SetVal of a permutation of the same members (%s)", argsStr(vs), goStr(base)))
					}
					if !rawEq(v, base) {
						u.Violation("perm.rawequals", shape, fmt.Sprintf("SetVal(%s) = %s is not RawEquals to %s built from a permutation of the same members", argsStr(vs), goStr(v), goStr(base)))
					}
					if o := iterOrder(v); o != baseOrder {
						u.Violation("perm.order", shape, fmt.Sprintf("iteration order depends on insertion order: %s vs %s", o, baseOrder))
					}
					// the order is a function of the members: reading the same set value again and
					// again gives the same order (Go map iteration order, which the harness cannot
					// steer, must not show through; 48 reads leave a per-read flip of 1/8 a chance
					// of 0.2% per set to go unnoticed, and every alphabet has hundreds of sets)
					first := goStr(v)
					for k := 0; k < 48; k++ {
						if again := goStr(v); again != first {
							u.Violation("perm.unstable-order", shape, fmt.Sprintf("reading one set value repeatedly gives different orders: %s, then %s", first, again))
							break
						}
					}
					if !rawEq(v, v) {
						u.Violation("RawEquals.reflexive", shape, fmt.Sprintf("%s is not RawEquals to itself", goStr(v)))
					}
				})
			})
		}
	}
}

func iterOrder(v cty.Value) string {
	var parts []string
	for _, e := range children(v) {
		parts = append(parts, canonVal(e))
	}
	return strings.Join(parts, " | ")
}

// canonVal renders a known value so that documented-equal values render
// identically (numbers by integer value or shortest decimal text).
func canonVal(v cty.Value) string {
	if !v.IsKnown() {
		return goStr(v)
	}
	if v.IsNull() {
		return "null"
	}
	if v.Type() == cty.Number {
		f := bf(v)
		if f.IsInf() {
			return f.String()
		}
		if f.IsInt() {
			i, _ := f.Int(nil)
			return i.String()
		}
		return f.Text('f', -1)
	}
	cs := children(v)
	if cs == nil {
		return goStr(v)
	}
	var parts []string
	for _, c := range cs {
		parts = append(parts, canonVal(c))
	}
	return string(tsOf(v.Type()).K) + "[" + strings.Join(parts, ",") + "]"
}

func permute(n int, f func(p []int)) {
	p := make([]int, n)
	for i := range p {
		p[i] = i
	}
	var rec func(k int)
	rec = func(k int) {
		if k == n {
			f(p)
			return
		}
		for i := k; i < n; i++ {
			p[k], p[i] = p[i], p[k]
			rec(k + 1)
			p[k], p[i] = p[i], p[k]
		}
	}
	rec(0)
}
