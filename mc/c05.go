package main

import (
	"fmt"
	"math"
	"strings"

	"github.com/zclconf/go-cty/cty"
	"github.com/zclconf/go-cty/cty/ctystrings"
)

func init() {
	register(&Check{
		ID:    "C05",
		Level: "model_checking",
		Rule: "(a) breadth-first search over all sequences (depth 4, thorough 5) of refinement-builder calls (NotNull, Null, numeric lower/upper bounds over {-1,0,1,2,+-Inf,unknown} x inclusive/exclusive, NumberRangeInclusive, length bounds -1..3, CollectionLength, StringPrefix/StringPrefixFull over 7 prefixes) on 24 base values (unknown of every kind, already refined, known, null, DynamicVal, marked), " +
			"with an analytic interval/prefix/length model advanced in lock-step; after every accepted call the value, its reported range and membership of 11-13 probe values are compared with the model; a history ends at the first rejected call; the same histories again with a value built and kept after every call (earlier values keep printing the same); " +
			"(a'') synthetic ranges: Value.Range() of known sets / lists / maps whose members hold unknowns must contain the length of every listed concretisation (among them those that make two set members equal), Includes / Equals must not answer False for one, and a length constraint every concretisation satisfies is accepted; " +
			"(a') every history of one or two calls on every base through Value.Refine()...NewValue() and through Value.RefineWith: the same rejection or the same value, so a contradiction with a known value is rejected whichever route states it; " +
			"(b) every (prefix, continuation) pair over a 16-symbol alphabet of combining marks, jamo, emoji modifiers, joiners, regional indicators, CR/LF and ASCII delimiters: SafeKnownPrefix(p) and Refine().StringPrefix(p) must be NFC byte prefixes of NFC(p+s); " +
			"states = builder record dump + model; non-trivial = every transition / every pair with non-empty prefix",
		Assumptions: []string{
			"model: reals extended with both infinities; a constraint set is contradictory only when it admits no value at all (null included)",
			"rejections the statement does not demand (e.g. numeric bound on a known null) are counted as overstrict_rejections, never reported",
			"StringPrefix(p) is modelled as StringPrefixFull(SafeKnownPrefix(p)); SafeKnownPrefix itself is decided by part (b)",
		},
		Run: runC05,
	})
}

// ---------------------------------------------------------------------------
// model

type nbound struct {
	v   cty.Value // known number
	inc bool
}

type refModel struct {
	kind      byte // n s c (collection) o (other) d (DynamicVal)
	baseKnown bool
	base      cty.Value // unmarked base
	notNull   bool
	isNull    bool
	lo, hi    *nbound
	prefix    string
	prefixBad bool // stated prefixes are mutually inconsistent
	minLen    int
	maxLen    int
}

func newRefModel(base cty.Value) *refModel {
	base, _ = base.Unmark()
	m := &refModel{base: base, maxLen: math.MaxInt}
	ty := base.Type()
	switch {
	case ty == cty.DynamicPseudoType && !base.IsKnown():
		m.kind = 'd'
	case ty == cty.Number:
		m.kind = 'n'
	case ty == cty.String:
		m.kind = 's'
	case ty.IsCollectionType():
		m.kind = 'c'
	default:
		m.kind = 'o'
	}
	if base.IsKnown() {
		m.baseKnown = true
		return m
	}
	if m.kind == 'd' {
		return m
	}
	// seed the model from the base's own refinements (read through Range)
	r := base.Range()
	m.notNull = r.DefinitelyNotNull()
	switch m.kind {
	case 'n':
		if lo, inc := r.NumberLowerBound(); lo.IsKnown() && !(isInf(lo) && sgn(lo) < 0) {
			m.lo = &nbound{lo, inc}
		}
		if hi, inc := r.NumberUpperBound(); hi.IsKnown() && !(isInf(hi) && sgn(hi) > 0) {
			m.hi = &nbound{hi, inc}
		}
	case 's':
		m.prefix = r.StringPrefix()
	case 'c':
		m.minLen, m.maxLen = r.LengthLowerBound(), r.LengthUpperBound()
	}
	return m
}

func (m *refModel) clone() *refModel { c := *m; return &c }

// admitsProbe: does the model admit the concrete value c?
func (m *refModel) admitsProbe(c cty.Value) bool {
	if m.baseKnown {
		return refRawEq(m.base, c)
	}
	if c.IsNull() {
		return !m.notNull
	}
	if m.isNull {
		return false
	}
	switch m.kind {
	case 'n':
		if m.lo != nil {
			cmp := numCmpDoc(c, m.lo.v)
			if cmp < 0 || (cmp == 0 && !m.lo.inc) {
				return false
			}
		}
		if m.hi != nil {
			cmp := numCmpDoc(c, m.hi.v)
			if cmp > 0 || (cmp == 0 && !m.hi.inc) {
				return false
			}
		}
	case 's':
		if m.prefixBad {
			return false
		}
		return strings.HasPrefix(c.AsString(), m.prefix)
	case 'c':
		n := c.LengthInt()
		return n >= m.minLen && n <= m.maxLen
	}
	return true
}

// empty: the stated constraints admit no value at all.
func (m *refModel) empty() bool {
	if m.baseKnown || m.kind == 'd' {
		return false
	}
	if m.isNull {
		return m.notNull
	}
	if !m.notNull {
		return false // null is still admitted
	}
	switch m.kind {
	case 'n':
		if m.lo != nil && m.hi != nil {
			cmp := numCmpDoc(m.lo.v, m.hi.v)
			if cmp > 0 || (cmp == 0 && !(m.lo.inc && m.hi.inc)) {
				return true
			}
		}
		// an exclusive infinite bound on its own side leaves nothing
		if m.lo != nil && isInf(m.lo.v) && sgn(m.lo.v) > 0 && !m.lo.inc {
			return true
		}
		if m.hi != nil && isInf(m.hi.v) && sgn(m.hi.v) < 0 && !m.hi.inc {
			return true
		}
	case 's':
		return m.prefixBad
	case 'c':
		return m.minLen > m.maxLen
	}
	return false
}

// ---------------------------------------------------------------------------
// operations

type refOp struct {
	name  string
	kinds string // model kinds the op is meaningful for
	apply func(b *cty.RefinementBuilder)
	model func(m *refModel) (violatesKnown bool)
}

func numV(x float64) cty.Value {
	if math.IsInf(x, 0) {
		return cty.NumberFloatVal(x)
	}
	return cty.NumberFloatVal(x)
}

func (m *refModel) addLo(v cty.Value, inc bool) {
	if isInf(v) && sgn(v) < 0 {
		return // no constraint (the builder documents ignoring it; exclusive -Inf is not in the alphabet)
	}
	if m.lo == nil {
		m.lo = &nbound{v, inc}
		return
	}
	cmp := numCmpDoc(v, m.lo.v)
	if cmp > 0 || (cmp == 0 && !inc) {
		m.lo = &nbound{v, inc && (cmp != 0 || m.lo.inc)}
	}
}

func (m *refModel) addHi(v cty.Value, inc bool) {
	if isInf(v) && sgn(v) > 0 {
		return
	}
	if m.hi == nil {
		m.hi = &nbound{v, inc}
		return
	}
	cmp := numCmpDoc(v, m.hi.v)
	if cmp < 0 || (cmp == 0 && !inc) {
		m.hi = &nbound{v, inc && (cmp != 0 || m.hi.inc)}
	}
}

func knownViolates(m *refModel, pred func(c cty.Value) bool) bool {
	return m.baseKnown && !pred(m.base)
}

func refOps() []refOp {
	var ops []refOp
	ops = append(ops, refOp{"NotNull()", "nsco", func(b *cty.RefinementBuilder) { b.NotNull() }, func(m *refModel) bool {
		m.notNull = true
		return knownViolates(m, func(c cty.Value) bool { return !c.IsNull() })
	}})
	ops = append(ops, refOp{"Null()", "nsco", func(b *cty.RefinementBuilder) { b.Null() }, func(m *refModel) bool {
		m.isNull = true
		return knownViolates(m, func(c cty.Value) bool { return c.IsNull() })
	}})
	for _, x := range []float64{-1, 0, 1, 2} {
		for _, inc := range []bool{true, false} {
			x, inc := x, inc
			v := numV(x)
			ops = append(ops, refOp{fmt.Sprintf("NumberRangeLowerBound(%v,%v)", x, inc), "n",
				func(b *cty.RefinementBuilder) { b.NumberRangeLowerBound(v, inc) },
				func(m *refModel) bool {
					m.addLo(v, inc)
					return knownViolates(m, func(c cty.Value) bool {
						if c.IsNull() {
							return true
						}
						cmp := numCmpDoc(c, v)
						return cmp > 0 || (cmp == 0 && inc)
					})
				}})
			ops = append(ops, refOp{fmt.Sprintf("NumberRangeUpperBound(%v,%v)", x, inc), "n",
				func(b *cty.RefinementBuilder) { b.NumberRangeUpperBound(v, inc) },
				func(m *refModel) bool {
					m.addHi(v, inc)
					return knownViolates(m, func(c cty.Value) bool {
						if c.IsNull() {
							return true
						}
						cmp := numCmpDoc(c, v)
						return cmp < 0 || (cmp == 0 && inc)
					})
				}})
		}
	}
	// one number the library documents as equal to itself at two mantissa precisions
	for _, pv := range []struct {
		name string
		v    cty.Value
	}{{"0.1@53", cty.NumberFloatVal(0.1)}, {"0.1@512", parseNum("0.1")}} {
		for _, inc := range []bool{true, false} {
			pv, inc := pv, inc
			v := pv.v
			ops = append(ops, refOp{fmt.Sprintf("NumberRangeLowerBound(%s,%v)", pv.name, inc), "n",
				func(b *cty.RefinementBuilder) { b.NumberRangeLowerBound(v, inc) },
				func(m *refModel) bool {
					m.addLo(v, inc)
					return knownViolates(m, func(c cty.Value) bool {
						if c.IsNull() {
							return true
						}
						cmp := numCmpDoc(c, v)
						return cmp > 0 || (cmp == 0 && inc)
					})
				}})
			ops = append(ops, refOp{fmt.Sprintf("NumberRangeUpperBound(%s,%v)", pv.name, inc), "n",
				func(b *cty.RefinementBuilder) { b.NumberRangeUpperBound(v, inc) },
				func(m *refModel) bool {
					m.addHi(v, inc)
					return knownViolates(m, func(c cty.Value) bool {
						if c.IsNull() {
							return true
						}
						cmp := numCmpDoc(c, v)
						return cmp < 0 || (cmp == 0 && inc)
					})
				}})
		}
	}
	for _, x := range []float64{math.Inf(1), math.Inf(-1)} {
		x := x
		for _, which := range []string{"cty", "fresh"} {
			which := which
			mk := func() cty.Value {
				if which == "cty" {
					if x > 0 {
						return cty.PositiveInfinity
					}
					return cty.NegativeInfinity
				}
				return cty.NumberFloatVal(x)
			}
			ops = append(ops, refOp{fmt.Sprintf("NumberRangeLowerBound(%v[%s],true)", x, which), "n",
				func(b *cty.RefinementBuilder) { b.NumberRangeLowerBound(mk(), true) },
				func(m *refModel) bool {
					m.addLo(mk(), true)
					return knownViolates(m, func(c cty.Value) bool { return c.IsNull() || numCmpDoc(c, mk()) >= 0 })
				}})
			ops = append(ops, refOp{fmt.Sprintf("NumberRangeUpperBound(%v[%s],true)", x, which), "n",
				func(b *cty.RefinementBuilder) { b.NumberRangeUpperBound(mk(), true) },
				func(m *refModel) bool {
					m.addHi(mk(), true)
					return knownViolates(m, func(c cty.Value) bool { return c.IsNull() || numCmpDoc(c, mk()) <= 0 })
				}})
		}
	}
	ops = append(ops, refOp{"NumberRangeLowerBound(unknown,true)", "n", func(b *cty.RefinementBuilder) { b.NumberRangeLowerBound(cty.UnknownVal(cty.Number), true) }, func(m *refModel) bool { return false }})
	ops = append(ops, refOp{"NumberRangeUpperBound(unknown,false)", "n", func(b *cty.RefinementBuilder) { b.NumberRangeUpperBound(cty.UnknownVal(cty.Number), false) }, func(m *refModel) bool { return false }})
	ops = append(ops, refOp{"NumberRangeInclusive(0,1)", "n", func(b *cty.RefinementBuilder) { b.NumberRangeInclusive(cty.Zero, cty.NumberIntVal(1)) }, func(m *refModel) bool {
		m.addLo(cty.Zero, true)
		m.addHi(cty.NumberIntVal(1), true)
		return knownViolates(m, func(c cty.Value) bool {
			return c.IsNull() || (numCmpDoc(c, cty.Zero) >= 0 && numCmpDoc(c, cty.NumberIntVal(1)) <= 0)
		})
	}})
	for _, n := range []int{-1, 0, 1, 2, 3} {
		n := n
		ops = append(ops, refOp{fmt.Sprintf("CollectionLengthLowerBound(%d)", n), "c", func(b *cty.RefinementBuilder) { b.CollectionLengthLowerBound(n) }, func(m *refModel) bool {
			if n > m.minLen {
				m.minLen = n
			}
			return knownViolates(m, func(c cty.Value) bool { return c.IsNull() || setAwareLen(c) >= n })
		}})
		ops = append(ops, refOp{fmt.Sprintf("CollectionLengthUpperBound(%d)", n), "c", func(b *cty.RefinementBuilder) { b.CollectionLengthUpperBound(n) }, func(m *refModel) bool {
			if n < m.maxLen {
				m.maxLen = n
			}
			return knownViolates(m, func(c cty.Value) bool { return c.IsNull() || setAwareLen(c) <= n })
		}})
	}
	for _, n := range []int{0, 1, 2} {
		n := n
		ops = append(ops, refOp{fmt.Sprintf("CollectionLength(%d)", n), "c", func(b *cty.RefinementBuilder) { b.CollectionLength(n) }, func(m *refModel) bool {
			if n > m.minLen {
				m.minLen = n
			}
			if n < m.maxLen {
				m.maxLen = n
			}
			return knownViolates(m, func(c cty.Value) bool { return c.IsNull() || setAwareLen(c) == n })
		}})
	}
	for _, p := range []string{"", "a", "ab", "b", "e\u0301", "\u00e9x", "a\u0301"} {
		for _, full := range []bool{true, false} {
			p, full := p, full
			name := "StringPrefix"
			if full {
				name = "StringPrefixFull"
			}
			eff := func() string {
				if full {
					return nfc(p)
				}
				return ctystrings.SafeKnownPrefix(p)
			}
			ops = append(ops, refOp{fmt.Sprintf("%s(%q)", name, p), "s",
				func(b *cty.RefinementBuilder) {
					if full {
						b.StringPrefixFull(p)
					} else {
						b.StringPrefix(p)
					}
				},
				func(m *refModel) bool {
					e := eff()
					switch {
					case strings.HasPrefix(e, m.prefix):
						m.prefix = e
					case strings.HasPrefix(m.prefix, e):
					default:
						m.prefixBad = true
					}
					return knownViolates(m, func(c cty.Value) bool {
						if c.IsNull() {
							return true
						}
						s := c.AsString()
						// the statement: the known string must extend the prefix;
						// a prefix longer than the string that merely agrees on the
						// overlap is not demanded to be rejected
						return strings.HasPrefix(s, e) || strings.HasPrefix(e, s)
					})
				}})
		}
	}
	return ops
}

func setAwareLen(c cty.Value) int { return c.LengthInt() }

// ---------------------------------------------------------------------------
// system

type refBase struct {
	name string
	mk   func() cty.Value
}

func refBases() []refBase {
	un := func(t cty.Type) func() cty.Value { return func() cty.Value { return cty.UnknownVal(t) } }
	lt := cty.List(cty.String)
	return []refBase{
		{"unknown(number)", un(cty.Number)},
		{"unknown(string)", un(cty.String)},
		{"unknown(list(string))", un(lt)},
		{"unknown(set(number))", un(cty.Set(cty.Number))},
		{"unknown(map(bool))", un(cty.Map(cty.Bool))},
		{"unknown(bool)", un(cty.Bool)},
		{"unknown(object{a:string})", un(cty.Object(map[string]cty.Type{"a": cty.String}))},
		{"unknown(tuple[number])", un(cty.Tuple([]cty.Type{cty.Number}))},
		{"unknown(number) lo>=0 notnull", func() cty.Value {
			return cty.UnknownVal(cty.Number).Refine().NotNull().NumberRangeLowerBound(cty.Zero, true).NewValue()
		}},
		{"unknown(number) (0,2)", func() cty.Value {
			return cty.UnknownVal(cty.Number).Refine().NumberRangeLowerBound(cty.Zero, false).NumberRangeUpperBound(cty.NumberIntVal(2), false).NewValue()
		}},
		{"unknown(string) prefix a", func() cty.Value { return cty.UnknownVal(cty.String).Refine().StringPrefixFull("a").NewValue() }},
		{"unknown(list) len 1..2 notnull", func() cty.Value {
			return cty.UnknownVal(lt).Refine().NotNull().CollectionLengthLowerBound(1).CollectionLengthUpperBound(2).NewValue()
		}},
		{"unknown(number) marked", func() cty.Value { return cty.UnknownVal(cty.Number).Mark(markM1) }},
		{"unknown(string) marked twice", func() cty.Value { return cty.UnknownVal(cty.String).Mark(markM1).Mark(markM2) }},
		{"known 1", func() cty.Value { return cty.NumberIntVal(1) }},
		{"known 0.5 marked", func() cty.Value { return cty.NumberFloatVal(0.5).Mark(markM1) }},
		{"known +Inf", func() cty.Value { return cty.PositiveInfinity }},
		{"null(number)", func() cty.Value { return cty.NullVal(cty.Number) }},
		{"known \"ab\"", func() cty.Value { return cty.StringVal("ab") }},
		{"known \"\\u00e9x\"", func() cty.Value { return cty.StringVal("\u00e9x") }},
		{"null(string)", func() cty.Value { return cty.NullVal(cty.String) }},
		{"known [a]", func() cty.Value { return cty.ListVal([]cty.Value{cty.StringVal("a")}) }},
		{"known []", func() cty.Value { return cty.ListValEmpty(cty.String) }},
		{"known set{1,2}", func() cty.Value { return cty.SetVal([]cty.Value{cty.NumberIntVal(1), cty.NumberIntVal(2)}) }},
		{"known true", func() cty.Value { return cty.True }},
		{"null(dynamic)", func() cty.Value { return cty.NullVal(cty.DynamicPseudoType) }},
		{"DynamicVal", func() cty.Value { return cty.DynamicVal }},
		{"DynamicVal marked", func() cty.Value { return cty.DynamicVal.Mark(markM1) }},
	}
}

type refSys struct {
	base refBase
	ops  []refOp
	// snap: NewValue is called after every accepted builder call (not only after the last one) and
	// every value so obtained is kept: it must keep printing the same while the builder is used on
	snap bool
}

type keptValue struct {
	v   cty.Value
	str string
	by  string
}

func (s *refSys) NumOps() int         { return len(s.ops) }
func (s *refSys) OpName(i int) string { return s.ops[i].name }
func (s *refSys) New() E2Inst {
	b := s.base.mk()
	return &refInst{sys: s, base: b, baseStr: goStr(b), b: b.Refine(), m: newRefModel(b)}
}

type refInst struct {
	sys  *refSys
	base cty.Value
	// baseStr: the value being refined as it printed before the builder existed
	baseStr string
	b       *cty.RefinementBuilder
	m       *refModel
	dead    bool
	last    cty.Value
	kept    []keptValue
}

func (in *refInst) Apply(op int, check bool, report func(site, shape, detail string)) bool {
	if in.dead {
		return false
	}
	o := in.sys.ops[op]
	var pmsg string
	panicked := func() (p bool) {
		defer func() {
			if r := recover(); r != nil {
				p = true
				pmsg = fmt.Sprint(r)
			}
		}()
		o.apply(in.b)
		return false
	}()
	if check {
		// refinement makes a new value; the value it started from keeps the range its own
		// constraints imply, whatever is done with the builder
		if now := goStr(in.base); now != in.baseStr {
			report("base-value-changed", in.sys.base.name+" / "+opKind(o.name), fmt.Sprintf("%s on a builder obtained from %s changed that value itself: it now prints %s", o.name, in.baseStr, now))
		}
	}
	nm := in.m.clone()
	violKnown := o.model(nm)
	mustReject := violKnown || nm.empty()
	shape := in.sys.base.name + " / " + opKind(o.name)
	if in.m.kind == 'd' {
		if panicked {
			if check {
				report("dynamic-rejects", shape, fmt.Sprintf("%s on DynamicVal panicked (%s); DynamicVal must ignore refinement", o.name, pmsg))
			}
			in.dead = true
			return true
		}
		if check {
			v := in.newValue(report, shape)
			if v != cty.NilVal {
				vu, _ := v.Unmark()
				if !rawEq(vu, cty.DynamicVal) {
					report("dynamic-changed", shape, fmt.Sprintf("after %s DynamicVal became %s", o.name, goStr(v)))
				}
				in.checkMarks(v, report, shape)
			}
		}
		return true
	}
	if panicked {
		in.dead = true
		if check {
			if mustReject {
				report("__class", "rejected-contradiction", "")
			} else {
				// not demanded by the statement; counted only
				report("__class", "overstrict_rejection", "")
			}
		}
		return true
	}
	in.m = nm
	if in.sys.snap {
		if check {
			for _, k := range in.kept {
				if now := goStr(k.v); now != k.str {
					report("earlier-value-changed", in.sys.base.name+" / "+opKind(o.name), fmt.Sprintf("the value built by NewValue after %s printed %s; after the later builder call %s it prints %s", k.by, k.str, o.name, now))
				}
			}
		} else if !mustReject {
			func() {
				defer func() { recover() }()
				v := in.b.NewValue()
				in.kept = append(in.kept, keptValue{v, goStr(v), o.name})
			}()
		}
	}
	if !check {
		return true
	}
	if mustReject {
		why := "contradicts the known value"
		if !violKnown {
			why = "leaves no admissible value"
		}
		report("accepted-contradiction", shape, fmt.Sprintf("%s was accepted although it %s", o.name, why))
		in.dead = true // the model has no meaning past an accepted contradiction
		return true
	}
	v := in.newValue(report, shape)
	if v == cty.NilVal {
		in.dead = true
		return true
	}
	if v.IsKnown() {
		report("__class", "accepted-known-result", "")
	} else {
		report("__class", "accepted-unknown-result", "")
	}
	in.checkMarks(v, report, shape)
	vu, _ := v.Unmark()
	bu, _ := in.base.Unmark()
	if !vu.Type().Equals(bu.Type()) {
		report("type-changed", shape, fmt.Sprintf("after %s the value has type %#v, base has %#v", o.name, vu.Type(), bu.Type()))
	}
	if in.m.baseKnown {
		if !rawEq(vu, bu) {
			report("known-changed", shape, fmt.Sprintf("after %s the known value %s became %s", o.name, goStr(bu), goStr(vu)))
		}
		return true
	}
	in.checkRange(vu, report, shape, o.name)
	return true
}

func opKind(name string) string {
	if i := strings.IndexByte(name, '('); i > 0 {
		return name[:i]
	}
	return name
}

func (in *refInst) newValue(report func(site, shape, detail string), shape string) (v cty.Value) {
	defer func() {
		if r := recover(); r != nil {
			report("newvalue-panics", shape, fmt.Sprintf("NewValue panicked: %v", r))
			v = cty.NilVal
		}
	}()
	return in.b.NewValue()
}

func (in *refInst) checkMarks(v cty.Value, report func(site, shape, detail string), shape string) {
	if marksStr(rootMarks(v)) != marksStr(rootMarks(in.base)) {
		report("marks", shape, fmt.Sprintf("result marks %s differ from base marks %s", marksStr(rootMarks(v)), marksStr(rootMarks(in.base))))
	}
}

func (in *refInst) probes() []cty.Value {
	ty := in.m.base.Type()
	switch in.m.kind {
	case 'n':
		var ps []cty.Value
		for _, x := range []float64{math.Inf(-1), -2, -1, -0.5, 0, 0.5, 1, 1.5, 2, 3, math.Inf(1), 0.1, 0.1000001, 0.0999999} {
			ps = append(ps, cty.NumberFloatVal(x))
		}
		ps = append(ps, parseNum("0.1"))
		return append(ps, cty.NullVal(ty))
	case 's':
		var ps []cty.Value
		for _, s := range []string{"", "a", "ab", "abc", "b", "\u00e9", "\u00e9x", "a\u0301"} {
			ps = append(ps, cty.StringVal(s))
		}
		return append(ps, cty.NullVal(ty))
	case 'c':
		ety := ty.ElementType()
		var elems []cty.Value
		switch {
		case ety == cty.String:
			elems = []cty.Value{cty.StringVal("a"), cty.StringVal("b"), cty.StringVal("c"), cty.StringVal("d")}
		case ety == cty.Number:
			elems = []cty.Value{cty.NumberIntVal(1), cty.NumberIntVal(2), cty.NumberIntVal(3), cty.NumberIntVal(4)}
		default:
			elems = []cty.Value{cty.True, cty.False, cty.NullVal(cty.Bool), cty.True}
		}
		var ps []cty.Value
		for n := 0; n <= 4; n++ {
			ps = append(ps, mkColl(ty, elems[:n]))
		}
		return append(ps, cty.NullVal(ty))
	}
	return []cty.Value{cty.NullVal(ty)}
}

func mkColl(ty cty.Type, elems []cty.Value) cty.Value {
	switch {
	case ty.IsListType():
		if len(elems) == 0 {
			return cty.ListValEmpty(ty.ElementType())
		}
		return cty.ListVal(elems)
	case ty.IsSetType():
		if len(elems) == 0 {
			return cty.SetValEmpty(ty.ElementType())
		}
		return cty.SetVal(elems)
	default:
		if len(elems) == 0 {
			return cty.MapValEmpty(ty.ElementType())
		}
		m := map[string]cty.Value{}
		for i, e := range elems {
			m[fmt.Sprintf("k%d", i)] = e
		}
		return cty.MapVal(m)
	}
}

func (in *refInst) checkRange(v cty.Value, report func(site, shape, detail string), shape, opName string) {
	m := in.m
	defer func() {
		if r := recover(); r != nil {
			report("range-panics", shape, fmt.Sprintf("reading the range of %s panicked: %v", goStr(v), r))
		}
	}()
	// membership of every probe
	for _, p := range in.probes() {
		got, why := admits(v, p)
		want := m.admitsProbe(p)
		if got != want {
			site := "widened"
			if want {
				site = "excludes-admitted"
			}
			report(site, shape, fmt.Sprintf("after %s the value %s admits probe %s = %v but the stated constraints say %v (%s)", opName, goStr(v), goStr(p), got, want, why))
		}
	}
	if !v.IsKnown() {
		r := v.Range()
		// the range's own membership test: it may answer "unknown" for an admitted
		// value but never False, and a known probe the stated constraints exclude
		// (all of them are wholly known) is reported as excluded
		for _, p := range in.probes() {
			want := m.admitsProbe(p)
			inc := r.Includes(p)
			incFalse := inc.IsKnown() && !inc.IsNull() && inc.False()
			if want && incFalse {
				report("includes-excludes-admitted", shape, fmt.Sprintf("after %s: Range().Includes(%s) = False on %s although the stated constraints admit it", opName, goStr(p), goStr(v)))
			}
			if !want && !incFalse {
				report("includes-widened", shape, fmt.Sprintf("after %s: Range().Includes(%s) = %s on %s although the stated constraints exclude it", opName, goStr(p), goStr(inc), goStr(v)))
			}
		}
		// nullness
		if r.CouldBeNull() == m.notNull || r.DefinitelyNotNull() != m.notNull {
			report("range-nullness", shape, fmt.Sprintf("after %s: CouldBeNull=%v DefinitelyNotNull=%v, stated notnull=%v", opName, r.CouldBeNull(), r.DefinitelyNotNull(), m.notNull))
		}
		switch m.kind {
		case 'n':
			lo, loInc := r.NumberLowerBound()
			hi, hiInc := r.NumberUpperBound()
			in.cmpBound(report, shape, opName, "lower", lo, loInc, m.lo, -1)
			in.cmpBound(report, shape, opName, "upper", hi, hiInc, m.hi, 1)
		case 's':
			if got := r.StringPrefix(); got != m.prefix {
				report("range-prefix", shape, fmt.Sprintf("after %s: reported prefix %q, stated constraints imply %q", opName, got, m.prefix))
			}
		case 'c':
			if lo, hi := r.LengthLowerBound(), r.LengthUpperBound(); lo != m.minLen || hi != m.maxLen {
				report("range-length", shape, fmt.Sprintf("after %s: reported length bounds [%d,%d], stated constraints imply [%d,%d]", opName, lo, hi, m.minLen, m.maxLen))
			}
		}
	}
}

func (in *refInst) cmpBound(report func(site, shape, detail string), shape, opName, which string, got cty.Value, gotInc bool, want *nbound, unboundedSign int) {
	if want == nil {
		if !got.IsKnown() {
			return
		}
		if !(isInf(got) && sgn(got) == unboundedSign) {
			report("range-bound", shape, fmt.Sprintf("after %s: reported %s bound %s although none was stated", opName, which, goStr(got)))
		}
		return
	}
	if !got.IsKnown() || numCmpDoc(got, want.v) != 0 || gotInc != want.inc {
		report("range-bound", shape, fmt.Sprintf("after %s: reported %s bound %s (inclusive=%v), stated constraints imply %s (inclusive=%v)", opName, which, goStr(got), gotInc, goStr(want.v), want.inc))
	}
}

func (in *refInst) Key() string {
	m := in.m
	k := fmt.Sprintf("%v|%v|%v|%q|%v|%d|%d|%v", m.notNull, m.isNull, m.prefixBad, m.prefix, in.dead, m.minLen, m.maxLen, m.kind)
	if m.lo != nil {
		k += fmt.Sprintf("|lo%s%v", bf(m.lo.v).Text('g', 20), m.lo.inc)
	}
	if m.hi != nil {
		k += fmt.Sprintf("|hi%s%v", bf(m.hi.v).Text('g', 20), m.hi.inc)
	}
	return k + "\n" + fingerprint(false, in.b)
}

func runC05(c *Ctx) {
	depth := 4
	if c.Thorough {
		depth = 5
	}
	c.Note("builder_history_depth", fmt.Sprint(depth))
	all := refOps()
	for _, base := range refBases() {
		m := newRefModel(base.mk())
		var ops []refOp
		for _, o := range all {
			if m.kind == 'd' || strings.IndexByte(o.kinds, m.kind) >= 0 {
				ops = append(ops, o)
			}
		}
		exploreE2(c, &refSys{base: base, ops: ops}, depth, "refine.")
		if !m.baseKnown && m.kind != 'd' {
			// the same histories with a value built (and kept) after every call
			exploreE2(c, &refSys{base: base, ops: ops, snap: true}, depth-1, "refine[kept].")
		}
	}
	c05Routes(c, all)
	c05SyntheticRanges(c)
	c05Prefixes(c)
}

// c05SyntheticRanges: Value.Range() of a known collection with unknown parts is a refinement like
// any other: it must admit every value the collection can still become.  Each case is a known set /
// list / map whose members hold unknowns, with an explicit list of concretisations (the unknowns
// replaced by members of a small alphabet, among them the ones that make two set members equal);
// the reported length bounds must contain the length of every concretisation, Includes must not
// answer False for one, and a length refinement that every concretisation satisfies must be accepted.
func c05SyntheticRanges(c *Ctx) {
	s, n := cty.StringVal, cty.NumberIntVal
	us, un := cty.UnknownVal(cty.String), cty.UnknownVal(cty.Number)
	obj := func(id, name cty.Value) cty.Value { return cty.ObjectVal(map[string]cty.Value{"id": id, "name": name}) }
	tup := func(a, b cty.Value) cty.Value { return cty.TupleVal([]cty.Value{a, b}) }
	type rcase struct {
		v     cty.Value
		concs []cty.Value
	}
	cases := []rcase{
		{cty.SetVal([]cty.Value{obj(us, s("a")), obj(s("x"), s("a"))}), []cty.Value{cty.SetVal([]cty.Value{obj(s("x"), s("a"))}), cty.SetVal([]cty.Value{obj(s("y"), s("a")), obj(s("x"), s("a"))})}},
		{cty.SetVal([]cty.Value{tup(s("a"), n(1)), tup(s("a"), un)}), []cty.Value{cty.SetVal([]cty.Value{tup(s("a"), n(1))}), cty.SetVal([]cty.Value{tup(s("a"), n(1)), tup(s("a"), n(2))})}},
		{cty.SetVal([]cty.Value{s("a"), us}), []cty.Value{cty.SetVal([]cty.Value{s("a")}), cty.SetVal([]cty.Value{s("a"), s("b")})}},
		{cty.SetVal([]cty.Value{s("a"), s("b"), us.RefineNotNull()}), []cty.Value{cty.SetVal([]cty.Value{s("a"), s("b")}), cty.SetVal([]cty.Value{s("a"), s("b"), s("c")})}},
		{cty.SetVal([]cty.Value{cty.ListVal([]cty.Value{us}), cty.ListVal([]cty.Value{s("q")})}), []cty.Value{cty.SetVal([]cty.Value{cty.ListVal([]cty.Value{s("q")})}), cty.SetVal([]cty.Value{cty.ListVal([]cty.Value{s("p")}), cty.ListVal([]cty.Value{s("q")})})}},
		{cty.SetVal([]cty.Value{obj(us, s("a")), obj(us, s("b")), obj(s("x"), s("a"))}), []cty.Value{cty.SetVal([]cty.Value{obj(s("x"), s("a")), obj(s("x"), s("b"))}), cty.SetVal([]cty.Value{obj(s("y"), s("a")), obj(s("z"), s("b")), obj(s("x"), s("a"))})}},
		{cty.ListVal([]cty.Value{s("a"), us}), []cty.Value{cty.ListVal([]cty.Value{s("a"), s("a")}), cty.ListVal([]cty.Value{s("a"), s("b")})}},
		{cty.MapVal(map[string]cty.Value{"k": un, "j": n(1)}), []cty.Value{cty.MapVal(map[string]cty.Value{"k": n(1), "j": n(1)})}},
	}
	c.Unit(func(u *U) {
		for _, rc := range cases {
			u.Eval(1)
			u.DistinctN(1)
			shape := "synthetic range of " + shapeOf(rc.v)
			func() {
				defer func() {
					if r := recover(); r != nil {
						u.Violation("refine.range-panics", shape, fmt.Sprintf("Range() of %s panicked: %v", goStr(rc.v), r))
					}
				}()
				r := rc.v.Range()
				lo, hi := r.LengthLowerBound(), r.LengthUpperBound()
				minLen, maxLen := -1, -1
				for _, cv := range rc.concs {
					l := cv.LengthInt()
					if minLen < 0 || l < minLen {
						minLen = l
					}
					if l > maxLen {
						maxLen = l
					}
					if l < lo || l > hi {
						u.Violation("refine.range-excludes-concretisation", shape, fmt.Sprintf("%s reports length bounds [%d,%d], but it can still become %s of length %d", goStr(rc.v), lo, hi, goStr(cv), l))
					}
					if inc := r.Includes(cv); inc.IsKnown() && inc.False() {
						u.Violation("refine.range-excludes-concretisation", shape, fmt.Sprintf("Range() of %s answers Includes(%s) = False, but it can still become that value", goStr(rc.v), goStr(cv)))
					}
					if eq := rc.v.Equals(cv); eq.IsKnown() && eq.False() {
						u.Violation("refine.range-excludes-concretisation", shape, fmt.Sprintf("%s Equals %s = False, but it can still become that value", goStr(rc.v), goStr(cv)))
					}
				}
				// a length constraint every concretisation satisfies is consistent with the value
				func() {
					defer func() {
						if rr := recover(); rr != nil {
							u.Violation("refine.consistent-constraint-rejected", shape, fmt.Sprintf("%s.Refine().CollectionLengthLowerBound(%d).CollectionLengthUpperBound(%d) was rejected (%v) although the value can still have every length in that range it is given here", goStr(rc.v), minLen, maxLen, rr))
						}
					}()
					rc.v.Refine().CollectionLengthLowerBound(minLen).CollectionLengthUpperBound(maxLen).NewValue()
				}()
				u.Class("synthetic-range-checked")
			}()
		}
	})
}

// c05Routes: every way of stating constraints is the same function of (value, constraints).  Each
// history of one or two builder calls is run through Value.Refine()...NewValue() and through
// Value.RefineWith (the route function results take): both must reject, or both must accept and
// return values that print the same - on unknown, known, null and marked bases alike, so a
// contradiction with a known value is rejected whichever route states it.
func c05Routes(c *Ctx, all []refOp) {
	for _, base := range refBases() {
		base := base
		m := newRefModel(base.mk())
		var ops []refOp
		for _, o := range all {
			if m.kind == 'd' || strings.IndexByte(o.kinds, m.kind) >= 0 {
				ops = append(ops, o)
			}
		}
		c.Unit(func(u *U) {
			run := func(seq []refOp) {
				u.Eval(1)
				u.DistinctN(1)
				names := ""
				for _, o := range seq {
					names += o.name + " ; "
				}
				outcome := func(f func(v cty.Value) cty.Value) (s string) {
					defer func() {
						if r := recover(); r != nil {
							s = "rejected"
						}
					}()
					return goStr(f(base.mk()))
				}
				viaBuilder := outcome(func(v cty.Value) cty.Value {
					b := v.Refine()
					for _, o := range seq {
						o.apply(b)
					}
					return b.NewValue()
				})
				viaWith := outcome(func(v cty.Value) cty.Value {
					return v.RefineWith(func(b *cty.RefinementBuilder) *cty.RefinementBuilder {
						for _, o := range seq {
							o.apply(b)
						}
						return b
					})
				})
				viaSteps := outcome(func(v cty.Value) cty.Value {
					for _, o := range seq {
						o := o
						v = v.RefineWith(func(b *cty.RefinementBuilder) *cty.RefinementBuilder { o.apply(b); return b })
					}
					return v
				})
				shape := base.name + " / routes"
				if viaWith != viaBuilder {
					u.Violation("refine.routes-differ", shape, fmt.Sprintf("history %son %s: Refine()...NewValue() gives %s, RefineWith gives %s", names, base.name, viaBuilder, viaWith))
				}
				// step by step the intermediate values may collapse to known values, after which a
				// further consistent constraint is a no-op: only the accept / reject verdict of
				// contradictions is compared, and only when the one-builder route rejects
				if viaBuilder == "rejected" && viaSteps != "rejected" && len(seq) == 1 {
					u.Violation("refine.routes-differ", shape, fmt.Sprintf("history %son %s: rejected through Refine()...NewValue() but accepted through RefineWith (%s)", names, base.name, viaSteps))
				}
				if viaBuilder == "rejected" {
					u.Class("routes-rejected")
				} else {
					u.Class("routes-accepted")
				}
			}
			for _, a := range ops {
				run([]refOp{a})
				for _, b := range ops {
					run([]refOp{a, b})
				}
			}
		})
	}
}

// ---------------------------------------------------------------------------
// (b) safe prefixes

var c05Sigma = []string{
	"a", "e", "\u0301", "\u0308", "\u1100", "\u1161", "\u11a8", "\uac00",
	"\U0001F44D", "\U0001F3FD", "\u200d", "\U0001F1E9", "\r", "\n", "-", ":",
}

func c05Prefixes(c *Ctx) {
	sigma := c05Sigma
	maxP, maxS := 3, 2
	if c.Thorough {
		maxP, maxS = 4, 3
	}
	var conts []string
	var gen func(cur string, n int)
	gen = func(cur string, n int) {
		conts = append(conts, cur)
		if n == 0 {
			return
		}
		for _, s := range sigma {
			gen(cur+s, n-1)
		}
	}
	gen("", maxS)
	var prefixes []string
	var genP func(cur string, n int)
	genP = func(cur string, n int) {
		prefixes = append(prefixes, cur)
		if n == 0 {
			return
		}
		for _, s := range sigma {
			genP(cur+s, n-1)
		}
	}
	genP("", maxP)
	c.Note("prefix_pairs", fmt.Sprint(len(prefixes)*len(conts)))
	c05PrefixRun(c, prefixes, conts)
	// second family: every printable ASCII character (and a few Latin-1 and
	// other bases) as the LAST character of the prefix, after a short stem,
	// continued by every combining mark of U+0300..U+036F (alone, and
	// thorough: in pairs) and by the hazard alphabet
	var wide []string
	stems := append([]string{""}, sigma...)
	var lasts []string
	for r := rune(0x20); r < 0x7f; r++ {
		lasts = append(lasts, string(r))
	}
	for _, r := range []rune{0xc5, 0xe9, 0xf1, 0x3b1, 0x43a, 0x915, 0x3042, 0x1100, 0xac00, 0x212b, 0x1e0b} {
		lasts = append(lasts, string(r))
	}
	for _, st := range stems {
		for _, l := range lasts {
			wide = append(wide, st+l)
		}
	}
	var marks []string
	for r := rune(0x300); r <= 0x36f; r++ {
		marks = append(marks, string(r))
	}
	marks = append(marks, "\u093c", "\u3099", "\u0323", "\u0327")
	wconts := append(append([]string{""}, marks...), sigma...)
	if c.Thorough {
		for _, a := range marks {
			for _, b := range []string{"\u0301", "\u0323", "\u0338", "\u0308", "a"} {
				wconts = append(wconts, a+b, b+a)
			}
		}
	}
	c.Note("wide_prefix_pairs", fmt.Sprint(len(wide)*len(wconts)))
	c05PrefixRun(c, wide, wconts)
}

func c05PrefixRun(c *Ctx, prefixes, conts []string) {
	const chunk = 16
	for i := 0; i < len(prefixes); i += chunk {
		lo, hi := i, i+chunk
		if hi > len(prefixes) {
			hi = len(prefixes)
		}
		c.Unit(func(u *U) {
			for _, p := range prefixes[lo:hi] {
				safe, pan := func() (s string, p2 bool) {
					defer func() {
						if r := recover(); r != nil {
							p2 = true
						}
					}()
					return ctystrings.SafeKnownPrefix(p), false
				}()
				shape := fmt.Sprintf("%+q", p)
				if pan {
					u.Violation("prefix.panics", shape, fmt.Sprintf("SafeKnownPrefix(%+q) panicked", p))
					continue
				}
				if nfc(safe) != safe {
					u.Violation("prefix.not-normalized", shape, fmt.Sprintf("SafeKnownPrefix(%+q) = %+q is not NFC", p, safe))
				}
				// the builder records the same thing
				rec := func() (s string) {
					defer func() {
						if r := recover(); r != nil {
							s = "<panic>"
						}
					}()
					v := cty.UnknownVal(cty.String).Refine().StringPrefix(p).NewValue()
					if v.IsKnown() {
						return "<known>"
					}
					return v.Range().StringPrefix()
				}()
				if rec != safe {
					u.Violation("prefix.builder-differs", shape, fmt.Sprintf("Refine().StringPrefix(%+q) recorded %+q, SafeKnownPrefix gives %+q", p, rec, safe))
				}
				for _, s := range conts {
					u.Eval(1)
					full := cty.StringVal(p + s).AsString()
					if !strings.HasPrefix(full, safe) {
						u.Violation("prefix.not-continuation-safe", shape, fmt.Sprintf("SafeKnownPrefix(%+q) = %+q is not a byte prefix of StringVal(%+q + %+q) = %+q", p, safe, p, s, full))
						break
					}
				}
				if p != "" {
					u.DistinctN(len(conts))
				}
				if safe == "" {
					u.Class("prefix-emptied")
				} else if safe == nfc(p) {
					u.Class("prefix-kept")
				} else {
					u.Class("prefix-trimmed")
				}
			}
			if u.WantSample() {
				u.Sample(map[string]string{"prefix": fmt.Sprintf("%+q", prefixes[lo]), "continuations": fmt.Sprint(len(conts))})
			}
		})
	}
}
