package main

import (
	"fmt"
	"math"
	"math/big"
	"reflect"

	"github.com/zclconf/go-cty/cty"
	"github.com/zclconf/go-cty/cty/gocty"
)

func init() {
	register(&Check{
		ID:        "C18",
		DeepQuick: true,
		Level:     "exploration",
		Rule: "(a) a fixed family of Go types (every int/uint width, float32/64, string, bool, slices, nested slices, string maps, tagged structs, nested structs, pointers at every level, cty.Value fields, arrays, *big.Int / *big.Float) x generated Go values (zero, boundary, nil and empty forms): ToCtyValue against ImpliedType (or the corresponding list / number type for arrays and big numbers) then FromCtyValue must reproduce the Go value; " +
			"(b) every number of the full alphabet plus every integer-width boundary and its neighbours, fractions, huge and infinite numbers x 14 Go numeric target types: decoding succeeds exactly when the number is representable and stores it; " +
			"(c) every value of a bounded cty universe (known, null, unknown, DynamicVal) x every target type of the family: never a panic, and unknown / null-into-non-nilable / shape mismatches are errors; (d) one-deviation family: the cty counterpart of every family value with exactly one position (root or nested, depth <= 3) replaced by a null / unknown of its own type or a null / known value of 12 other types: refused wherever a reference walk over (value, Go type) finds an unknown, a null whose type is not the counterpart of the nilable target, a kind mismatch or an array-length mismatch; accepted decodes are mirrored back; (e) reused targets: every ordered pair (triple for families of <= 4 values) of values of one Go type decoded one after the other into one target (maps losing keys, shrinking slices, pointers becoming nil, nested): after each decode the target holds exactly what a fresh target would; distinct by (Go type, value) / (number, target) / (cty value, target); non-trivial = every case",
		Assumptions: []string{
			"strings are compared modulo the documented NFC normalisation; NaN is not exercised (documented caller obligation)",
			"for float targets an inexact number may be stored as either neighbouring float; numbers within one float32 half-ulp above MaxFloat32 are not judged",
		},
		Run: runC18,
	})
}

type gS1 struct {
	Name string `cty:"name"`
	Age  int    `cty:"age"`
}
type gS2 struct {
	Inner gS1              `cty:"inner"`
	Tags  []string         `cty:"tags"`
	Opt   *int             `cty:"opt"`
	M     map[string]uint8 `cty:"m"`
}
type gS3 struct {
	Dyn cty.Value `cty:"dyn"`
	F   float32   `cty:"f"`
	P   *gS1      `cty:"p"`
}
type gS4 struct {
	A bool    `cty:"a"`
	B *string `cty:"é"`
	c int     // untagged, unexported: ignored
}

type gS5 struct {
	Pair [2]int `cty:"pair"`
	Name string `cty:"name"`
}

func ip(i int) *int       { return &i }
func sp(s string) *string { return &s }
func ipp(i int) **int     { p := &i; return &p }

type goCase struct {
	name string
	vals []interface{} // values of one Go type
	ty   *cty.Type     // explicit cty type (nil = ImpliedType)
}

func goFamily() []goCase {
	numT := cty.Number
	listNum := cty.List(cty.Number)
	listListStr := cty.List(cty.List(cty.String))
	listStr := cty.List(cty.String)
	objPair := cty.Object(map[string]cty.Type{"pair": cty.List(cty.Number), "name": cty.String})
	return []goCase{
		{"int", []interface{}{int(0), int(1), int(-1), int(math.MaxInt64), int(math.MinInt64)}, nil},
		{"int8", []interface{}{int8(0), int8(127), int8(-128)}, nil},
		{"int16", []interface{}{int16(0), int16(32767), int16(-32768)}, nil},
		{"int32", []interface{}{int32(0), int32(math.MaxInt32), int32(math.MinInt32)}, nil},
		{"int64", []interface{}{int64(0), int64(math.MaxInt64), int64(math.MinInt64), int64(1<<53 + 1)}, nil},
		{"uint", []interface{}{uint(0), uint(1), uint(math.MaxUint64)}, nil},
		{"uint8", []interface{}{uint8(0), uint8(255)}, nil},
		{"uint16", []interface{}{uint16(0), uint16(65535)}, nil},
		{"uint32", []interface{}{uint32(0), uint32(math.MaxUint32)}, nil},
		{"uint64", []interface{}{uint64(0), uint64(math.MaxUint64), uint64(1 << 63)}, nil},
		{"float32", []interface{}{float32(0), float32(1.5), float32(-2.25), float32(math.MaxFloat32), float32(math.SmallestNonzeroFloat32), float32(math.Inf(1)), float32(math.Inf(-1)), float32(0.1)}, nil},
		{"float64", []interface{}{float64(0), 0.1, 1e300, math.MaxFloat64, math.SmallestNonzeroFloat64, math.Inf(1), math.Inf(-1), -2.5}, nil},
		{"string", []interface{}{"", "a", "é", "é", "\U0001F44D\U0001F3FD"}, nil},
		{"bool", []interface{}{true, false}, nil},
		{"[]string", []interface{}{[]string(nil), []string{}, []string{"a"}, []string{"b", "a", "b"}}, nil},
		{"[]int", []interface{}{[]int(nil), []int{}, []int{3, -1}}, nil},
		{"[][]string", []interface{}{[][]string(nil), [][]string{}, [][]string{{"a"}, {}, nil}}, nil},
		{"[]*int", []interface{}{[]*int{ip(1), nil}}, nil},
		{"map[string]int", []interface{}{map[string]int(nil), map[string]int{}, map[string]int{"a": 1, "é": 2}}, nil},
		{"map[string][]string", []interface{}{map[string][]string{"k": {"a"}, "n": nil, "e": {}}}, nil},
		{"map[string]*int", []interface{}{map[string]*int{"a": ip(1), "b": ip(2), "n": nil}}, nil},
		{"struct1", []interface{}{gS1{}, gS1{"Ermintrude", 43}, gS1{"é", -1}}, nil},
		{"struct2", []interface{}{gS2{}, gS2{Inner: gS1{"x", 1}, Tags: []string{"t"}, Opt: ip(7), M: map[string]uint8{"k": 255}}, gS2{Tags: []string{}, M: map[string]uint8{}}}, nil},
		{"struct3", []interface{}{gS3{Dyn: cty.StringVal("x"), F: 1.5}, gS3{Dyn: cty.NumberIntVal(12), P: &gS1{"p", 2}}, gS3{Dyn: cty.NullVal(cty.String)}, gS3{Dyn: cty.ListVal([]cty.Value{cty.True})}, gS3{Dyn: cty.UnknownVal(cty.String), F: 2}, gS3{Dyn: cty.UnknownVal(cty.Map(cty.Number)).RefineNotNull()}}, nil},
		{"struct4", []interface{}{gS4{}, gS4{A: true, B: sp("v")}}, nil},
		{"[]struct1", []interface{}{[]gS1{{"a", 1}, {"b", 2}}}, nil},
		{"map[string]struct{*int}", []interface{}{map[string]struct {
			Port *int `cty:"port"`
		}{"a": {ip(1)}, "b": {ip(2)}, "c": {nil}}}, nil},
		{"*int", []interface{}{(*int)(nil), ip(5), ip(0)}, nil},
		{"*string", []interface{}{(*string)(nil), sp(""), sp("s")}, nil},
		{"**int", []interface{}{ipp(3), ipp(0)}, nil}, // a nil at one of two pointer levels is ambiguous (null is decoded as a nil innermost pointer, by documented design)
		{"*struct1", []interface{}{(*gS1)(nil), &gS1{"z", 9}}, nil},
		{"*[]string", []interface{}{&[]string{"a"}, &[]string{}}, nil},
		{"cty.Value", []interface{}{cty.StringVal("x"), cty.NumberIntVal(1), cty.ObjectVal(map[string]cty.Value{"a": cty.True}), cty.NullVal(cty.Number),
			// embedded dynamic values that are not known: they come back as they went in
			cty.UnknownVal(cty.String), cty.DynamicVal, cty.UnknownVal(cty.Number).Refine().NotNull().NumberRangeLowerBound(cty.Zero, true).NewValue(),
			cty.UnknownVal(cty.List(cty.String)).RefineNotNull(), cty.ListVal([]cty.Value{cty.UnknownVal(cty.String), cty.StringVal("k")}), cty.NullVal(cty.DynamicPseudoType)}, nil},
		{"[]cty.Value", []interface{}{[]cty.Value{cty.UnknownVal(cty.Bool), cty.True, cty.NullVal(cty.Bool)}}, nil},
		{"map[string]cty.Value", []interface{}{map[string]cty.Value{"u": cty.UnknownVal(cty.String).Refine().StringPrefixFull("p").NewValue(), "k": cty.StringVal("z")}}, nil},
		{"[2]int", []interface{}{[2]int{1, 2}, [2]int{}}, &listNum},
		{"[2][]string", []interface{}{[2][]string{{"a"}, {}}}, &listListStr},
		{"*big.Int", []interface{}{big.NewInt(0), big.NewInt(-5), new(big.Int).Lsh(big.NewInt(1), 100),
			// more significant bits than the 512-bit mantissa the number parser uses, and many more
			new(big.Int).Add(new(big.Int).Lsh(big.NewInt(1), 512), big.NewInt(1)), new(big.Int).Neg(new(big.Int).Add(new(big.Int).Lsh(big.NewInt(1), 600), big.NewInt(1))),
			new(big.Int).Sub(new(big.Int).Lsh(big.NewInt(1), 2000), big.NewInt(1)), new(big.Int).Lsh(big.NewInt(1), 600)}, &numT},
		{"*big.Float", []interface{}{big.NewFloat(0.5), new(big.Float).SetPrec(512).SetInt(new(big.Int).Lsh(big.NewInt(1), 200)), big.NewFloat(math.Inf(1)),
			new(big.Float).SetPrec(1024).SetInt(new(big.Int).Add(new(big.Int).Lsh(big.NewInt(1), 800), big.NewInt(1))), new(big.Float).SetMantExp(big.NewFloat(1.5), -1100), big.NewFloat(math.Inf(-1))}, &numT},
		{"big.Int", []interface{}{*big.NewInt(7), *new(big.Int).Add(new(big.Int).Lsh(big.NewInt(1), 513), big.NewInt(3))}, &numT},
		{"[3]string", []interface{}{[3]string{"a", "", "c"}}, &listStr},
		{"*[2]int", []interface{}{&[2]int{4, 5}}, &listNum},
		{"struct{[2]int}", []interface{}{gS5{Pair: [2]int{7, 8}, Name: "p"}}, &objPair},
	}
}

// goEq compares two Go values: strings modulo NFC, cty.Value by RawEquals,
// big numbers numerically, everything else structurally.
func goEq(a, b reflect.Value) bool {
	if a.IsValid() != b.IsValid() {
		return false
	}
	if !a.IsValid() {
		return true
	}
	if a.Type() != b.Type() {
		return false
	}
	switch x := a.Interface().(type) {
	case cty.Value:
		return rawEq(x, b.Interface().(cty.Value))
	case big.Int:
		y := b.Interface().(big.Int)
		return x.Cmp(&y) == 0
	case big.Float:
		y := b.Interface().(big.Float)
		return x.Cmp(&y) == 0
	}
	switch a.Kind() {
	case reflect.String:
		return nfc(a.String()) == nfc(b.String())
	case reflect.Ptr:
		if a.IsNil() || b.IsNil() {
			return a.IsNil() == b.IsNil()
		}
		return goEq(a.Elem(), b.Elem())
	case reflect.Slice:
		if a.IsNil() != b.IsNil() || a.Len() != b.Len() {
			return false
		}
		for i := 0; i < a.Len(); i++ {
			if !goEq(a.Index(i), b.Index(i)) {
				return false
			}
		}
		return true
	case reflect.Array:
		for i := 0; i < a.Len(); i++ {
			if !goEq(a.Index(i), b.Index(i)) {
				return false
			}
		}
		return true
	case reflect.Map:
		if a.IsNil() != b.IsNil() || a.Len() != b.Len() {
			return false
		}
		// keys modulo NFC
		bm := map[string]reflect.Value{}
		for _, k := range b.MapKeys() {
			bm[nfc(k.String())] = b.MapIndex(k)
		}
		for _, k := range a.MapKeys() {
			bv, ok := bm[nfc(k.String())]
			if !ok || !goEq(a.MapIndex(k), bv) {
				return false
			}
		}
		return true
	case reflect.Struct:
		for i := 0; i < a.NumField(); i++ {
			if a.Type().Field(i).PkgPath != "" {
				continue // unexported
			}
			if !goEq(a.Field(i), b.Field(i)) {
				return false
			}
		}
		return true
	case reflect.Float32, reflect.Float64:
		return a.Float() == b.Float()
	}
	return reflect.DeepEqual(a.Interface(), b.Interface())
}

func c18RoundTrip(u *U, gc goCase, g interface{}) {
	u.Eval(1)
	u.DistinctN(1)
	shape := gc.name
	desc := fmt.Sprintf("%s value %#v", gc.name, g)
	var ty cty.Type
	var err error
	pan := func() (pan string) {
		defer func() {
			if r := recover(); r != nil {
				pan = fmt.Sprint(r)
			}
		}()
		if gc.ty != nil {
			ty = *gc.ty
		} else {
			ty, err = gocty.ImpliedType(g)
		}
		return ""
	}()
	if pan != "" || err != nil {
		u.Violation("gocty.impliedtype-fails", shape, fmt.Sprintf("ImpliedType of %s failed: %v %s", desc, err, firstLineOf(pan)))
		return
	}
	var v cty.Value
	pan = func() (pan string) {
		defer func() {
			if r := recover(); r != nil {
				pan = fmt.Sprint(r)
			}
		}()
		v, err = gocty.ToCtyValue(g, ty)
		return ""
	}()
	if pan != "" || err != nil {
		u.Violation("gocty.in-fails", shape, fmt.Sprintf("ToCtyValue(%s, %#v) failed: %v %s", desc, ty, err, firstLineOf(pan)))
		return
	}
	checkRetainedValue(u, "gocty.in", v, desc)
	if why := wf(v); why != "" {
		u.Violation("gocty.in-malformed", shape, fmt.Sprintf("ToCtyValue(%s) = %s is malformed: %s", desc, goStr(v), why))
		return
	}
	if !refConforms(tsOf(v.Type()), tsOf(ty)) {
		u.Violation("gocty.in-nonconforming", shape, fmt.Sprintf("ToCtyValue(%s, %#v) = %s does not conform", desc, ty, goStr(v)))
		return
	}
	// nil pointers, slices and maps correspond to null
	rv := reflect.ValueOf(g)
	if k := rv.Kind(); (k == reflect.Ptr || k == reflect.Slice || k == reflect.Map) && rv.IsNil() {
		if !v.IsNull() {
			u.Violation("gocty.nil-not-null", shape, fmt.Sprintf("ToCtyValue(%s) = %s, expected a null value", desc, goStr(v)))
		}
	} else if v.IsNull() {
		if _, isV := g.(cty.Value); !isV {
			u.Violation("gocty.nonnil-null", shape, fmt.Sprintf("ToCtyValue(%s) = %s although the Go value is not nil", desc, goStr(v)))
		}
	}
	target := reflect.New(reflect.TypeOf(g))
	pan = func() (pan string) {
		defer func() {
			if r := recover(); r != nil {
				pan = fmt.Sprint(r)
			}
		}()
		err = gocty.FromCtyValue(v, target.Interface())
		return ""
	}()
	if pan != "" {
		u.Violation("gocty.out-panics", shape, fmt.Sprintf("FromCtyValue(%s, *%s) panicked: %s", goStr(v), gc.name, firstLineOf(pan)))
		return
	}
	if err != nil {
		u.Violation("gocty.out-fails", shape, fmt.Sprintf("FromCtyValue(%s, *%s) failed: %v", goStr(v), gc.name, err))
		return
	}
	if !goEq(reflect.ValueOf(g), target.Elem()) {
		u.Violation("gocty.roundtrip-differs", shape, fmt.Sprintf("%s -> %s -> %#v", desc, goStr(v), target.Elem().Interface()))
		return
	}
	u.Class("roundtrip-ok")
	if u.WantSample() {
		u.Sample(map[string]string{"go_type": gc.name, "go_value": fmt.Sprintf("%#v", g), "cty_value": goStr(v)})
	}
}

// ---- (b) numbers

type numTarget struct {
	name     string
	mk       func() interface{} // pointer to a zero target
	min, max *big.Int           // integer range (nil for floats)
	f32, f64 bool
	big      string
}

func numTargets() []numTarget {
	b := func(s string) *big.Int { i, _ := new(big.Int).SetString(s, 10); return i }
	return []numTarget{
		{"int8", func() interface{} { return new(int8) }, b("-128"), b("127"), false, false, ""},
		{"int16", func() interface{} { return new(int16) }, b("-32768"), b("32767"), false, false, ""},
		{"int32", func() interface{} { return new(int32) }, b("-2147483648"), b("2147483647"), false, false, ""},
		{"int64", func() interface{} { return new(int64) }, b("-9223372036854775808"), b("9223372036854775807"), false, false, ""},
		{"int", func() interface{} { return new(int) }, b("-9223372036854775808"), b("9223372036854775807"), false, false, ""},
		{"uint8", func() interface{} { return new(uint8) }, b("0"), b("255"), false, false, ""},
		{"uint16", func() interface{} { return new(uint16) }, b("0"), b("65535"), false, false, ""},
		{"uint32", func() interface{} { return new(uint32) }, b("0"), b("4294967295"), false, false, ""},
		{"uint64", func() interface{} { return new(uint64) }, b("0"), b("18446744073709551615"), false, false, ""},
		{"uint", func() interface{} { return new(uint) }, b("0"), b("18446744073709551615"), false, false, ""},
		{"float32", func() interface{} { return new(float32) }, nil, nil, true, false, ""},
		{"float64", func() interface{} { return new(float64) }, nil, nil, false, true, ""},
		{"big.Int", func() interface{} { return new(big.Int) }, nil, nil, false, false, "int"},
		{"big.Float", func() interface{} { return new(big.Float) }, nil, nil, false, false, "float"},
	}
}

func c18Numbers(thorough bool) []cty.Value {
	out := mkNums(numAlphabet(true))
	for _, s := range []string{"127", "128", "129", "-128", "-129", "-127", "255", "256", "254", "32767", "32768", "-32768", "-32769", "65535", "65536", "2147483647", "2147483648", "-2147483648", "-2147483649",
		"4294967295", "4294967296", "9223372036854775807", "9223372036854775808", "-9223372036854775808", "-9223372036854775809", "18446744073709551615", "18446744073709551616", "18446744073709551614",
		"126.5", "127.5", "-0.5", "0.5", "254.999999999999999999999", "255.000000000000000000001", "1e40", "-1e40", "1e39", "3.5e38", "1e-50", "1e308", "1.8e308", "1e309", "-1e309", "1e-400", "340282346638528859811704183484516925440", "340282346638528859811704183484516925441", "340282356779733661637539395458142568448"} {
		out = append(out, parseNum(s))
	}
	out = append(out, cty.NumberFloatVal(math.MaxFloat32), cty.NumberFloatVal(-math.MaxFloat32), cty.NumberFloatVal(math.MaxFloat64), cty.NumberFloatVal(math.SmallestNonzeroFloat64), cty.NumberFloatVal(math.Copysign(0, -1)))
	return out
}

func c18NumberDecode(u *U, n cty.Value, t numTarget) {
	u.Eval(1)
	u.DistinctN(1)
	f := bf(n)
	target := t.mk()
	var err error
	pan := func() (pan string) {
		defer func() {
			if r := recover(); r != nil {
				pan = fmt.Sprint(r)
			}
		}()
		err = gocty.FromCtyValue(n, target)
		return ""
	}()
	desc := fmt.Sprintf("FromCtyValue(%s, *%s)", goStr(n), t.name)
	shape := numClass(n) + " -> " + t.name
	if pan != "" {
		u.Violation("gocty.number-panics", shape, fmt.Sprintf("%s panicked: %s", desc, firstLineOf(pan)))
		return
	}
	got := reflect.ValueOf(target).Elem()
	switch {
	case t.min != nil:
		want := false
		var iv *big.Int
		if !f.IsInf() && f.IsInt() {
			iv, _ = f.Int(nil)
			want = iv.Cmp(t.min) >= 0 && iv.Cmp(t.max) <= 0
		}
		if want != (err == nil) {
			u.Violation("gocty.number-representable", shape, fmt.Sprintf("%s: error=%v but representable=%v", desc, err, want))
			return
		}
		if err == nil {
			var stored *big.Int
			if got.Kind() >= reflect.Uint && got.Kind() <= reflect.Uint64 {
				stored = new(big.Int).SetUint64(got.Uint())
			} else {
				stored = big.NewInt(got.Int())
			}
			if stored.Cmp(iv) != 0 {
				u.Violation("gocty.number-stored", shape, fmt.Sprintf("%s stored %s", desc, stored))
			}
		}
	case t.f32 || t.f64:
		max := math.MaxFloat64
		if t.f32 {
			max = math.MaxFloat32
		}
		if f.IsInf() {
			if err != nil || !math.IsInf(got.Float(), f.Sign()) {
				u.Violation("gocty.number-representable", shape, fmt.Sprintf("%s: an infinity must be stored as that infinity (error=%v, stored %v)", desc, err, got.Float()))
			}
			return
		}
		abs := new(big.Float).Abs(f)
		bmax := new(big.Float).SetFloat64(max)
		within := abs.Cmp(bmax) <= 0
		if !within {
			// rounding zone just above the maximum: not judged
			edge := new(big.Float).Mul(bmax, big.NewFloat(1+1e-7))
			if abs.Cmp(edge) <= 0 {
				u.Class("float-edge-not-judged")
				return
			}
		}
		if within != (err == nil) {
			u.Violation("gocty.number-representable", shape, fmt.Sprintf("%s: error=%v but |value| <= max finite %s = %v (stored %v)", desc, err, t.name, within, got.Float()))
			return
		}
		if err == nil {
			stored := got.Float()
			if math.IsInf(stored, 0) || math.IsNaN(stored) {
				u.Violation("gocty.number-stored", shape, fmt.Sprintf("%s stored %v for a finite number", desc, stored))
				return
			}
			// either neighbouring float is accepted
			x, _ := f.Float64()
			var lo, hi float64
			if t.f32 {
				c := float64(float32(x))
				lo, hi = float64(math.Nextafter32(float32(c), float32(math.Inf(-1)))), float64(math.Nextafter32(float32(c), float32(math.Inf(1))))
			} else {
				lo, hi = math.Nextafter(x, math.Inf(-1)), math.Nextafter(x, math.Inf(1))
			}
			if stored < lo || stored > hi {
				u.Violation("gocty.number-stored", shape, fmt.Sprintf("%s stored %v, expected a neighbour of %v", desc, stored, x))
			}
		}
	case t.big == "int":
		want := !f.IsInf() && f.IsInt()
		if want != (err == nil) {
			u.Violation("gocty.number-representable", shape, fmt.Sprintf("%s: error=%v but whole=%v", desc, err, want))
			return
		}
		if err == nil {
			iv, _ := f.Int(nil)
			if target.(*big.Int).Cmp(iv) != 0 {
				u.Violation("gocty.number-stored", shape, fmt.Sprintf("%s stored %s", desc, target.(*big.Int)))
			}
		}
	case t.big == "float":
		if err != nil {
			u.Violation("gocty.number-representable", shape, fmt.Sprintf("%s failed: %v", desc, err))
			return
		}
		if target.(*big.Float).Cmp(f) != 0 {
			u.Violation("gocty.number-stored", shape, fmt.Sprintf("%s stored %s", desc, target.(*big.Float).Text('g', 40)))
		}
	}
	if err == nil {
		u.Class("number-stored")
	} else {
		u.Class("number-refused")
	}
}

// ---- (c) arbitrary cty values into every target

// accepts is the reference for "shape matches": can a known non-null value
// of type vt be decoded into Go type gt at all (ignoring number ranges)?
func c18ShapeOK(v cty.Value, gt reflect.Type) (ok bool, decided bool) {
	vt := v.Type()
	if gt == reflect.TypeOf(cty.Value{}) {
		return true, true
	}
	for gt.Kind() == reflect.Ptr {
		gt = gt.Elem()
	}
	if gt == reflect.TypeOf(cty.Value{}) {
		return true, true
	}
	switch {
	case vt == cty.Bool:
		return gt.Kind() == reflect.Bool, true
	case vt == cty.String:
		return gt.Kind() == reflect.String, true
	case vt == cty.Number:
		switch gt.Kind() {
		case reflect.Int, reflect.Int8, reflect.Int16, reflect.Int32, reflect.Int64, reflect.Uint, reflect.Uint8, reflect.Uint16, reflect.Uint32, reflect.Uint64, reflect.Float32, reflect.Float64:
			return true, false // range decides
		}
		if gt == reflect.TypeOf(big.Int{}) || gt == reflect.TypeOf(big.Float{}) {
			return true, false
		}
		return false, true
	case vt.IsListType():
		if gt.Kind() == reflect.Array {
			// a fixed-size array holds exactly its length: any other list length is a shape mismatch
			if v.LengthInt() != gt.Len() {
				return false, true
			}
			return true, false
		}
		if gt.Kind() == reflect.Slice {
			return true, false
		}
		return false, true
	case vt.IsSetType():
		return false, false // set targets (gocty set helpers) are not in the family
	case vt.IsMapType():
		if gt.Kind() == reflect.Map {
			return true, false
		}
		return false, true
	case vt.IsObjectType(), vt.IsTupleType():
		if gt.Kind() == reflect.Struct {
			return true, false
		}
		return false, true
	}
	return false, false
}

func runC18(c *Ctx) {
	fam := goFamily()
	// (a)
	for _, gc := range fam {
		gc := gc
		c.Unit(func(u *U) {
			for _, g := range gc.vals {
				c18RoundTrip(u, gc, g)
			}
		})
	}
	// (d)
	for _, gc := range fam {
		gc := gc
		c.Unit(func(u *U) {
			for _, g := range gc.vals {
				c18Deviations(u, gc, g)
			}
		})
	}
	// (e)
	for _, gc := range c18ReuseFamily(fam) {
		gc := gc
		c.Unit(func(u *U) { c18Reuse(u, gc) })
	}
	// (b)
	nums := c18Numbers(c.Thorough)
	for _, t := range numTargets() {
		t := t
		c.Unit(func(u *U) {
			for _, n := range nums {
				c18NumberDecode(u, n, t)
			}
		})
	}
	// (c)
	var pool []cty.Value
	o := defaultValOpts(false)
	o.Nums = []cty.Value{cty.Zero, cty.NumberIntVal(300), cty.NumberFloatVal(0.5), cty.PositiveInfinity, parseNum("1e30")}
	o.Strs = []string{"", "a", "é"}
	o.CapPerTy = 8
	if c.Thorough {
		o.CapPerTy = 20
	}
	for _, t := range structTypes(c.Thorough) {
		pool = append(pool, knownValues(t, o, true)...)
		ty := t.Build()
		pool = append(pool, cty.UnknownVal(ty))
	}
	pool = append(pool, cty.DynamicVal, cty.NullVal(cty.DynamicPseudoType),
		cty.ObjectVal(map[string]cty.Value{"name": cty.StringVal("n"), "age": cty.NumberIntVal(3)}),
		cty.ObjectVal(map[string]cty.Value{"name": cty.StringVal("n"), "age": cty.UnknownVal(cty.Number)}),
		cty.ObjectVal(map[string]cty.Value{"name": cty.StringVal("n")}),
		cty.ObjectVal(map[string]cty.Value{"name": cty.NullVal(cty.String), "age": cty.NumberIntVal(3)}),
		cty.ObjectVal(map[string]cty.Value{"name": cty.StringVal("n"), "age": cty.NumberIntVal(3), "extra": cty.True}),
		cty.TupleVal([]cty.Value{cty.StringVal("n"), cty.NumberIntVal(3)}),
		cty.ListVal([]cty.Value{cty.NumberIntVal(1), cty.NullVal(cty.Number)}),
		cty.ListVal([]cty.Value{cty.NumberIntVal(1), cty.NumberIntVal(2), cty.NumberIntVal(3)}),
		cty.MapVal(map[string]cty.Value{"a": cty.NumberIntVal(1), "b": cty.NullVal(cty.Number)}),
		// lists of every length 0..4 against the fixed-size array targets, also nested
		cty.ListValEmpty(cty.Number), cty.ListVal([]cty.Value{cty.NumberIntVal(9)}), cty.ListVal([]cty.Value{cty.NumberIntVal(9), cty.NumberIntVal(8)}),
		cty.ListVal([]cty.Value{cty.NumberIntVal(1), cty.NumberIntVal(2), cty.NumberIntVal(3), cty.NumberIntVal(4)}),
		cty.ListValEmpty(cty.String), cty.ListVal([]cty.Value{cty.StringVal("x"), cty.StringVal("y")}), cty.ListVal([]cty.Value{cty.StringVal("x"), cty.StringVal("y"), cty.StringVal("z")}),
		cty.ListVal([]cty.Value{cty.StringVal("x"), cty.StringVal("y"), cty.StringVal("z"), cty.StringVal("w")}),
		cty.ListVal([]cty.Value{cty.ListVal([]cty.Value{cty.StringVal("x")})}), cty.ListVal([]cty.Value{cty.ListValEmpty(cty.String), cty.ListVal([]cty.Value{cty.StringVal("x")})}),
		cty.ObjectVal(map[string]cty.Value{"pair": cty.ListVal([]cty.Value{cty.NumberIntVal(7)}), "name": cty.StringVal("n")}),
		cty.ObjectVal(map[string]cty.Value{"pair": cty.ListVal([]cty.Value{cty.NumberIntVal(7), cty.NumberIntVal(8)}), "name": cty.StringVal("n")}),
		cty.ObjectVal(map[string]cty.Value{"pair": cty.ListVal([]cty.Value{cty.NumberIntVal(7), cty.NumberIntVal(8), cty.NumberIntVal(9)}), "name": cty.StringVal("n")}),
		cty.ObjectVal(map[string]cty.Value{"pair": cty.ListValEmpty(cty.Number), "name": cty.StringVal("n")}),
	)
	for lo := 0; lo < len(pool); lo += 10 {
		hi := lo + 10
		if hi > len(pool) {
			hi = len(pool)
		}
		part := pool[lo:hi]
		c.Unit(func(u *U) {
			for _, v := range part {
				for _, gc := range fam {
					gt := reflect.TypeOf(gc.vals[0])
					u.Eval(1)
					u.DistinctN(1)
					target := reflect.New(gt)
					var err error
					pan := func() (pan string) {
						defer func() {
							if r := recover(); r != nil {
								pan = fmt.Sprint(r)
							}
						}()
						err = gocty.FromCtyValue(v, target.Interface())
						return ""
					}()
					desc := fmt.Sprintf("FromCtyValue(%s, *%s)", goStr(v), gc.name)
					shape := shapeOf(v) + " -> " + gc.name
					if pan != "" {
						u.Violation("gocty.out-panics", shape, fmt.Sprintf("%s panicked: %s", desc, firstLineOf(pan)))
						continue
					}
					isDynTarget := gt == reflect.TypeOf(cty.Value{})
					switch {
					case !v.IsKnown() && !isDynTarget:
						if err == nil {
							u.Violation("gocty.unknown-accepted", shape, fmt.Sprintf("%s succeeded although the value is unknown (stored %#v)", desc, target.Elem().Interface()))
						}
					case v.IsKnown() && v.IsNull() && !isDynTarget:
						nilable := gt.Kind() == reflect.Ptr || gt.Kind() == reflect.Slice || gt.Kind() == reflect.Map
						if gt.Kind() == reflect.Ptr {
							if k := gt.Elem().Kind(); k == reflect.Ptr || k == reflect.Slice || k == reflect.Map {
								// two nilable levels: which one becomes nil is a documented convention, not judged
								u.Class("two-level-nilable-not-judged")
								continue
							}
						}
						if !nilable && err == nil {
							u.Violation("gocty.null-into-non-nilable", shape, fmt.Sprintf("%s succeeded although the target cannot hold nil (stored %#v)", desc, target.Elem().Interface()))
						}
						if nilable && err == nil && !target.Elem().IsNil() {
							u.Violation("gocty.null-not-nil", shape, fmt.Sprintf("%s stored a non-nil %#v for a null value", desc, target.Elem().Interface()))
						}
					case v.IsKnown() && !v.IsNull():
						if err == nil && arrayLenMismatch(v, gt) {
							u.Violation("gocty.shape-mismatch-accepted", shape, fmt.Sprintf("%s succeeded although a list does not have the length of the array it is decoded into (stored %#v)", desc, target.Elem().Interface()))
						} else if ok, decided := c18ShapeOK(v, gt); decided && !ok && err == nil {
							u.Violation("gocty.shape-mismatch-accepted", shape, fmt.Sprintf("%s succeeded although the shapes do not match (stored %#v)", desc, target.Elem().Interface()))
						}
					}
					if err == nil {
						u.Class("decoded")
						c18Mirror(u, v, target, gt, desc, shape)
					} else {
						u.Class("refused")
					}
				}
			}
		})
	}
}

// ---- (e) reused targets: decoding is a function of the value alone.  For every ordered pair (and,
// for short families, triple) of values of one Go type the second / third decode goes into the
// target that already holds the result of the earlier ones; what is stored must be the last value,
// with nothing left over from the earlier ones (stale map entries, longer slices, set pointers).
func c18Reuse(u *U, gc goCase) {
	var vals []cty.Value
	var gos []interface{}
	for _, g := range gc.vals {
		var ty cty.Type
		var err error
		var v cty.Value
		func() {
			defer func() {
				if r := recover(); r != nil {
					err = fmt.Errorf("%v", r)
				}
			}()
			if gc.ty != nil {
				ty = *gc.ty
			} else {
				ty, err = gocty.ImpliedType(g)
			}
			if err == nil {
				v, err = gocty.ToCtyValue(g, ty)
			}
		}()
		if err != nil {
			continue
		}
		vals = append(vals, v)
		gos = append(gos, g)
	}
	if len(vals) < 2 {
		return
	}
	gt := reflect.TypeOf(gc.vals[0])
	run := func(seq []int) {
		u.Eval(1)
		u.DistinctN(1)
		target := reflect.New(gt)
		desc := ""
		for k, i := range seq {
			var err error
			pan := func() (pan string) {
				defer func() {
					if r := recover(); r != nil {
						pan = fmt.Sprint(r)
					}
				}()
				err = gocty.FromCtyValue(vals[i], target.Interface())
				return ""
			}()
			desc += fmt.Sprintf("FromCtyValue(%s, t); ", goStr(vals[i]))
			shape := "reused target: " + gc.name
			if pan != "" {
				u.Violation("gocty.out-panics", shape, fmt.Sprintf("%s panicked at decode %d into one *%s: %s", desc, k+1, gc.name, firstLineOf(pan)))
				return
			}
			if err != nil {
				u.Violation("gocty.reused-target-fails", shape, fmt.Sprintf("%s decode %d into one *%s failed although the same decode into a fresh target succeeds: %v", desc, k+1, gc.name, err))
				return
			}
			if !goEq(reflect.ValueOf(gos[i]), target.Elem()) {
				u.Violation("gocty.reused-target-differs", shape, fmt.Sprintf("%s after decode %d the reused *%s holds %#v, a fresh target would hold %#v", desc, k+1, gc.name, target.Elem().Interface(), gos[i]))
				return
			}
		}
		u.Class("reused-target-ok")
	}
	n := len(vals)
	for i := 0; i < n; i++ {
		for j := 0; j < n; j++ {
			run([]int{i, j})
			if n <= 4 {
				for k := 0; k < n; k++ {
					run([]int{i, j, k})
				}
			}
		}
	}
}

// ---- (d) one-deviation family: every valid cty counterpart of a family value with exactly one
// nested position (the root included) replaced by a null / unknown of its own type, or by a null /
// known value of another type.  c18Refuse is the reference for "must be refused": it walks value
// and Go type together and answers true only where the statement leaves no doubt.
func c18Refuse(v cty.Value, gt reflect.Type) (refuse bool, why string) {
	ctyValT := reflect.TypeOf(cty.Value{})
	if gt == ctyValT {
		return false, ""
	}
	ptrs := 0
	for gt.Kind() == reflect.Ptr {
		gt = gt.Elem()
		ptrs++
	}
	if gt == ctyValT || gt.Kind() == reflect.Interface {
		return false, ""
	}
	if v.IsMarked() {
		return false, ""
	}
	vt := v.Type()
	if !v.IsKnown() {
		return true, "an unknown value has no Go counterpart"
	}
	if vt.IsCapsuleType() || vt == cty.DynamicPseudoType || vt.IsSetType() {
		return false, ""
	}
	if v.IsNull() {
		if ptrs > 0 {
			return false, ""
		}
		switch gt.Kind() {
		case reflect.Slice:
			if !vt.IsListType() {
				return true, "a null " + vt.FriendlyName() + " is not the counterpart of a nil slice"
			}
			return false, ""
		case reflect.Map:
			if !vt.IsMapType() {
				return true, "a null " + vt.FriendlyName() + " is not the counterpart of a nil map"
			}
			return false, ""
		}
		return true, "null into a target that cannot hold nil"
	}
	isBig := gt == reflect.TypeOf(big.Int{}) || gt == reflect.TypeOf(big.Float{})
	switch {
	case vt == cty.Bool:
		if gt.Kind() != reflect.Bool {
			return true, "bool into " + gt.Kind().String()
		}
	case vt == cty.String:
		if gt.Kind() != reflect.String {
			return true, "string into " + gt.Kind().String()
		}
	case vt == cty.Number:
		switch gt.Kind() {
		case reflect.Int, reflect.Int8, reflect.Int16, reflect.Int32, reflect.Int64, reflect.Uint, reflect.Uint8, reflect.Uint16, reflect.Uint32, reflect.Uint64, reflect.Float32, reflect.Float64:
			return false, ""
		}
		if !isBig {
			return true, "number into " + gt.Kind().String()
		}
	case vt.IsListType():
		switch gt.Kind() {
		case reflect.Array:
			if v.LengthInt() != gt.Len() {
				return true, "list length differs from the array length"
			}
			fallthrough
		case reflect.Slice:
			for _, e := range v.AsValueSlice() {
				if r, w := c18Refuse(e, gt.Elem()); r {
					return true, "element: " + w
				}
			}
		default:
			return true, "list into " + gt.Kind().String()
		}
	case vt.IsMapType():
		if gt.Kind() != reflect.Map || isBig {
			return true, "map into " + gt.Kind().String()
		}
		for _, e := range v.AsValueMap() {
			if r, w := c18Refuse(e, gt.Elem()); r {
				return true, "element: " + w
			}
		}
	case vt.IsObjectType():
		if isBig {
			return false, "" // an empty object into a struct without tagged fields is accepted by design; big.Int is such a struct
		}
		if gt.Kind() != reflect.Struct {
			return true, "object into " + gt.Kind().String()
		}
		for i := 0; i < gt.NumField(); i++ {
			tag := gt.Field(i).Tag.Get("cty")
			if tag != "" && vt.HasAttribute(tag) {
				if r, w := c18Refuse(v.GetAttr(tag), gt.Field(i).Type); r {
					return true, "attribute " + tag + ": " + w
				}
			}
		}
	case vt.IsTupleType():
		if gt.Kind() != reflect.Struct && !isBig {
			return true, "tuple into " + gt.Kind().String()
		}
	}
	return false, ""
}

func c18DeviationReplacements(own cty.Type) []cty.Value {
	out := []cty.Value{}
	if own != cty.DynamicPseudoType {
		out = append(out, cty.NullVal(own), cty.UnknownVal(own))
	}
	for _, t := range []cty.Type{cty.String, cty.Number, cty.Bool, cty.List(cty.String), cty.List(cty.Number), cty.Map(cty.Number), cty.Map(cty.String), cty.Set(cty.String),
		cty.EmptyObject, cty.EmptyTuple, cty.Object(map[string]cty.Type{"name": cty.String, "age": cty.Number}), cty.DynamicPseudoType} {
		if !t.Equals(own) {
			out = append(out, cty.NullVal(t))
		}
	}
	for _, k := range []cty.Value{cty.StringVal("x"), cty.NumberIntVal(1), cty.True, cty.ListValEmpty(cty.String), cty.ListVal([]cty.Value{cty.NumberIntVal(1), cty.NumberIntVal(2)}),
		cty.MapValEmpty(cty.Number), cty.MapVal(map[string]cty.Value{"k": cty.StringVal("v")}), cty.EmptyObjectVal, cty.EmptyTupleVal} {
		if !k.Type().Equals(own) {
			out = append(out, k)
		}
	}
	return out
}

func c18Deviations(u *U, gc goCase, g interface{}) {
	var ty cty.Type
	var err error
	var v0 cty.Value
	func() {
		defer func() { recover() }()
		if gc.ty != nil {
			ty = *gc.ty
		} else {
			ty, err = gocty.ImpliedType(g)
		}
		if err == nil {
			v0, err = gocty.ToCtyValue(g, ty)
		}
	}()
	if err != nil || v0 == cty.NilVal {
		return // judged by the round-trip clause
	}
	gt := reflect.TypeOf(g)
	for _, p := range allPositions(v0, 3) {
		own := getAt(v0, p).Type()
		for _, r := range c18DeviationReplacements(own) {
			v1, ok := replaceAt(v0, p, r)
			if !ok {
				continue // not expressible (members of a collection must agree in type)
			}
			u.Eval(1)
			u.DistinctN(1)
			target := reflect.New(gt)
			var derr error
			pan := func() (pan string) {
				defer func() {
					if r := recover(); r != nil {
						pan = fmt.Sprint(r)
					}
				}()
				derr = gocty.FromCtyValue(v1, target.Interface())
				return ""
			}()
			desc := fmt.Sprintf("FromCtyValue(%s, *%s)", goStr(v1), gc.name)
			shape := "deviation: " + shapeOf(v1) + " -> " + gc.name
			if pan != "" {
				u.Violation("gocty.out-panics", shape, fmt.Sprintf("%s panicked: %s", desc, firstLineOf(pan)))
				continue
			}
			refuse, why := c18Refuse(v1, gt)
			if refuse {
				u.Class("deviation-must-refuse")
				if derr == nil {
					u.Violation("gocty.deviation-accepted", shape, fmt.Sprintf("%s succeeded (stored %#v) although it must be refused: %s", desc, target.Elem().Interface(), why))
				}
				continue
			}
			if derr == nil {
				u.Class("deviation-decoded")
				c18Mirror(u, v1, target, gt, desc, shape)
			} else {
				u.Class("deviation-refused-unjudged")
			}
		}
	}
}

// c18Mirror: a decode that succeeded stored the value, all of it.  The stored Go data is
// converted back with ToCtyValue against the value's own type and must equal the value.
// Not judged: targets with float kinds (inexact numbers may round), cty.Value targets
// (trivial), values that are not wholly known or contain nulls below two nilable levels.
func c18Mirror(u *U, v cty.Value, target reflect.Value, gt reflect.Type, desc, shape string) {
	if !v.IsWhollyKnown() || v.IsNull() || goTypeHas(gt, func(t reflect.Type) bool {
		return t.Kind() == reflect.Float32 || t.Kind() == reflect.Float64 || t == reflect.TypeOf(cty.Value{}) || t == reflect.TypeOf(big.Float{})
	}) {
		return
	}
	if v.Type().IsObjectType() || v.Type().IsTupleType() || v.Type().IsSetType() || v.Type().HasDynamicTypes() {
		// struct targets may legitimately ignore nothing but tags decide names; keep to collections and primitives
		if !(v.Type().IsObjectType() && gt.Kind() == reflect.Struct) {
			return
		}
	}
	var back cty.Value
	var err error
	pan := func() (pan string) {
		defer func() {
			if r := recover(); r != nil {
				pan = fmt.Sprint(r)
			}
		}()
		back, err = gocty.ToCtyValue(target.Elem().Interface(), v.Type())
		return ""
	}()
	if pan != "" || err != nil {
		u.Class("mirror-not-convertible")
		return
	}
	u.Class("mirror-compared")
	if !rawEq(back, v) && !(back.Equals(v).IsKnown() && back.Equals(v).True()) {
		u.Violation("gocty.decode-incomplete", shape, fmt.Sprintf("%s succeeded but stored %#v, which converts back to %s", desc, target.Elem().Interface(), goStr(back)))
	}
}

// arrayLenMismatch reports whether v holds, at the top or nested where the Go type has an
// array, a known non-null list whose length differs from the array's.
func arrayLenMismatch(v cty.Value, gt reflect.Type) bool {
	for gt.Kind() == reflect.Ptr {
		gt = gt.Elem()
	}
	if !v.IsKnown() || v.IsNull() || gt == reflect.TypeOf(cty.Value{}) {
		return false
	}
	vt := v.Type()
	switch {
	case vt.IsListType() && gt.Kind() == reflect.Array:
		if v.LengthInt() != gt.Len() {
			return true
		}
		fallthrough
	case vt.IsListType() && gt.Kind() == reflect.Slice:
		for _, e := range v.AsValueSlice() {
			if arrayLenMismatch(e, gt.Elem()) {
				return true
			}
		}
	case vt.IsMapType() && gt.Kind() == reflect.Map:
		for _, e := range v.AsValueMap() {
			if arrayLenMismatch(e, gt.Elem()) {
				return true
			}
		}
	case vt.IsObjectType() && gt.Kind() == reflect.Struct:
		for i := 0; i < gt.NumField(); i++ {
			tag := gt.Field(i).Tag.Get("cty")
			if tag != "" && vt.HasAttribute(tag) && arrayLenMismatch(v.GetAttr(tag), gt.Field(i).Type) {
				return true
			}
		}
	}
	return false
}

func goTypeHas(t reflect.Type, pred func(reflect.Type) bool) bool {
	if pred(t) {
		return true
	}
	switch t.Kind() {
	case reflect.Ptr, reflect.Slice, reflect.Array, reflect.Map:
		return goTypeHas(t.Elem(), pred)
	case reflect.Struct:
		if t == reflect.TypeOf(big.Int{}) || t == reflect.TypeOf(big.Float{}) || t == reflect.TypeOf(cty.Value{}) {
			return false
		}
		for i := 0; i < t.NumField(); i++ {
			if goTypeHas(t.Field(i).Type, pred) {
				return true
			}
		}
	}
	return false
}

// c18ReuseFamily: the family plus values chosen so that a later value has fewer / other members
// than an earlier one (maps losing keys, slices shrinking, pointers becoming nil, nested).
func c18ReuseFamily(fam []goCase) []goCase {
	type cfg struct {
		Name string            `cty:"name"`
		Tags map[string]string `cty:"tags"`
		L    []int             `cty:"l"`
		P    *int              `cty:"p"`
	}
	out := append([]goCase(nil), fam...)
	out = append(out,
		goCase{"map[string]int8", []interface{}{map[string]int8{"a": 1, "b": 2}, map[string]int8{"b": 3}, map[string]int8{}, map[string]int8(nil), map[string]int8{"c": 4, "d": 5, "e": 6}}, nil},
		goCase{"[]string(shrinking)", []interface{}{[]string{"a", "b", "c"}, []string{"z"}, []string{}, []string(nil)}, nil},
		goCase{"map[string][]int", []interface{}{map[string][]int{"k": {1, 2, 3}, "j": {9}}, map[string][]int{"k": {7}}, map[string][]int{"k": nil}}, nil},
		goCase{"struct{map,slice,ptr}", []interface{}{cfg{"one", map[string]string{"env": "prod", "team": "a"}, []int{1, 2}, ip(1)}, cfg{"two", map[string]string{"env": "dev"}, []int{}, nil}, cfg{"three", nil, nil, ip(0)}, cfg{"four", map[string]string{}, []int{5, 6, 7}, ip(2)}}, nil},
		goCase{"*map[string]int", []interface{}{&map[string]int{"a": 1, "b": 2}, &map[string]int{"b": 3}}, nil},
		goCase{"[]map[string]int", []interface{}{[]map[string]int{{"a": 1, "b": 2}, {"c": 3}}, []map[string]int{{"b": 9}}}, nil},
		goCase{"map[string]map[string]int", []interface{}{map[string]map[string]int{"x": {"a": 1, "b": 2}}, map[string]map[string]int{"x": {"b": 3}, "y": {}}}, nil},
	)
	return out
}
