package main

import (
	"fmt"
	"strings"
	"sync"

	"github.com/zclconf/go-cty/cty"
)

// sharedSafe reports whether an operation body only reads the pool (it may
// mutate Go data it obtained itself), so that many goroutines can run it on
// one shared pool.
func sharedSafe(op immOp) bool {
	if op.mutates != "" {
		return false
	}
	for _, p := range []string{"S0=", "S0,S1", "B=", "T0="} {
		if strings.HasPrefix(op.name, p) {
			return false
		}
	}
	return true
}

// c20Concurrent is the supplementary free-running pass: 2..16 goroutines run
// every read-only operation body against ONE shared pool; every goroutine
// must see the results of a sequential run, and the pool must be unchanged.
// (Built with -race by `run.sh C20 thorough`, the race detector watches it.)
func c20Concurrent(c *Ctx, sys *immSys) {
	c.Unit(func(u *U) {
		st := newImmState()
		var ops []immOp
		for _, op := range sys.ops {
			if sharedSafe(op) {
				ops = append(ops, op)
			}
		}
		baseline := make([]string, len(ops))
		for i, op := range ops {
			r, ok := op.run(st)
			baseline[i] = fmt.Sprint(ok)
			if ok && r != cty.NilVal {
				baseline[i] += goStr(r)
			}
		}
		before := st.fingerprints()
		rounds := 30
		for _, g := range []int{2, 3, 8, 16} {
			var wg sync.WaitGroup
			diffs := make([]string, g)
			for t := 0; t < g; t++ {
				t := t
				wg.Add(1)
				go func() {
					defer wg.Done()
					defer func() {
						if r := recover(); r != nil {
							diffs[t] = fmt.Sprintf("goroutine panicked: %v", r)
						}
					}()
					for k := 0; k < rounds; k++ {
						for i := range ops {
							j := (i + t*7 + k) % len(ops)
							r, ok := ops[j].run(st)
							got := fmt.Sprint(ok)
							if ok && r != cty.NilVal {
								got += goStr(r)
							}
							if got != baseline[j] && diffs[t] == "" {
								diffs[t] = fmt.Sprintf("%s gave %s, sequentially %s", ops[j].name, trunc(got, 200), trunc(baseline[j], 200))
							}
						}
					}
				}()
			}
			wg.Wait()
			u.Eval(g * rounds * len(ops))
			for t, d := range diffs {
				if d != "" {
					u.Violation("concurrent.result-differs", fmt.Sprintf("goroutines=%d", g), fmt.Sprintf("goroutine %d of %d: %s", t, g, d))
				}
			}
		}
		after := st.fingerprints()
		for n, fp := range before {
			if after[n] != fp {
				u.Violation("concurrent.shared-object-changed", n, fmt.Sprintf("shared object %s changed while goroutines only ran read-only operations on it", n))
			}
		}
		u.Class("concurrent-pass")
	})
}

func init() {
	// C20R is the concurrent pass alone, for the -race build (run.sh C20 thorough).
	register(&Check{
		ID:    "C20R",
		Level: "other",
		Rule:  "free-running concurrent pass of C20 under the race detector (supplementary, sampling)",
		Run: func(c *Ctx) {
			c20Concurrent(c, &immSys{ops: c20Ops()})
		},
		Shards: 1,
	})
}
