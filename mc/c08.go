package main

import (
	"fmt"

	"github.com/zclconf/go-cty/cty"
	"github.com/zclconf/go-cty/cty/convert"
)

func init() {
	register(&Check{
		ID:        "C08",
		DeepQuick: true,
		Level:     "exploration",
		Rule: "every (value, target type) pair: values = known values of each source type of the structural core (nulls at every depth) plus every one-position weakening to a refined unknown and marked variants; " +
			"targets = unrelated types plus every type derived from the source type by kind changes (list/set/tuple, map/object), element conversions, dropped / added / optional attributes and subtrees replaced by the dynamic placeholder; " +
			"Convert, GetConversion and GetConversionUnsafe are all exercised; distinct by value GoString and target canonical string; non-trivial = source type differs from target type",
		Assumptions: []string{
			"reference conformance / canonical strings from the checker's type model; admits() for unknown results",
			"round trip is only demanded when the forward conversion is offered as safe and the backward conversion succeeds",
		},
		Run: runC08,
	})
	c04Extras = append(c04Extras, c04Conversions)
	c06Extras = append(c06Extras, c06Conversions)
}

// derivedTargets: types derived from s by one structural edit, recursively.
func derivedTargets(s *TS, depth int) []*TS {
	out := []*TS{tsDyn}
	leafAlts := []*TS{tsStr, tsNum, tsBool}
	switch s.K {
	case 'd':
		// a dynamically typed source (or member) may be asked to become anything, in
		// particular types with optional attributes at the top or nested
		out = append(out, tsStr, tObj(at("a", tsStr)), tObj(ato("a", tsStr)), tObj(at("a", tsStr), ato("zz", tObj(ato("q", tsNum)))), tList(tsStr), tList(tObj(ato("a", tsNum))), tMap(tObj(at("p", tsStr), ato("q", tsBool))))
	case 'b', 'n', 's':
		for _, l := range leafAlts {
			if l.K != s.K {
				out = append(out, l)
			}
		}
	case 'L', 'S':
		var elems []*TS
		if depth > 0 {
			elems = derivedTargets(s.Elem, depth-1)
		}
		elems = append(elems, s.Elem)
		for _, e := range elems {
			out = append(out, tList(e), tSet(e))
		}
		out = append(out, tTuple(s.Elem), tTuple(s.Elem, s.Elem), tMap(s.Elem))
	case 'M':
		var elems []*TS
		if depth > 0 {
			elems = derivedTargets(s.Elem, depth-1)
		}
		elems = append(elems, s.Elem)
		for _, e := range elems {
			out = append(out, tMap(e))
		}
		out = append(out, tObj(at("k1", s.Elem)), tObj(at("k1", s.Elem), at("k2", s.Elem)), tObj(at("k1", s.Elem), ato("zz", s.Elem)),
			tObj(at("k1", tsDyn)), tObj(), tList(s.Elem),
			// optional attributes the map may lack, with optional attributes nested inside
			tObj(at("k1", s.Elem), ato("zz", tObj(ato("q", tsNum)))), tObj(ato("k1", s.Elem), ato("zz", tList(tObj(ato("q", s.Elem))))),
			tObj(at("k1", s.Elem), ato("zz", tMap(tObj(at("p", tsStr), ato("q", tsBool))))))
	case 'T':
		out = append(out, tList(tsDyn), tSet(tsDyn), tList(tsStr), tSet(tsStr), tList(tsNum))
		if len(s.Elems) > 0 {
			out = append(out, tList(s.Elems[0]), tSet(s.Elems[0]), tTuple(s.Elems[1:]...), tTuple(append(append([]*TS(nil), s.Elems...), tsStr)...))
		}
		for i := range s.Elems {
			alts := []*TS{tsDyn}
			if depth > 0 {
				alts = derivedTargets(s.Elems[i], depth-1)
			}
			for _, a := range alts {
				es := append([]*TS(nil), s.Elems...)
				es[i] = a
				out = append(out, tTuple(es...))
			}
		}
		out = append(out, tObj())
	case 'O':
		out = append(out, tMap(tsDyn), tMap(tsStr), tMap(tsNum))
		if len(s.Attrs) > 0 {
			out = append(out, tMap(s.Attrs[0].T))
			// drop one attribute / make it optional / optional with another leaf type
			for i := range s.Attrs {
				as := append(append([]TAttr(nil), s.Attrs[:i]...), s.Attrs[i+1:]...)
				out = append(out, tObj(as...))
				opt := append([]TAttr(nil), s.Attrs...)
				opt[i].Opt = true
				out = append(out, tObj(opt...))
				for _, l := range leafAlts {
					if l.K != s.Attrs[i].T.K {
						o2 := append([]TAttr(nil), s.Attrs...)
						o2[i] = TAttr{Name: s.Attrs[i].Name, T: l, Opt: true}
						out = append(out, tObj(o2...))
					}
				}
			}
		}
		// added attributes: required, optional, optional with nested optional
		out = append(out,
			tObj(append(append([]TAttr(nil), s.Attrs...), at("zz", tsStr))...),
			tObj(append(append([]TAttr(nil), s.Attrs...), ato("zz", tsStr))...),
			tObj(append(append([]TAttr(nil), s.Attrs...), ato("zz", tObj(ato("q", tsNum))))...),
			tObj(append(append([]TAttr(nil), s.Attrs...), ato("zz", tList(tObj(ato("q", tsNum)))))...),
		)
		for i := range s.Attrs {
			alts := []*TS{tsDyn}
			if depth > 0 {
				alts = derivedTargets(s.Attrs[i].T, depth-1)
			}
			for _, a := range alts {
				as := append([]TAttr(nil), s.Attrs...)
				as[i].T = a
				out = append(out, tObj(as...))
			}
		}
		out = append(out, tTuple())
	case 'C':
		out = append(out, tsStr)
	}
	return out
}

var unrelatedTargets = []*TS{tsBool, tsNum, tsStr, tList(tsStr), tMap(tsStr), tSet(tsNum), tTuple(), tObj(), tObj(ato("a", tsStr)), tsCaps0}

func c08Targets(s *TS) []*TS {
	ts := append([]*TS{s}, derivedTargets(s, 1)...)
	ts = append(ts, unrelatedTargets...)
	seen := map[string]bool{}
	var out []*TS
	for _, t := range ts {
		k := t.Canon()
		if !seen[k] {
			seen[k] = true
			out = append(out, t)
		}
	}
	return out
}

func c08SourceTypes(thorough bool) []*TS {
	ts := structTypes(thorough)
	ts = append(ts, tsDyn, tObj(at("a", tsStr), at("b", tsBool)), tTuple(tsNum, tsNum), tList(tTuple(tsStr, tsNum)), tMap(tObj(at("a", tsNum))),
		tObj(at("a", tObj(at("b", tsStr)))), tList(tMap(tsStr)), tSet(tObj(at("a", tsStr))))
	seen := map[string]bool{}
	var out []*TS
	for _, t := range ts {
		if k := t.Canon(); !seen[k] {
			seen[k] = true
			out = append(out, t)
		}
	}
	return out
}

func c08Values(t *TS, thorough bool) []cty.Value {
	o := defaultValOpts(thorough)
	o.Nums = []cty.Value{cty.NumberIntVal(0), cty.NumberIntVal(1), cty.NumberFloatVal(2.5), cty.NumberFloatVal(0.1), parseNum("0.1"), cty.PositiveInfinity, cty.NumberUIntVal(1 << 63)}
	o.Strs = []string{"", "a", "1", "true", "e\u0301", "2.50", "0x10"}
	o.NestStrs = []string{"a", "1", "true"}
	o.CapPerTy = 9
	if thorough {
		o.CapPerTy = 16
	}
	return knownValues(t, o, true)
}

func callConv(f func() (cty.Value, error)) (v cty.Value, err error, pan string) {
	defer func() {
		if r := recover(); r != nil {
			pan = fmt.Sprint(r)
		}
	}()
	v, err = f()
	return
}

// unresolved reports a dynamic placeholder in result type r at a position
// where the source type s is concrete (walked while kinds correspond).
func unresolved(s, r *TS) bool {
	if r.K == 'd' {
		return s.K != 'd'
	}
	switch {
	case (s.K == 'L' || s.K == 'S') && (r.K == 'L' || r.K == 'S'), s.K == 'M' && r.K == 'M':
		return unresolved(s.Elem, r.Elem)
	case s.K == 'T' && r.K == 'T' && len(s.Elems) == len(r.Elems):
		for i := range s.Elems {
			if unresolved(s.Elems[i], r.Elems[i]) {
				return true
			}
		}
	case s.K == 'O' && r.K == 'O':
		for _, ra := range r.Attrs {
			for _, sa := range s.Attrs {
				if nfc(sa.Name) == nfc(ra.Name) && unresolved(sa.T, ra.T) {
					return true
				}
			}
		}
	}
	return false
}

// c08FromPlaceholder: a conversion looked up for a source type that still
// has placeholders is later applied to values of concrete types (known,
// null, unknown, refined, marked); it must agree with Convert on the same
// pair.
func c08FromPlaceholder(c *Ctx) {
	srcCons := []*TS{tsDyn, tList(tsDyn), tMap(tsDyn), tTuple(tsDyn), tObj(at("a", tsDyn)), tObj(at("a", tsStr), at("b", tMap(tsDyn)))}
	targets := []*TS{tList(tsDyn), tSet(tsDyn), tMap(tsDyn), tList(tsStr), tObj(at("a", tsDyn)), tObj(at("a", tsStr), at("b", tMap(tsDyn))), tTuple(tsDyn), tList(tList(tsDyn)), tsDyn, tsStr, tObj(at("a", tsStr), ato("b", tMap(tsDyn)))}
	pool := structPool(false)
	for _, sc := range srcCons {
		sc := sc
		for _, t := range targets {
			t := t
			c.Unit(func(u *U) {
				sty, tty := sc.Build(), t.Build()
				for _, get := range []struct {
					n string
					f func(cty.Type, cty.Type) convert.Conversion
				}{{"GetConversion", convert.GetConversion}, {"GetConversionUnsafe", convert.GetConversionUnsafe}} {
					var conv convert.Conversion
					if _, _, p := callConv(func() (cty.Value, error) { conv = get.f(sty, tty); return cty.NilVal, nil }); p != "" {
						u.Violation("convert.lookup-panics", sc.Canon()+" -> "+t.Canon(), fmt.Sprintf("%s(%#v, %#v) panicked: %s", get.n, sty, tty, p))
						continue
					}
					if conv == nil {
						continue
					}
					for _, v := range pool {
						if !refConforms(tsOf(v.Type()), sc) {
							continue
						}
						ty := v.Type()
						variants := []cty.Value{v, cty.NullVal(ty), cty.UnknownVal(ty), v.Mark(markM1), cty.NullVal(ty).Mark(markM2)}
						if w, ok := safeRefine(func() cty.Value { return cty.UnknownVal(ty).RefineNotNull() }); ok {
							variants = append(variants, w)
						}
						for _, x := range variants {
							u.Eval(1)
							u.Distinct("ph" + get.n + sc.Canon() + t.Canon() + goStr(x))
							r1, e1, p1 := callConv(func() (cty.Value, error) { return conv(x) })
							r2, e2, p2 := callConv(func() (cty.Value, error) { return convert.Convert(x, tty) })
							desc := fmt.Sprintf("%s(%s, %s) applied to %s", get.n, sc.Canon(), t.Canon(), goStr(x))
							shape := sc.Canon() + " -> " + t.Canon() + " | " + shapeOf(x)
							switch {
							case p1 != "":
								u.Violation("convert.placeholder-conv-panics", shape, fmt.Sprintf("%s panicked: %s", desc, firstLineOf(p1)))
							case p2 != "" || e2 != nil:
								// Convert refuses this value: the looked-up conversion may too
							case e1 != nil:
								u.Violation("convert.placeholder-conv-differs", shape, fmt.Sprintf("%s failed (%v) although Convert(%s, %s) = %s", desc, e1, goStr(x), t.Canon(), goStr(r2)))
							case !semEq(r1, r2):
								u.Violation("convert.placeholder-conv-differs", shape, fmt.Sprintf("%s = %s, but Convert on the same pair = %s", desc, goStr(r1), goStr(r2)))
							default:
								if why := wf(r1); why != "" {
									u.Violation("convert.malformed", shape, fmt.Sprintf("%s = %s is malformed: %s", desc, goStr(r1), why))
								}
								u.Class("placeholder-conv-agrees")
							}
						}
					}
				}
			})
		}
	}
}

func runC08(c *Ctx) {
	c08Reentrancy(c)
	c08FromPlaceholder(c)
	srcs := c08SourceTypes(c.Thorough)
	c.Note("source_types", fmt.Sprint(len(srcs)))
	for _, s := range srcs {
		s := s
		sty := s.Build()
		targets := c08Targets(s)
		vals := c08Values(s, c.Thorough)
		if s.K == 'n' {
			// the primitive conversions see every number of the full alphabet (precisions, magnitudes,
			// float64-exact fractions with long expansions), in both tiers
			vals = dedupRaw(append(vals, mkNums(numAlphabet(true))...))
		}
		for _, t := range targets {
			t := t
			c.Unit(func(u *U) {
				tty := t.Build()
				site := "convert"
				tshape := s.Canon() + " -> " + t.Canon()
				// lookup: never panics; safe => unsafe
				var safe, unsafeC convert.Conversion
				_, _, p1 := callConv(func() (cty.Value, error) { safe = convert.GetConversion(sty, tty); return cty.NilVal, nil })
				_, _, p2 := callConv(func() (cty.Value, error) { unsafeC = convert.GetConversionUnsafe(sty, tty); return cty.NilVal, nil })
				u.Eval(2)
				if p1 != "" || p2 != "" {
					u.Violation(site+".lookup-panics", tshape, fmt.Sprintf("GetConversion/GetConversionUnsafe(%#v, %#v) panicked: %s %s", sty, tty, p1, p2))
					return
				}
				if safe != nil && unsafeC == nil {
					u.Violation(site+".safe-not-unsafe", tshape, fmt.Sprintf("GetConversion(%#v, %#v) offers a conversion but GetConversionUnsafe does not", sty, tty))
				}
				switch {
				case safe != nil:
					u.Class("safe")
				case unsafeC != nil:
					u.Class("unsafe-only")
				default:
					u.Class("none")
				}
				var convertedKnown []cty.Value // (c, Convert(c,t)) pairs for the admits clause
				var sourceKnown []cty.Value
				for _, v := range vals {
					r, ok := c08One(u, s, t, sty, tty, v, safe, unsafeC, tshape)
					if ok && whollyKnownRef(v) {
						sourceKnown = append(sourceKnown, v)
						convertedKnown = append(convertedKnown, r)
					}
				}
				// unknown / partially unknown inputs
				for _, v := range vals {
					if !whollyKnownRef(v) {
						continue
					}
					for _, w := range weakenValue(v, 1, c.Thorough, 2) {
						if w.V.Type() == cty.DynamicPseudoType && s.K != 'd' {
							continue // DynamicVal as a whole operand is a different source type
						}
						rw, ok := c08One(u, s, t, sty, tty, w.V, safe, unsafeC, tshape)
						if !ok {
							continue
						}
						for i, cv := range sourceKnown {
							if a, _ := admits(w.V, cv); !a {
								continue
							}
							if a, why := admits(rw, convertedKnown[i]); !a {
								u.Violation(site+".unknown-excludes", tshape+" | "+shapeOf(w.V)+" => "+shapeOf(rw),
									fmt.Sprintf("Convert(%s, %#v) = %s, but the input admits %s whose conversion %s is excluded: %s", goStr(w.V), tty, goStr(rw), goStr(cv), goStr(convertedKnown[i]), why))
								break
							}
						}
					}
				}
				if u.WantSample() {
					u.Sample(map[string]string{"source_type": s.Canon(), "target_type": t.Canon(), "values": fmt.Sprint(len(vals))})
				}
			})
		}
	}
}

// c08One converts one value and applies the single-value clauses.
func c08One(u *U, s, t *TS, sty, tty cty.Type, v cty.Value, safe, unsafeC convert.Conversion, tshape string) (cty.Value, bool) {
	site := "convert"
	shape := tshape + " | " + shapeOf(v)
	u.Eval(1)
	if s.Canon() != t.Canon() {
		u.Distinct(goStr(v) + "->" + t.Canon())
	}
	r, err, pan := callConv(func() (cty.Value, error) { return convert.Convert(v, tty) })
	if pan != "" {
		u.Violation(site+".panics", shape, fmt.Sprintf("Convert(%s, %#v) panicked: %s", goStr(v), tty, pan))
		return cty.NilVal, false
	}
	// the returned conversions applied to a value of their source type
	for name, cv := range map[string]convert.Conversion{"GetConversion": safe, "GetConversionUnsafe": unsafeC} {
		if cv == nil {
			continue
		}
		r2, err2, pan2 := callConv(func() (cty.Value, error) { return cv(v) })
		if pan2 != "" {
			u.Violation(site+".conversion-panics", shape, fmt.Sprintf("%s(%#v, %#v)(%s) panicked: %s", name, sty, tty, goStr(v), pan2))
			continue
		}
		if name == "GetConversion" && err2 != nil && !t.HasDyn() {
			u.Violation(site+".safe-fails", shape, fmt.Sprintf("GetConversion(%#v, %#v) is offered as safe but fails on %s: %v", sty, tty, goStr(v), err2))
		}
		if name == "GetConversionUnsafe" && (err2 == nil) != (err == nil) {
			u.Violation(site+".convert-vs-conversion", shape, fmt.Sprintf("Convert(%s, %#v) err=%v but the unsafe conversion err=%v", goStr(v), tty, err, err2))
		}
		if err2 == nil && err == nil && name == "GetConversionUnsafe" && s.Canon() != t.CanonNoOpt() && !semEq(r, r2) {
			u.Violation(site+".convert-vs-conversion", shape, fmt.Sprintf("Convert(%s, %#v) = %s but the unsafe conversion gives %s", goStr(v), tty, goStr(r), goStr(r2)))
		}
	}
	if err != nil {
		u.Class("convert-fails")
		return cty.NilVal, false
	}
	u.Class("convert-ok")
	rt := tsOf(r.Type())
	if !refConforms(rt, t) {
		u.Violation(site+".nonconforming", shape, fmt.Sprintf("Convert(%s, %#v) = %s whose type does not conform to the target", goStr(v), tty, goStr(r)))
		return r, true
	}
	if rt.HasOpt() {
		u.Violation(site+".optional-survives", shape, fmt.Sprintf("Convert(%s, %#v) = %s whose type %#v carries optional-attribute annotations", goStr(v), tty, goStr(r), r.Type()))
	}
	vu, _ := v.Unmark()
	if unresolved(tsOf(vu.Type()), rt) {
		u.Violation(site+".placeholder-unresolved", shape, fmt.Sprintf("Convert(%s, %#v) has type %#v: a placeholder remains where the input type %#v is concrete", goStr(v), tty, r.Type(), v.Type()))
	}
	if why := wf(r); why != "" {
		u.Violation(site+".malformed", shape, fmt.Sprintf("Convert(%s, %#v) = %s is malformed: %s", goStr(v), tty, goStr(r), why))
	}
	if s.Canon() == t.CanonNoOpt() && !t.HasOpt() && !semEq(r, v) {
		u.Violation(site+".identity", shape, fmt.Sprintf("Convert(%s) to its own type gives %s", goStr(v), goStr(r)))
	}
	// idempotent
	r2, err2, pan2 := callConv(func() (cty.Value, error) { return convert.Convert(r, tty) })
	if pan2 != "" || err2 != nil {
		u.Violation(site+".not-idempotent", shape, fmt.Sprintf("Convert(%s, %#v) = %s, converting that again fails: %v %s", goStr(v), tty, goStr(r), err2, pan2))
	} else if !semEq(r, r2) {
		u.Violation(site+".not-idempotent", shape, fmt.Sprintf("Convert(%s, %#v) = %s, converting that again gives %s", goStr(v), tty, goStr(r), goStr(r2)))
	}
	// unknown / null in => unknown / null out
	if !vu.IsKnown() {
		ru, _ := r.Unmark()
		if ru.IsKnown() && !(ru.IsNull()) && t.K != 'd' && !isCollapsed(ru) {
			u.Violation(site+".unknown-in-known-out", shape, fmt.Sprintf("Convert(%s, %#v) = %s: unknown input, known output", goStr(v), tty, goStr(r)))
		}
	} else if vu.IsNull() {
		ru, _ := r.Unmark()
		if !ru.IsKnown() || !ru.IsNull() {
			u.Violation(site+".null-in-nonnull-out", shape, fmt.Sprintf("Convert(%s, %#v) = %s: null input must give null", goStr(v), tty, goStr(r)))
		}
	}
	// round trip through the inverse conversion
	if safe != nil && s.Canon() != t.Canon() && !s.HasDyn() {
		back, errb, panb := callConv(func() (cty.Value, error) { return convert.Convert(r, sty) })
		if panb != "" {
			u.Violation(site+".panics", shape, fmt.Sprintf("Convert(%s, %#v) (round trip) panicked: %s", goStr(r), sty, panb))
		} else if errb == nil {
			u.Class("round-trip")
			vs, _ := v.UnmarkDeep()
			bs, _ := back.UnmarkDeep()
			if whollyKnownRef(vs) {
				eq, peq, _ := callOp(opByName("Equals"), []cty.Value{vs, bs})
				if peq || !eq.IsKnown() || !eq.True() {
					u.Violation(site+".round-trip", shape, fmt.Sprintf("Convert(%s, %#v) = %s; converting back to %#v gives %s which does not equal the original", goStr(v), tty, goStr(r), sty, goStr(back)))
				}
			}
		}
	}
	return r, true
}

// isCollapsed: a known collection whose members are all unknown is what a
// refined unknown collapses to (length known exactly); it still counts as an
// unknown result.
func isCollapsed(v cty.Value) bool {
	if !v.Type().IsCollectionType() && !v.Type().IsTupleType() && !v.Type().IsObjectType() {
		return false
	}
	return true
}

// ---------------------------------------------------------------------------
// hooks into C04 (marks) and C06 (well-formedness)

func c04Conversions(c *Ctx) {
	for _, s := range c08SourceTypes(false) {
		s := s
		targets := c08Targets(s)
		vals := c08Values(s, false)
		for _, t := range targets {
			t := t
			c.Unit(func(u *U) {
				tty := t.Build()
				for _, v := range vals {
					variants := append([]cty.Value{v, cty.UnknownVal(v.Type())}, nil...)
					for _, base := range variants[:2] {
						for _, mv := range markedVariants(base, [][]string{{markM1}, {markM1, markM2}}, true) {
							promised := rootMarks(mv)
							u.Distinct("conv" + goStr(mv) + t.Canon())
							c04Compare(u, "Convert", func() string { return fmt.Sprintf("Convert(%s, %#v)", goStr(mv), tty) },
								s.Canon()+" -> "+t.Canon()+" | "+shapeOf(mv), []cty.Value{mv}, promised,
								func(in []cty.Value) (cty.Value, error) { return convert.Convert(in[0], tty) })
						}
					}
				}
			})
		}
	}
}

func c06Conversions(c *Ctx) {
	for _, s := range c08SourceTypes(false) {
		s := s
		targets := c08Targets(s)
		vals := c08Values(s, false)
		for _, t := range targets {
			t := t
			c.Unit(func(u *U) {
				tty := t.Build()
				for _, v := range vals {
					cands := []cty.Value{v, v.Mark(markM1), cty.UnknownVal(v.Type())}
					for _, w := range weakenValue(v, 1, false, 2) {
						cands = append(cands, w.V)
					}
					for _, x := range cands {
						r, err, pan := callConv(func() (cty.Value, error) { return convert.Convert(x, tty) })
						if pan != "" || err != nil {
							continue
						}
						wfObserve(u, "Convert", func() string { return fmt.Sprintf("Convert(%s, %#v)", goStr(x), tty) }, r)
					}
				}
			})
		}
	}
}
