package main

import (
	"bytes"
	"encoding/csv"
	"encoding/json"
	"fmt"
	"io"
	"math"
	"math/big"
	"regexp"
	"sort"
	"strconv"
	"strings"
	"time"

	"github.com/apparentlymart/go-textseg/v15/textseg"
	"github.com/zclconf/go-cty/cty"
)

func init() {
	register(&Check{
		ID:    "C14",
		Level: "exploration",
		Rule: "each number / string / regex / format / encoding / date / bool / bytes function x every wholly known seed argument list of the stdlib table (full Cartesian product of per-position alphabets: numbers of every magnitude and precision class, strings with multi-code-point grapheme clusters and normalising sequences, format strings over the documented verb grammar with flags / width / precision / argument indices, RFC 3339 stamps and near-misses, durations, JSON and CSV documents) compared with reference computations (exact rationals, float64 math, Go's strings / regexp / fmt / encoding / time packages, a grapheme-cluster splitter) that answer Ok(value and type) / DomainError / Unspecified; " +
			"distinct = argument lists on which the reference is specified; non-trivial = same",
		Assumptions: []string{
			"references are written from the Description strings, doc comments and docs/*.md (DESIGN appendix B); where the documentation is silent or contradicts itself the reference answers Unspecified",
			"textseg is the trusted definition of a grapheme cluster; Go's fmt is the trusted formatter for numeric verbs",
			"comparisons between numbers that differ by less than the library's documented decimal-text equality, or that are the same value at different mantissa precisions, are Unspecified (see C02)",
		},
		Run: func(c *Ctx) {
			// history clause first, so that each worker process meets it in its initial state
			stdHistories(c, func(n string) bool { _, ok := refsC14[n]; return ok }, refOracle(refsC14))
			cap := 60000
			deepDict = c.Thorough
			if c.Thorough {
				cap = 3000000
			}
			c.Note("functions_with_reference", fmtInt(len(refsC14)))
			runRefDiff(c, refsC14, cap)
		},
	})
	c14Numbers()
	c14Strings()
	c14Format()
	c14Encodings()
	c14Dates()
	c14Misc()
}

// judgeNum applies the C02 precision rule to a numeric result.
func judgeNum(r cty.Value, ex numExpect, p uint) string {
	if ex.prec != 0 {
		p = ex.prec
	}
	if r.Type() != cty.Number || !r.IsKnown() || r.IsNull() {
		return "expected a known number"
	}
	rf := bf(r)
	if ex.inf != 0 {
		if !rf.IsInf() || rf.Sign() != ex.inf {
			return fmt.Sprintf("expected infinity of sign %d", ex.inf)
		}
		return ""
	}
	if rf.IsInf() {
		return "expected finite " + ex.exact.FloatString(30)
	}
	got, _ := rf.Rat(nil)
	diff := new(big.Rat).Sub(got, ex.exact)
	diff.Abs(diff)
	if diff.Sign() == 0 {
		return ""
	}
	if fitsPrec(ex.exact, p) && ex.tolUlps <= 1 {
		return fmt.Sprintf("the exact result %s fits the operands' precision (%d bits)", ex.exact.FloatString(40), p)
	}
	tol := new(big.Rat).Mul(ulpAt(ex.tolBase, p), new(big.Rat).SetInt64(ex.tolUlps))
	for _, alt := range ex.alts {
		d2 := new(big.Rat).Sub(got, alt)
		if d2.Abs(d2).Cmp(tol) <= 0 {
			return ""
		}
	}
	if diff.Cmp(tol) > 0 {
		return fmt.Sprintf("exact result %s; error exceeds %d ulp at %d bits", ex.exact.FloatString(50), ex.tolUlps, p)
	}
	return ""
}

func numVal(r *big.Rat) cty.Value {
	f := new(big.Float).SetPrec(2048).SetRat(r)
	return cty.NumberVal(f)
}

// numExactCmp: got must be a known number with exactly the value want.
func numExactCmp(want *big.Rat) refResult {
	return rCmp(func(got cty.Value) string {
		if got.Type() != cty.Number || !got.IsKnown() || got.IsNull() {
			return "expected a known number"
		}
		if isInf(got) || ratOf(got).Cmp(want) != 0 {
			return "the reference gives " + want.FloatString(20)
		}
		return ""
	})
}

func c14Numbers() {
	bin := func(op string) refFn {
		return func(a []cty.Value) refResult {
			ex := refNumBinary(op, a[0], a[1])
			if ex.unspecified {
				return rUnspec("undefined arithmetic case")
			}
			p := maxPrec(a[0], a[1])
			return rCmp(func(got cty.Value) string { return judgeNum(got, ex, p) })
		}
	}
	refsC14["add"] = bin("Add")
	refsC14["subtract"] = bin("Subtract")
	refsC14["multiply"] = bin("Multiply")
	refsC14["divide"] = bin("Divide")
	refsC14["modulo"] = bin("Modulo")
	cmp := func(f func(c int) bool) refFn {
		return func(a []cty.Value) refResult {
			if refEq(a[0], a[1]) == eqMurky {
				return rUnspec("numbers within the documented decimal-text equality")
			}
			c := numCmp(a[0], a[1])
			if c == 0 && bf(a[0]).Prec() != bf(a[1]).Prec() && !bf(a[0]).IsInt() {
				return rUnspec("same value at different mantissa precisions")
			}
			return rOK(cty.BoolVal(f(c)))
		}
	}
	refsC14["lessthan"] = cmp(func(c int) bool { return c < 0 })
	refsC14["lessthanorequalto"] = cmp(func(c int) bool { return c <= 0 })
	refsC14["greaterthan"] = cmp(func(c int) bool { return c > 0 })
	refsC14["greaterthanorequalto"] = cmp(func(c int) bool { return c >= 0 })
	refsC14["negate"] = func(a []cty.Value) refResult {
		if isInf(a[0]) {
			return rOK(cty.NumberVal(new(big.Float).Neg(bf(a[0]))))
		}
		return numExactCmp(new(big.Rat).Neg(ratOf(a[0])))
	}
	refsC14["abs"] = func(a []cty.Value) refResult {
		if isInf(a[0]) {
			return rOK(cty.PositiveInfinity)
		}
		return numExactCmp(new(big.Rat).Abs(ratOf(a[0])))
	}
	floorRat := func(r *big.Rat) *big.Int {
		q := new(big.Int)
		m := new(big.Int)
		q.DivMod(r.Num(), r.Denom(), m) // Euclidean: m >= 0, so q = floor for positive denominators
		return q
	}
	refsC14["floor"] = func(a []cty.Value) refResult {
		if isInf(a[0]) {
			return rOK(a[0])
		}
		return numExactCmp(new(big.Rat).SetInt(floorRat(ratOf(a[0]))))
	}
	refsC14["ceil"] = func(a []cty.Value) refResult {
		if isInf(a[0]) {
			return rOK(a[0])
		}
		n := new(big.Rat).Neg(ratOf(a[0]))
		return numExactCmp(new(big.Rat).Neg(new(big.Rat).SetInt(floorRat(n))))
	}
	refsC14["int"] = func(a []cty.Value) refResult {
		if isInf(a[0]) {
			return rUnspec("integer part of an infinity")
		}
		r := ratOf(a[0])
		q := new(big.Int).Quo(r.Num(), r.Denom()) // truncates toward zero
		return numExactCmp(new(big.Rat).SetInt(q))
	}
	refsC14["signum"] = func(a []cty.Value) refResult {
		return rOK(cty.NumberIntVal(int64(bf(a[0]).Sign())))
	}
	extreme := func(sign int) refFn {
		return func(a []cty.Value) refResult {
			if len(a) == 0 {
				return rErr("no arguments")
			}
			best := a[0]
			for _, v := range a[1:] {
				if numCmp(v, best)*sign > 0 {
					best = v
				}
			}
			return rCmp(func(got cty.Value) string {
				if got.Type() != cty.Number || !got.IsKnown() || got.IsNull() {
					return "expected a known number"
				}
				if numCmpDoc(got, best) != 0 {
					return "the reference gives " + goStr(best)
				}
				return ""
			})
		}
	}
	refsC14["min"] = extreme(-1)
	refsC14["max"] = extreme(1)
	toF64 := func(v cty.Value) (float64, bool) {
		f := bf(v)
		if f.IsInf() {
			return math.Inf(f.Sign()), true
		}
		x, _ := f.Float64()
		if math.IsInf(x, 0) {
			return 0, false // beyond float64: conversion behaviour undocumented
		}
		return x, true
	}
	f64Cmp := func(want float64) refResult {
		return rCmp(func(got cty.Value) string {
			if got.Type() != cty.Number || !got.IsKnown() || got.IsNull() {
				return "expected a known number"
			}
			g, _ := bf(got).Float64()
			if isInf(got) {
				g = math.Inf(bf(got).Sign())
			}
			if g == want {
				return ""
			}
			if math.Abs(g-want) <= 1e-9*math.Max(math.Abs(want), 1e-300) {
				return ""
			}
			return fmt.Sprintf("float64 reference gives %v", want)
		})
	}
	refsC14["log"] = func(a []cty.Value) refResult {
		x, ok1 := toF64(a[0])
		b, ok2 := toF64(a[1])
		if !ok1 || !ok2 {
			return rUnspec("argument beyond float64")
		}
		r := math.Log(x) / math.Log(b)
		if math.IsNaN(r) {
			return rErr("logarithm undefined")
		}
		if math.IsInf(r, 0) {
			return rUnspec("infinite result")
		}
		return f64Cmp(r)
	}
	refsC14["pow"] = func(a []cty.Value) refResult {
		x, ok1 := toF64(a[0])
		y, ok2 := toF64(a[1])
		if !ok1 || !ok2 {
			return rUnspec("argument beyond float64")
		}
		r := math.Pow(x, y)
		if math.IsNaN(r) {
			return rErr("power undefined")
		}
		if math.IsInf(r, 0) {
			return rUnspec("infinite result")
		}
		return f64Cmp(r)
	}
	refsC14["parseint"] = func(a []cty.Value) refResult {
		if a[0].Type() != cty.String {
			return rErr("not a string")
		}
		base, whole, small := wholeInt(a[1])
		if !whole || !small || base < 2 || base > 62 {
			return rErr("base is not a whole number in 2..62")
		}
		s := a[0].AsString()
		neg := false
		switch {
		case strings.HasPrefix(s, "-"):
			neg, s = true, s[1:]
		case strings.HasPrefix(s, "+"):
			return rUnspec("leading plus sign")
		}
		if s == "" {
			return rErr("no digits")
		}
		n := new(big.Int)
		bb := big.NewInt(int64(base))
		for _, r := range s {
			var d int
			switch {
			case r >= '0' && r <= '9':
				d = int(r - '0')
			case r >= 'a' && r <= 'z':
				d = int(r-'a') + 10
			case r >= 'A' && r <= 'Z':
				if base <= 36 {
					d = int(r-'A') + 10
				} else {
					d = int(r-'A') + 36
				}
			case r == '_':
				return rUnspec("underscore")
			default:
				return rErr("invalid digit")
			}
			if d >= base {
				return rErr("digit out of range for the base")
			}
			n.Mul(n, bb).Add(n, big.NewInt(int64(d)))
		}
		if neg {
			n.Neg(n)
		}
		return numExactCmp(new(big.Rat).SetInt(n))
	}
}

// ---------------------------------------------------------------------------
// strings

func clusters(s string) []string {
	var out []string
	b := []byte(s)
	for len(b) > 0 {
		adv, tok, err := textseg.ScanGraphemeClusters(b, true)
		if err != nil || adv == 0 {
			break
		}
		out = append(out, string(tok))
		b = b[adv:]
	}
	return out
}

func c14Strings() {
	str1 := func(f func(s string) string) refFn {
		return func(a []cty.Value) refResult { return rOK(cty.StringVal(f(a[0].AsString()))) }
	}
	refsC14["upper"] = str1(strings.ToUpper)
	refsC14["lower"] = str1(strings.ToLower)
	refsC14["title"] = str1(strings.Title)
	refsC14["trimspace"] = str1(strings.TrimSpace)
	refsC14["chomp"] = str1(func(s string) string { return strings.TrimRight(s, "\r\n") })
	refsC14["trim"] = func(a []cty.Value) refResult {
		return rOK(cty.StringVal(strings.Trim(a[0].AsString(), a[1].AsString())))
	}
	refsC14["trimprefix"] = func(a []cty.Value) refResult {
		return rOK(cty.StringVal(strings.TrimPrefix(a[0].AsString(), a[1].AsString())))
	}
	refsC14["trimsuffix"] = func(a []cty.Value) refResult {
		return rOK(cty.StringVal(strings.TrimSuffix(a[0].AsString(), a[1].AsString())))
	}
	refsC14["replace"] = func(a []cty.Value) refResult {
		return rOK(cty.StringVal(strings.ReplaceAll(a[0].AsString(), a[1].AsString(), a[2].AsString())))
	}
	refsC14["indent"] = func(a []cty.Value) refResult {
		n, whole, small := wholeInt(a[0])
		if !whole {
			return rErr("fractional count")
		}
		if !small || n < 0 || n > 4096 {
			return rUnspec("negative or huge count")
		}
		return rOK(cty.StringVal(strings.ReplaceAll(a[1].AsString(), "\n", "\n"+strings.Repeat(" ", n))))
	}
	refsC14["split"] = func(a []cty.Value) refResult {
		parts := strings.Split(a[1].AsString(), a[0].AsString())
		vs := make([]cty.Value, len(parts))
		for i, p := range parts {
			vs[i] = cty.StringVal(p)
		}
		return rOK(mkList(cty.String, vs))
	}
	refsC14["join"] = func(a []cty.Value) refResult {
		if len(a) < 2 {
			return rErr("no list")
		}
		var items []string
		for _, l := range a[1:] {
			for _, e := range seqElems(l) {
				if e.IsNull() {
					return rErr("null element")
				}
				items = append(items, e.AsString())
			}
		}
		return rOK(cty.StringVal(strings.Join(items, a[0].AsString())))
	}
	refsC14["strlen"] = func(a []cty.Value) refResult {
		return rOK(cty.NumberIntVal(int64(len(clusters(a[0].AsString())))))
	}
	refsC14["reverse"] = func(a []cty.Value) refResult {
		cs := clusters(a[0].AsString())
		var b strings.Builder
		for i := len(cs) - 1; i >= 0; i-- {
			b.WriteString(cs[i])
		}
		return rOK(cty.StringVal(b.String()))
	}
	refsC14["substr"] = func(a []cty.Value) refResult {
		off, w1, s1 := wholeInt(a[1])
		ln, w2, s2 := wholeInt(a[2])
		if !w1 || !w2 {
			return rErr("fractional offset or length")
		}
		if !s1 || !s2 {
			return rUnspec("huge offset or length")
		}
		cs := clusters(a[0].AsString())
		n := len(cs)
		if off < -n || ln < -1 {
			return rUnspec("offset before the start or length below -1")
		}
		if off < 0 {
			off += n
		}
		if off > n {
			off = n
		}
		end := n
		if ln >= 0 && off+ln < n {
			end = off + ln
		}
		return rOK(cty.StringVal(strings.Join(cs[off:end], "")))
	}
	// regex family
	shapeOf := func(pat string) (re *regexp.Regexp, kind byte, names []string, k refKind, why string) {
		re, err := regexp.Compile(pat)
		if err != nil {
			return nil, 0, nil, refErr, "invalid pattern"
		}
		all := re.SubexpNames()[1:]
		unnamed := 0
		for _, n := range all {
			if n == "" {
				unnamed++
			} else {
				names = append(names, n)
			}
		}
		switch {
		case unnamed == 0 && len(names) == 0:
			return re, 's', nil, refOK, ""
		case unnamed > 0 && len(names) > 0:
			return nil, 0, nil, refErr, "mixed named and unnamed groups"
		case unnamed > 0:
			return re, 't', nil, refOK, ""
		}
		seen := map[string]bool{}
		for _, n := range names {
			if seen[n] {
				return nil, 0, nil, refUnspec, "duplicate group name"
			}
			seen[n] = true
		}
		return re, 'o', all, refOK, ""
	}
	matchVal := func(re *regexp.Regexp, kind byte, names []string, s string, idx []int) cty.Value {
		grp := func(i int) cty.Value {
			if idx[2*i] < 0 {
				return cty.NullVal(cty.String)
			}
			return cty.StringVal(s[idx[2*i]:idx[2*i+1]])
		}
		switch kind {
		case 's':
			return grp(0)
		case 't':
			var vs []cty.Value
			for i := 1; i < len(idx)/2; i++ {
				vs = append(vs, grp(i))
			}
			return cty.TupleVal(vs)
		}
		m := map[string]cty.Value{}
		for i, n := range names {
			m[n] = grp(i + 1)
		}
		return cty.ObjectVal(m)
	}
	matchType := func(kind byte, re *regexp.Regexp, names []string) cty.Type {
		switch kind {
		case 's':
			return cty.String
		case 't':
			ts := make([]cty.Type, re.NumSubexp())
			for i := range ts {
				ts[i] = cty.String
			}
			return cty.Tuple(ts)
		}
		at := map[string]cty.Type{}
		for _, n := range names {
			at[n] = cty.String
		}
		return cty.Object(at)
	}
	refsC14["regex"] = func(a []cty.Value) refResult {
		re, kind, names, k, why := shapeOf(a[0].AsString())
		if k != refOK {
			return refResult{K: k, Why: why}
		}
		s := a[1].AsString()
		idx := re.FindStringSubmatchIndex(s)
		if idx == nil {
			return rErr("no match")
		}
		return rOK(matchVal(re, kind, names, s, idx))
	}
	refsC14["regexall"] = func(a []cty.Value) refResult {
		re, kind, names, k, why := shapeOf(a[0].AsString())
		if k != refOK {
			return refResult{K: k, Why: why}
		}
		s := a[1].AsString()
		var vs []cty.Value
		for _, idx := range re.FindAllStringSubmatchIndex(s, -1) {
			vs = append(vs, matchVal(re, kind, names, s, idx))
		}
		return rOK(mkList(matchType(kind, re, names), vs))
	}
	refsC14["regexreplace"] = func(a []cty.Value) refResult {
		re, err := regexp.Compile(a[1].AsString())
		if err != nil {
			return rErr("invalid pattern")
		}
		return rOK(cty.StringVal(re.ReplaceAllString(a[0].AsString(), a[2].AsString())))
	}
}

// ---------------------------------------------------------------------------
// format / formatlist

// refJSON renders a wholly known value in the documented JSON mapping
// (docs/json.md): objects and maps as objects with sorted keys, sequences as
// arrays, numbers in shortest decimal form.
func refJSON(v cty.Value, b *bytes.Buffer) bool {
	if v.IsNull() {
		b.WriteString("null")
		return true
	}
	t := v.Type()
	switch {
	case t == cty.String:
		j, _ := json.Marshal(v.AsString())
		b.Write(j)
	case t == cty.Number:
		if isInf(v) {
			return false
		}
		if bf(v).IsInt() {
			b.WriteString(bf(v).Text('f', 0)) // whole numbers are exact
		} else {
			b.WriteString(bf(v).Text('f', -1))
		}
	case t == cty.Bool:
		if v.True() {
			b.WriteString("true")
		} else {
			b.WriteString("false")
		}
	case t.IsListType() || t.IsSetType() || t.IsTupleType():
		b.WriteByte('[')
		for i, e := range seqElems(v) {
			if i > 0 {
				b.WriteByte(',')
			}
			if !refJSON(e, b) {
				return false
			}
		}
		b.WriteByte(']')
	case t.IsMapType() || t.IsObjectType():
		m := v.AsValueMap()
		ks := make([]string, 0, len(m))
		for k := range m {
			ks = append(ks, k)
		}
		sort.Strings(ks)
		b.WriteByte('{')
		for i, k := range ks {
			if i > 0 {
				b.WriteByte(',')
			}
			j, _ := json.Marshal(k)
			b.Write(j)
			b.WriteByte(':')
			if !refJSON(m[k], b) {
				return false
			}
		}
		b.WriteByte('}')
	default:
		return false
	}
	return true
}

type fmtVerb struct {
	zero, sharp, plus, minus, space bool
	width, prec                     int // -1 = absent
	argn                            int // 0 = next
	verb                            byte
	raw                             string // without the [n] segment
}

func padClusters(s string, v *fmtVerb) (string, bool) {
	if v.width < 0 {
		return s, true
	}
	n := len(clusters(s))
	if n >= v.width {
		return s, true
	}
	if v.zero && v.minus {
		return "", false // zero padding on the right: undocumented
	}
	pad := strings.Repeat(" ", v.width-n)
	if v.zero {
		pad = strings.Repeat("0", v.width-n)
	}
	if v.minus {
		return s + pad, true
	}
	return pad + s, true
}

var decimalRe = regexp.MustCompile(`^-?[0-9]+(\.[0-9]+)?$`)

// refFormat is the reference formatter.
func refFormat(f string, args []cty.Value) (string, refKind, string) {
	var out strings.Builder
	next := 1
	highest := 0
	i := 0
	for i < len(f) {
		c := f[i]
		if c != '%' {
			out.WriteByte(c)
			i++
			continue
		}
		i++
		if i >= len(f) {
			return "", refErr, "format ends after %"
		}
		if f[i] == '%' {
			out.WriteByte('%')
			i++
			continue
		}
		v := fmtVerb{width: -1, prec: -1}
		start := i - 1
		for i < len(f) && strings.IndexByte("0#-+ ", f[i]) >= 0 {
			switch f[i] {
			case '0':
				v.zero = true
			case '#':
				v.sharp = true
			case '-':
				v.minus = true
			case '+':
				v.plus = true
			case ' ':
				v.space = true
			}
			i++
		}
		if i < len(f) && f[i] >= '1' && f[i] <= '9' {
			v.width = 0
			for i < len(f) && f[i] >= '0' && f[i] <= '9' {
				v.width = v.width*10 + int(f[i]-'0')
				i++
			}
		}
		if i < len(f) && f[i] == '.' {
			i++
			if i >= len(f) || f[i] < '0' || f[i] > '9' {
				return "", refUnspec, "period without a precision"
			}
			v.prec = 0
			for i < len(f) && f[i] >= '0' && f[i] <= '9' {
				v.prec = v.prec*10 + int(f[i]-'0')
				i++
			}
		}
		rawEnd := i
		if i < len(f) && f[i] == '[' {
			i++
			if i >= len(f) || f[i] < '1' || f[i] > '9' {
				return "", refErr, "invalid argument index"
			}
			for i < len(f) && f[i] >= '0' && f[i] <= '9' {
				v.argn = v.argn*10 + int(f[i]-'0')
				i++
			}
			if i >= len(f) || f[i] != ']' {
				return "", refErr, "invalid argument index"
			}
			i++
		}
		if i >= len(f) {
			return "", refErr, "format ends inside a verb"
		}
		ch := f[i]
		if !(ch >= 'a' && ch <= 'z' || ch >= 'A' && ch <= 'Z') {
			return "", refErr, "unrecognized format character"
		}
		v.verb = ch
		v.raw = f[start:rawEnd] + string(ch)
		i++
		if v.argn == 0 {
			v.argn = next
		}
		if strings.IndexByte("vtbdoxXeEfgGsq", ch) < 0 {
			return "", refErr, "unsupported verb"
		}
		if v.argn > len(args) {
			return "", refErr, "not enough arguments"
		}
		if v.argn > highest {
			highest = v.argn
		}
		next = v.argn + 1
		arg := args[v.argn-1]
		if arg.IsNull() && ch != 'v' {
			return "", refErr, "null with a verb other than %v"
		}
		t := arg.Type()
		switch ch {
		case 'v':
			var s string
			switch {
			case arg.IsNull():
				s = "null"
			case v.sharp || !(t == cty.String || t == cty.Number):
				var b bytes.Buffer
				if tsOf(t).HasCaps() || !refJSON(arg, &b) {
					return "", refUnspec, "value without a documented JSON form"
				}
				s = b.String()
			case t == cty.String:
				if v.prec >= 0 {
					return "", refUnspec, "precision with %v"
				}
				s = arg.AsString()
			default:
				if v.prec >= 0 || v.plus || v.space {
					return "", refUnspec, "numeric flags with %v"
				}
				s = bf(arg).Text('g', -1)
			}
			p, ok := padClusters(s, &v)
			if !ok {
				return "", refUnspec, "zero padding on the right"
			}
			out.WriteString(p)
		case 't':
			if v.width >= 0 {
				return "", refUnspec, "width with %t"
			}
			switch {
			case t == cty.Bool:
				out.WriteString(strconv.FormatBool(arg.True()))
			case t == cty.String && (arg.AsString() == "true" || arg.AsString() == "false"):
				out.WriteString(arg.AsString())
			case t == cty.String:
				return "", refUnspec, "string to bool conversion"
			default:
				return "", refErr, "not convertible to bool"
			}
		case 'b', 'd', 'o', 'x', 'X', 'e', 'E', 'f', 'g', 'G':
			var num *big.Float
			switch {
			case t == cty.Number:
				num = bf(arg)
			case t == cty.String && decimalRe.MatchString(arg.AsString()):
				num, _, _ = big.ParseFloat(arg.AsString(), 10, 512, big.ToNearestEven)
			case t == cty.String:
				if _, _, err := big.ParseFloat(arg.AsString(), 10, 512, big.ToNearestEven); err != nil {
					return "", refErr, "not convertible to number"
				}
				return "", refUnspec, "unusual number spelling"
			default:
				return "", refErr, "not convertible to number"
			}
			if strings.IndexByte("bdoxX", ch) >= 0 {
				if num.IsInf() || !num.IsInt() {
					return "", refErr, "an integer is required"
				}
				bi, _ := num.Int(nil)
				out.WriteString(fmt.Sprintf(v.raw, bi))
			} else {
				out.WriteString(fmt.Sprintf(v.raw, num))
			}
		case 's', 'q':
			var s string
			switch {
			case t == cty.String:
				s = arg.AsString()
			case t == cty.Number:
				if isInf(arg) {
					return "", refUnspec, "infinity as a string"
				}
				s = bf(arg).Text('f', -1)
			case t == cty.Bool:
				s = strconv.FormatBool(arg.True())
			default:
				return "", refErr, "not convertible to string"
			}
			if v.prec >= 0 {
				cs := clusters(s)
				if v.prec < len(cs) {
					s = strings.Join(cs[:v.prec], "")
				}
			}
			if ch == 'q' {
				j, _ := json.Marshal(s)
				s = string(j)
			}
			p, ok := padClusters(s, &v)
			if !ok {
				return "", refUnspec, "zero padding on the right"
			}
			out.WriteString(p)
		}
	}
	if highest < len(args) {
		return "", refErr, "too many arguments"
	}
	return out.String(), refOK, ""
}

func c14Format() {
	refsC14["format"] = func(a []cty.Value) refResult {
		s, k, why := refFormat(a[0].AsString(), a[1:])
		if k != refOK {
			return refResult{K: k, Why: why}
		}
		return rOK(cty.StringVal(s))
	}
	refsC14["formatlist"] = func(a []cty.Value) refResult {
		f := a[0].AsString()
		args := a[1:]
		n := -1
		for _, v := range args {
			if !v.IsNull() && isSeq(v.Type()) {
				if v.Type().IsSetType() && !isPrimitiveTy(v.Type().ElementType()) {
					return rUnspec("set of non-primitive members")
				}
				l := len(seqElems(v))
				if n >= 0 && l != n {
					return rErr("sequences of different lengths")
				}
				n = l
			}
		}
		if n == 0 {
			return rUnspec("zero iterations")
		}
		if n < 0 {
			n = 1
		}
		var out []cty.Value
		for i := 0; i < n; i++ {
			row := make([]cty.Value, len(args))
			for j, v := range args {
				if !v.IsNull() && isSeq(v.Type()) {
					row[j] = seqElems(v)[i]
				} else {
					row[j] = v
				}
			}
			s, k, why := refFormat(f, row)
			if k != refOK {
				return refResult{K: k, Why: why}
			}
			out = append(out, cty.StringVal(s))
		}
		return rOK(cty.ListVal(out))
	}
}

// ---------------------------------------------------------------------------
// encodings

type jnode struct {
	kind byte // o a s n b z(null)
	keys []string
	vals []*jnode
	s    string
	b    bool
	dup  bool
}

func parseJSONTree(dec *json.Decoder) (*jnode, error) {
	tok, err := dec.Token()
	if err != nil {
		return nil, err
	}
	switch t := tok.(type) {
	case json.Delim:
		switch t {
		case '{':
			n := &jnode{kind: 'o'}
			seen := map[string]bool{}
			for dec.More() {
				kt, err := dec.Token()
				if err != nil {
					return nil, err
				}
				k, ok := kt.(string)
				if !ok {
					return nil, fmt.Errorf("bad key")
				}
				k = nfc(k)
				if seen[k] {
					n.dup = true
				}
				seen[k] = true
				v, err := parseJSONTree(dec)
				if err != nil {
					return nil, err
				}
				n.keys = append(n.keys, k)
				n.vals = append(n.vals, v)
			}
			if _, err := dec.Token(); err != nil {
				return nil, err
			}
			return n, nil
		case '[':
			n := &jnode{kind: 'a'}
			for dec.More() {
				v, err := parseJSONTree(dec)
				if err != nil {
					return nil, err
				}
				n.vals = append(n.vals, v)
			}
			if _, err := dec.Token(); err != nil {
				return nil, err
			}
			return n, nil
		}
		return nil, fmt.Errorf("unexpected delimiter")
	case string:
		return &jnode{kind: 's', s: t}, nil
	case json.Number:
		return &jnode{kind: 'n', s: string(t)}, nil
	case bool:
		return &jnode{kind: 'b', b: t}, nil
	case nil:
		return &jnode{kind: 'z'}, nil
	}
	return nil, fmt.Errorf("unexpected token")
}

func (n *jnode) hasDup() bool {
	if n.dup {
		return true
	}
	for _, v := range n.vals {
		if v.hasDup() {
			return true
		}
	}
	return false
}

func (n *jnode) toCty() (cty.Value, bool) {
	switch n.kind {
	case 'o':
		m := map[string]cty.Value{}
		for i, k := range n.keys {
			v, ok := n.vals[i].toCty()
			if !ok {
				return cty.NilVal, false
			}
			m[k] = v
		}
		return cty.ObjectVal(m), true
	case 'a':
		var vs []cty.Value
		for _, e := range n.vals {
			v, ok := e.toCty()
			if !ok {
				return cty.NilVal, false
			}
			vs = append(vs, v)
		}
		return cty.TupleVal(vs), true
	case 's':
		return cty.StringVal(n.s), true
	case 'n':
		f, _, err := big.ParseFloat(n.s, 10, 512, big.ToNearestEven)
		if err != nil {
			return cty.NilVal, false
		}
		return cty.NumberVal(f), true
	case 'b':
		return cty.BoolVal(n.b), true
	}
	return cty.NullVal(cty.DynamicPseudoType), true
}

func parseJSONDoc(s string) (*jnode, error) {
	dec := json.NewDecoder(strings.NewReader(s))
	dec.UseNumber()
	n, err := parseJSONTree(dec)
	if err != nil {
		return nil, err
	}
	if _, err := dec.Token(); err != io.EOF {
		return nil, fmt.Errorf("trailing data")
	}
	return n, nil
}

func jsonTreesEqual(a, b *jnode) bool {
	if a.kind != b.kind || len(a.vals) != len(b.vals) {
		return false
	}
	switch a.kind {
	case 's':
		return nfc(a.s) == nfc(b.s)
	case 'b':
		return a.b == b.b
	case 'n':
		// two spellings are the same number when the documented number parser (512-bit mantissa,
		// round to nearest even) reads them as the same number: "1e308" and 1 followed by 308
		// zeros are, the shortest text of a 53-bit whole number and its exact digits are not
		x, _, e1 := big.ParseFloat(a.s, 10, 512, big.ToNearestEven)
		y, _, e2 := big.ParseFloat(b.s, 10, 512, big.ToNearestEven)
		return e1 == nil && e2 == nil && x.Cmp(y) == 0
	case 'a':
		for i := range a.vals {
			if !jsonTreesEqual(a.vals[i], b.vals[i]) {
				return false
			}
		}
		return true
	case 'o':
		am := map[string]*jnode{}
		for i, k := range a.keys {
			am[k] = a.vals[i]
		}
		for i, k := range b.keys {
			x, ok := am[k]
			if !ok || !jsonTreesEqual(x, b.vals[i]) {
				return false
			}
		}
		return len(am) == len(b.keys)
	}
	return true
}

func c14Encodings() {
	refsC14["jsonencode"] = func(a []cty.Value) refResult {
		var b bytes.Buffer
		if tsOf(a[0].Type()).HasCaps() {
			return rUnspec("capsule values are encoded through their Go type (docs/json.md)")
		}
		if !refJSON(a[0], &b) {
			return rErr("value JSON cannot represent")
		}
		want, err := parseJSONDoc(b.String())
		if err != nil {
			return rUnspec("reference rendering is not valid JSON")
		}
		return rCmp(func(got cty.Value) string {
			if got.Type() != cty.String || !got.IsKnown() || got.IsNull() {
				return "expected a known string"
			}
			g, err := parseJSONDoc(got.AsString())
			if err != nil {
				return "result is not valid JSON: " + err.Error()
			}
			if !jsonTreesEqual(g, want) {
				return "plain decoding differs from the value; reference rendering " + b.String()
			}
			return ""
		})
	}
	refsC14["jsondecode"] = func(a []cty.Value) refResult {
		s := a[0].AsString()
		if strings.Contains(s, `\ud`) || strings.Contains(s, `\uD`) {
			return rUnspec("surrogate escapes")
		}
		n, err := parseJSONDoc(s)
		if err != nil {
			return rErr("invalid JSON")
		}
		if n.hasDup() {
			return rUnspec("duplicate keys")
		}
		v, ok := n.toCty()
		if !ok {
			return rUnspec("number outside the reference's parser")
		}
		return rOK(v)
	}
	refsC14["csvdecode"] = func(a []cty.Value) refResult {
		r := csv.NewReader(strings.NewReader(a[0].AsString()))
		recs, err := r.ReadAll()
		if err != nil {
			return rErr("invalid CSV")
		}
		if len(recs) == 0 {
			return rErr("missing header row")
		}
		hdr := recs[0]
		at := map[string]cty.Type{}
		for _, h := range hdr {
			h = nfc(h)
			if _, dup := at[h]; dup {
				return rErr("duplicate column name")
			}
			at[h] = cty.String
		}
		var rows []cty.Value
		for _, rec := range recs[1:] {
			m := map[string]cty.Value{}
			for i, c := range rec {
				m[nfc(hdr[i])] = cty.StringVal(c)
			}
			rows = append(rows, cty.ObjectVal(m))
		}
		return rOK(mkList(cty.Object(at), rows))
	}
}

// ---------------------------------------------------------------------------
// dates

var rfc3339Re = regexp.MustCompile(`^([0-9]{4})-([0-9]{2})-([0-9]{2})T([0-9]{2}):([0-9]{2}):([0-9]{2})(\.[0-9]+)?(Z|[+-][0-9]{2}:[0-9]{2})$`)

// refParseStamp is a strict RFC 3339 parser: ok, or a domain error, or
// unspecified for forms RFC 3339 allows but the documentation does not
// mention (lower-case separators, leap seconds).
func refParseStamp(s string) (time.Time, refKind) {
	if strings.ContainsAny(s, "tz") && rfc3339Re.MatchString(strings.ToUpper(s)) {
		return time.Time{}, refUnspec
	}
	m := rfc3339Re.FindStringSubmatch(s)
	if m == nil {
		return time.Time{}, refErr
	}
	atoi := func(x string) int { n, _ := strconv.Atoi(x); return n }
	y, mo, d, h, mi, sec := atoi(m[1]), atoi(m[2]), atoi(m[3]), atoi(m[4]), atoi(m[5]), atoi(m[6])
	if sec == 60 {
		return time.Time{}, refUnspec
	}
	if mo < 1 || mo > 12 || d < 1 || h > 23 || mi > 59 || sec > 59 {
		return time.Time{}, refErr
	}
	dim := []int{31, 28, 31, 30, 31, 30, 31, 31, 30, 31, 30, 31}[mo-1]
	if mo == 2 && (y%4 == 0 && (y%100 != 0 || y%400 == 0)) {
		dim = 29
	}
	if d > dim {
		return time.Time{}, refErr
	}
	nsec := 0
	if m[7] != "" {
		frac := m[7][1:]
		if len(frac) > 9 {
			frac = frac[:9]
		}
		for len(frac) < 9 {
			frac += "0"
		}
		nsec = atoi(frac)
	}
	loc := time.UTC
	if m[8] != "Z" {
		zh, zm := atoi(m[8][1:3]), atoi(m[8][4:6])
		if zh > 23 || zm > 59 {
			return time.Time{}, refErr
		}
		off := zh*3600 + zm*60
		if m[8][0] == '-' {
			off = -off
		}
		if off == 0 && m[8][0] == '-' {
			return time.Time{}, refUnspec // "-00:00": unknown local offset convention
		}
		loc = time.FixedZone("", off)
	}
	return time.Date(y, time.Month(mo), d, h, mi, sec, nsec, loc), refOK
}

func c14Dates() {
	months := []string{"January", "February", "March", "April", "May", "June", "July", "August", "September", "October", "November", "December"}
	days := []string{"Sunday", "Monday", "Tuesday", "Wednesday", "Thursday", "Friday", "Saturday"}
	zone := func(t time.Time, colon bool) string {
		_, off := t.Zone()
		sign := "+"
		if off < 0 {
			sign, off = "-", -off
		}
		if colon {
			return fmt.Sprintf("%s%02d:%02d", sign, off/3600, off%3600/60)
		}
		return fmt.Sprintf("%s%02d%02d", sign, off/3600, off%3600/60)
	}
	refsC14["formatdate"] = func(a []cty.Value) refResult {
		f := a[0].AsString()
		t, k := refParseStamp(a[1].AsString())
		var out strings.Builder
		bad := false
		unspec := false
		for i := 0; i < len(f); {
			c := f[i]
			switch {
			case c == '\'':
				if i+1 < len(f) && f[i+1] == '\'' {
					out.WriteByte('\'')
					i += 2
					continue
				}
				j := i + 1
				closed := false
				for j < len(f) {
					if f[j] == '\'' {
						if j+1 < len(f) && f[j+1] == '\'' {
							out.WriteByte('\'')
							j += 2
							continue
						}
						closed = true
						j++
						break
					}
					out.WriteByte(f[j])
					j++
				}
				if !closed {
					bad = true
				}
				i = j
			case c >= 'a' && c <= 'z' || c >= 'A' && c <= 'Z':
				j := i
				for j < len(f) && f[j] == c {
					j++
				}
				tok := f[i:j]
				i = j
				if k != refOK {
					continue
				}
				switch tok {
				case "YY":
					fmt.Fprintf(&out, "%02d", t.Year()%100)
				case "YYYY":
					fmt.Fprintf(&out, "%04d", t.Year())
				case "M":
					fmt.Fprintf(&out, "%d", int(t.Month()))
				case "MM":
					fmt.Fprintf(&out, "%02d", int(t.Month()))
				case "MMM":
					out.WriteString(months[t.Month()-1][:3])
				case "MMMM":
					out.WriteString(months[t.Month()-1])
				case "D":
					fmt.Fprintf(&out, "%d", t.Day())
				case "DD":
					fmt.Fprintf(&out, "%02d", t.Day())
				case "EEE":
					out.WriteString(days[t.Weekday()][:3])
				case "EEEE":
					out.WriteString(days[t.Weekday()])
				case "h":
					fmt.Fprintf(&out, "%d", t.Hour())
				case "hh":
					fmt.Fprintf(&out, "%02d", t.Hour())
				case "H", "HH":
					h := t.Hour() % 12
					if h == 0 {
						h = 12
					}
					if tok == "H" {
						fmt.Fprintf(&out, "%d", h)
					} else {
						fmt.Fprintf(&out, "%02d", h)
					}
				case "AA", "aa":
					s := "AM"
					if t.Hour() >= 12 {
						s = "PM"
					}
					if tok == "aa" {
						s = strings.ToLower(s)
					}
					out.WriteString(s)
				case "m":
					fmt.Fprintf(&out, "%d", t.Minute())
				case "mm":
					fmt.Fprintf(&out, "%02d", t.Minute())
				case "s":
					fmt.Fprintf(&out, "%d", t.Second())
				case "ss":
					fmt.Fprintf(&out, "%02d", t.Second())
				case "ZZZZ":
					out.WriteString(zone(t, false))
				case "ZZZZZ":
					out.WriteString(zone(t, true))
				case "Z":
					if _, off := t.Zone(); off == 0 {
						out.WriteString("Z")
					} else {
						out.WriteString(zone(t, true))
					}
				case "ZZZ":
					if _, off := t.Zone(); off == 0 {
						out.WriteString("UTC")
					} else {
						out.WriteString(zone(t, false))
					}
				default:
					bad = true
				}
			default:
				out.WriteByte(c)
				i++
			}
		}
		_ = unspec
		switch {
		case k == refUnspec:
			return rUnspec("timestamp form the documentation does not settle")
		case k == refErr:
			return rErr("not an RFC 3339 timestamp")
		case bad:
			return rErr("invalid format string")
		}
		return rOK(cty.StringVal(out.String()))
	}
	refsC14["timeadd"] = func(a []cty.Value) refResult {
		t, k := refParseStamp(a[0].AsString())
		d, err := time.ParseDuration(a[1].AsString())
		switch {
		case k == refUnspec:
			return rUnspec("timestamp form the documentation does not settle")
		case k == refErr:
			return rErr("not an RFC 3339 timestamp")
		case err != nil:
			return rErr("invalid duration")
		}
		r := t.Add(d)
		if r.Year() < 0 || r.Year() > 9999 {
			return rUnspec("year outside 0..9999")
		}
		return rOK(cty.StringVal(r.Format(time.RFC3339)))
	}
}

func c14Misc() {
	refsC14["not"] = func(a []cty.Value) refResult { return rOK(cty.BoolVal(!a[0].True())) }
	refsC14["and"] = func(a []cty.Value) refResult { return rOK(cty.BoolVal(a[0].True() && a[1].True())) }
	refsC14["or"] = func(a []cty.Value) refResult { return rOK(cty.BoolVal(a[0].True() || a[1].True())) }
	bytesOf := func(v cty.Value) []byte { return *(v.EncapsulatedValue().(*[]byte)) }
	refsC14["byteslen"] = func(a []cty.Value) refResult {
		return rOK(cty.NumberIntVal(int64(len(bytesOf(a[0])))))
	}
	refsC14["bytesslice"] = func(a []cty.Value) refResult {
		off, w1, s1 := wholeInt(a[1])
		ln, w2, s2 := wholeInt(a[2])
		buf := bytesOf(a[0])
		if !w1 || !w2 || !s1 || !s2 || off < 0 || ln < 0 || off+ln > len(buf) {
			return rErr("offset/length outside the buffer")
		}
		want := buf[off : off+ln]
		return rCmp(func(got cty.Value) string {
			if !got.Type().IsCapsuleType() || got.IsNull() || !got.IsKnown() {
				return "expected a bytes value"
			}
			p, ok := got.EncapsulatedValue().(*[]byte)
			if !ok || !bytes.Equal(*p, want) {
				return fmt.Sprintf("reference gives %q", want)
			}
			return ""
		})
	}
}
