package main

import (
	"math/big"
	"sort"

	"github.com/zclconf/go-cty/cty"
	"github.com/zclconf/go-cty/cty/convert"
)

func init() {
	register(&Check{
		ID:    "C13",
		Level: "exploration",
		Rule: "each collection / set / sequence function x every wholly known seed argument list of the stdlib table (full Cartesian product of the per-position alphabets: empty and non-empty collections, duplicates, null members, list/tuple and map/object forms, negative, fractional, huge and out-of-range indices, sizes and steps; plus a null argument where the parameter accepts one) compared with a reference implementation over plain Go slices and maps that answers Ok(value and type) / DomainError / Unspecified; " +
			"distinct = argument lists on which the reference is specified; non-trivial = same",
		Assumptions: []string{
			"references are written from the Description strings and doc comments (DESIGN appendix B), not from the implementations; where those are silent the reference answers Unspecified and nothing is compared",
			"element-type unification (concat / coalesce / set algebra over different element types) is C09's subject and is Unspecified here",
			"iteration order of sets with non-primitive members is Unspecified",
		},
		Run: func(c *Ctx) {
			// history clause first, so that each worker process meets it in its initial state
			stdHistories(c, func(n string) bool { _, ok := refsC13[n]; return ok }, refOracle(refsC13))
			c13SetRoutes(c)
			cap := 60000
			deepDict = c.Thorough
			if c.Thorough {
				cap = 3000000
			}
			c.Note("functions_with_reference", fmtInt(len(refsC13)))
			runRefDiff(c, refsC13, cap)
		},
	})

	refsC13["length"] = func(a []cty.Value) refResult {
		t := a[0].Type()
		if !(t.IsListType() || t.IsSetType() || t.IsMapType() || t.IsTupleType()) {
			return rErr("not a collection or tuple")
		}
		return rOK(cty.NumberIntVal(int64(len(children(a[0])))))
	}
	refsC13["element"] = func(a []cty.Value) refResult {
		t := a[0].Type()
		if !(t.IsListType() || t.IsTupleType()) {
			return rErr("not a list or tuple")
		}
		i, whole, small := wholeInt(a[1])
		if !whole {
			return rErr("index is not a whole number")
		}
		if !small {
			return rUnspec("huge index")
		}
		es := seqElems(a[0])
		if len(es) == 0 {
			return rErr("empty sequence")
		}
		k := i % len(es)
		if k < 0 {
			k += len(es)
		}
		return rOK(es[k])
	}
	refIndex := func(a []cty.Value) (cty.Value, refKind, string) {
		t, k := a[0].Type(), a[1]
		switch {
		case t.IsListType() || t.IsTupleType():
			if k.Type() != cty.Number {
				return cty.NilVal, refErr, "key for a sequence must be a number"
			}
			i, whole, small := wholeInt(k)
			es := seqElems(a[0])
			if !whole || !small || i < 0 || i >= len(es) {
				return cty.NilVal, refErr, "no such index"
			}
			return es[i], refOK, ""
		case t.IsMapType():
			if k.Type() != cty.String {
				return cty.NilVal, refErr, "key for a map must be a string"
			}
			m := a[0].AsValueMap()
			v, ok := m[k.AsString()]
			if !ok {
				return cty.NilVal, refErr, "no such key"
			}
			return v, refOK, ""
		}
		return cty.NilVal, refUnspec, "not indexable"
	}
	refsC13["index"] = func(a []cty.Value) refResult {
		t := a[0].Type()
		if !(t.IsListType() || t.IsTupleType() || t.IsMapType()) {
			return rErr("not a list, map or tuple")
		}
		v, k, why := refIndex(a)
		if k == refOK {
			return rOK(v)
		}
		return rErr(why)
	}
	refsC13["hasindex"] = func(a []cty.Value) refResult {
		t := a[0].Type()
		if !(t.IsListType() || t.IsTupleType() || t.IsMapType()) {
			return rErr("not a list, map or tuple")
		}
		_, k, _ := refIndex(a)
		return rOK(cty.BoolVal(k == refOK))
	}
	refsC13["lookup"] = func(a []cty.Value) refResult {
		t := a[0].Type()
		key := a[1].AsString()
		switch {
		case t.IsMapType():
			def := a[2]
			if !def.Type().Equals(t.ElementType()) {
				// a default that the documented primitive conversions (docs/convert.md chart) turn
				// into the element type is converted, as the function's own type check does;
				// anything else is not compared
				conv, ok := refPrimConvert(def, t.ElementType())
				if !ok {
					return rUnspec("default of a different type than the map elements, not a decidable primitive conversion")
				}
				def = conv
			}
			if v, ok := a[0].AsValueMap()[key]; ok {
				return rOK(v)
			}
			return rOK(def)
		case t.IsObjectType():
			if t.HasAttribute(key) {
				return rOK(a[0].GetAttr(key))
			}
			return rOK(a[2])
		}
		return rErr("not a map or object")
	}
	refsC13["contains"] = func(a []cty.Value) refResult {
		if !isSeq(a[0].Type()) {
			return rErr("not a list, tuple or set")
		}
		for _, e := range seqElems(a[0]) {
			if e.Type().Equals(a[1].Type()) && refRawEq(e, a[1]) {
				return rOK(cty.True)
			}
			if !e.Type().Equals(a[1].Type()) && !e.IsNull() && !a[1].IsNull() && isPrimitiveTy(e.Type()) && isPrimitiveTy(a[1].Type()) {
				// a member of a different primitive type: whether values are
				// compared after conversion is not documented
				return rUnspec("members of a different primitive type")
			}
		}
		return rOK(cty.False)
	}
	sortedKeys := func(m map[string]cty.Value) []string {
		ks := make([]string, 0, len(m))
		for k := range m {
			ks = append(ks, k)
		}
		sort.Strings(ks)
		return ks
	}
	refsC13["keys"] = func(a []cty.Value) refResult {
		t := a[0].Type()
		if !(t.IsMapType() || t.IsObjectType()) {
			return rErr("not a map or object")
		}
		var ks []cty.Value
		for _, k := range sortedKeys(a[0].AsValueMap()) {
			ks = append(ks, cty.StringVal(k))
		}
		if t.IsMapType() {
			return rOK(mkList(cty.String, ks))
		}
		return rOK(cty.TupleVal(ks))
	}
	refsC13["values"] = func(a []cty.Value) refResult {
		t := a[0].Type()
		if !(t.IsMapType() || t.IsObjectType()) {
			return rErr("not a map or object")
		}
		m := a[0].AsValueMap()
		var vs []cty.Value
		for _, k := range sortedKeys(m) {
			vs = append(vs, m[k])
		}
		if t.IsMapType() {
			return rOK(mkList(t.ElementType(), vs))
		}
		return rOK(cty.TupleVal(vs))
	}
	refsC13["merge"] = func(a []cty.Value) refResult {
		if len(a) == 0 {
			return rOK(cty.EmptyObjectVal)
		}
		merged := map[string]cty.Value{}
		allSameMap := true
		allSameType := true
		for _, v := range a {
			t := v.Type()
			if t == cty.DynamicPseudoType && v.IsNull() {
				return rUnspec("untyped null argument")
			}
			if !(t.IsMapType() || t.IsObjectType()) {
				return rErr("not a map or object")
			}
			if !t.Equals(a[0].Type()) {
				allSameType = false
			}
			if !t.IsMapType() {
				allSameMap = false
			}
			if v.IsNull() {
				if t.IsObjectType() {
					return rUnspec("null object argument (result type: see known finding)")
				}
				continue
			}
			for k, e := range v.AsValueMap() {
				merged[k] = e
			}
		}
		if allSameType && allSameMap {
			return rOK(mkMap(a[0].Type().ElementType(), merged))
		}
		return rOK(cty.ObjectVal(merged))
	}
	refsC13["concat"] = func(a []cty.Value) refResult {
		if len(a) == 0 {
			return rErr("no arguments")
		}
		allLists, sameEty := true, true
		var all []cty.Value
		for _, v := range a {
			t := v.Type()
			if !(t.IsListType() || t.IsTupleType()) {
				return rErr("not a list or tuple")
			}
			if !t.IsListType() {
				allLists = false
			} else if a[0].Type().IsListType() && !t.Equals(a[0].Type()) {
				sameEty = false
			}
			all = append(all, seqElems(v)...)
		}
		if allLists {
			if !sameEty {
				return rUnspec("lists of different element types (unification)")
			}
			return rOK(mkList(a[0].Type().ElementType(), all))
		}
		for _, v := range a {
			if v.Type().IsListType() && v.Type().ElementType() == cty.DynamicPseudoType {
				return rUnspec("list of dynamic")
			}
		}
		return rOK(cty.TupleVal(all))
	}
	var flat func(v cty.Value, out *[]cty.Value) bool
	flat = func(v cty.Value, out *[]cty.Value) bool {
		if v.Type().IsSetType() && !isPrimitiveTy(v.Type().ElementType()) {
			return false
		}
		for _, e := range seqElems(v) {
			if !e.IsNull() && isSeq(e.Type()) {
				if !flat(e, out) {
					return false
				}
				continue
			}
			*out = append(*out, e)
		}
		return true
	}
	refsC13["flatten"] = func(a []cty.Value) refResult {
		if !isSeq(a[0].Type()) {
			return rErr("not a list, set or tuple")
		}
		var out []cty.Value
		if !flat(a[0], &out) {
			return rUnspec("set of non-primitive members (order)")
		}
		return rOK(cty.TupleVal(out))
	}
	refsC13["slice"] = func(a []cty.Value) refResult {
		t := a[0].Type()
		if !(t.IsListType() || t.IsTupleType()) {
			return rErr("not a list or tuple")
		}
		es := seqElems(a[0])
		s, sw, ss := wholeInt(a[1])
		e, ew, es2 := wholeInt(a[2])
		if !sw || !ew || !ss || !es2 || s < 0 || e < s || e > len(es) {
			return rErr("indices outside 0 <= start <= end <= length")
		}
		if t.IsListType() {
			return rOK(mkList(t.ElementType(), es[s:e]))
		}
		return rOK(cty.TupleVal(es[s:e]))
	}
	refsC13["chunklist"] = func(a []cty.Value) refResult {
		t := a[0].Type()
		n, whole, small := wholeInt(a[1])
		if !whole {
			return rErr("size is not a whole number")
		}
		if !small {
			if bf(a[1]).Sign() < 0 {
				return rErr("negative size")
			}
			if _, acc := bf(a[1]).Int64(); acc == big.Exact {
				// a size that fits the Go integer but exceeds any list length: one chunk with everything
				if es := seqElems(a[0]); len(es) > 0 {
					return rOK(mkList(t, []cty.Value{a[0]}))
				}
				return rOK(mkList(t, nil))
			}
			return rUnspec("size beyond the Go integer")
		}
		if n < 0 {
			return rErr("negative size")
		}
		es := seqElems(a[0])
		var chunks []cty.Value
		if n == 0 {
			if len(es) > 0 {
				chunks = append(chunks, a[0])
			}
		} else {
			for i := 0; i < len(es); i += n {
				j := i + n
				if j > len(es) {
					j = len(es)
				}
				chunks = append(chunks, cty.ListVal(es[i:j]))
			}
		}
		return rOK(mkList(t, chunks))
	}
	refsC13["distinct"] = func(a []cty.Value) refResult {
		var out []cty.Value
		for _, e := range seqElems(a[0]) {
			if !refHas(out, e) {
				out = append(out, e)
			}
		}
		return rOK(mkList(a[0].Type().ElementType(), out))
	}
	refsC13["compact"] = func(a []cty.Value) refResult {
		var out []cty.Value
		for _, e := range seqElems(a[0]) {
			if e.IsNull() {
				return rUnspec("null element")
			}
			if e.AsString() != "" {
				out = append(out, e)
			}
		}
		return rOK(mkList(cty.String, out))
	}
	refsC13["reverselist"] = func(a []cty.Value) refResult {
		t := a[0].Type()
		if !isSeq(t) {
			return rErr("not a list, set or tuple")
		}
		if t.IsSetType() && !isPrimitiveTy(t.ElementType()) {
			return rUnspec("set of non-primitive members (order)")
		}
		es := seqElems(a[0])
		out := make([]cty.Value, len(es))
		for i, e := range es {
			out[len(es)-1-i] = e
		}
		if t.IsTupleType() {
			return rOK(cty.TupleVal(out))
		}
		return rOK(mkList(t.ElementType(), out))
	}
	refsC13["sort"] = func(a []cty.Value) refResult {
		var ss []string
		for _, e := range seqElems(a[0]) {
			if e.IsNull() {
				return rErr("null element")
			}
			ss = append(ss, e.AsString())
		}
		sort.Strings(ss)
		out := make([]cty.Value, len(ss))
		for i, s := range ss {
			out[i] = cty.StringVal(s)
		}
		return rOK(mkList(cty.String, out))
	}
	refsC13["zipmap"] = func(a []cty.Value) refResult {
		vt := a[1].Type()
		if !(vt.IsListType() || vt.IsTupleType()) {
			return rErr("values not a list or tuple")
		}
		ks, vs := seqElems(a[0]), seqElems(a[1])
		if len(ks) != len(vs) {
			return rErr("different lengths")
		}
		m := map[string]cty.Value{}
		for i, k := range ks {
			if k.IsNull() {
				return rErr("null key")
			}
			m[k.AsString()] = vs[i]
		}
		if vt.IsListType() {
			return rOK(mkMap(vt.ElementType(), m))
		}
		// with a tuple of values a repeated key takes the last value and its type
		return rOK(cty.ObjectVal(m))
	}
	refsC13["range"] = func(a []cty.Value) refResult {
		for _, v := range a {
			if isInf(v) {
				return rUnspec("infinite argument")
			}
		}
		var start, end, step *big.Rat
		switch len(a) {
		case 1:
			start, end = new(big.Rat), ratOf(a[0])
		case 2:
			start, end = ratOf(a[0]), ratOf(a[1])
		case 3:
			start, end, step = ratOf(a[0]), ratOf(a[1]), ratOf(a[2])
		default:
			return rErr("needs one to three arguments")
		}
		if step == nil {
			step = big.NewRat(1, 1)
			if end.Cmp(start) < 0 {
				step = big.NewRat(-1, 1)
			}
		}
		allWhole := true
		mixedPrec := false
		for _, v := range a {
			if !bf(v).IsInt() {
				allWhole = false
			}
			if bf(v).Prec() != bf(a[0]).Prec() {
				mixedPrec = true
			}
		}
		near := func(x, y *big.Rat) bool {
			// within the precision of number arithmetic (and of the documented
			// decimal-text equality of numbers)
			d := new(big.Rat).Sub(x, y)
			d.Abs(d)
			mag := new(big.Rat).Abs(y)
			if one := big.NewRat(1, 1); mag.Cmp(one) < 0 {
				mag = one
			}
			return d.Cmp(new(big.Rat).Mul(mag, big.NewRat(1, 1<<40))) <= 0
		}
		if !allWhole && near(start, end) && start.Cmp(end) != 0 {
			return rUnspec("start and end differ by less than the precision of the operands")
		}
		if step.Sign() == 0 {
			return rErr("zero step")
		}
		if step.Sign() > 0 && end.Cmp(start) < 0 || step.Sign() < 0 && end.Cmp(start) > 0 {
			return rErr("step has the wrong direction")
		}
		var want []*big.Rat
		x := new(big.Rat).Set(start)
		for {
			if !allWhole && x.Cmp(end) != 0 && near(x, end) {
				return rUnspec("a partial sum is within the operands' precision of the end value")
			}
			if !allWhole && mixedPrec && x.Cmp(end) == 0 {
				// non-integer numbers of the same value but different mantissa
				// precision are not Equal for the library (decimal-text equality
				// at each number's own precision); see the C02 notes
				return rUnspec("a partial sum equals the end value at a different mantissa precision")
			}
			if step.Sign() > 0 && x.Cmp(end) >= 0 || step.Sign() < 0 && x.Cmp(end) <= 0 {
				break
			}
			if len(want) >= 1024 {
				return rErr("more than 1024 elements")
			}
			want = append(want, new(big.Rat).Set(x))
			x.Add(x, step)
		}
		// when the operands are not all whole numbers the repeated addition is
		// subject to the documented precision of number arithmetic: judge each
		// element to a relative tolerance of 2^-48 per step
		exact := allWhole
		return rCmp(func(got cty.Value) string {
			if !got.Type().Equals(cty.List(cty.Number)) {
				return "result is not a list of number"
			}
			gs := seqElems(got)
			if len(gs) != len(want) {
				return "reference has " + fmtInt(len(want)) + " elements"
			}
			for i, g := range gs {
				if g.IsNull() || !g.IsKnown() {
					return "null or unknown element"
				}
				d := new(big.Rat).Sub(ratOf(g), want[i])
				d.Abs(d)
				if exact {
					if d.Sign() != 0 {
						return "element " + fmtInt(i) + " differs from " + want[i].FloatString(6)
					}
					continue
				}
				mag := new(big.Rat).Abs(want[i])
				if one := big.NewRat(1, 1); mag.Cmp(one) < 0 {
					mag = one
				}
				tol := new(big.Rat).Mul(mag, big.NewRat(int64(i+1), 1<<48))
				if d.Cmp(tol) > 0 {
					return "element " + fmtInt(i) + " differs from " + want[i].FloatString(12)
				}
			}
			return ""
		})
	}
	refsC13["coalesce"] = func(a []cty.Value) refResult {
		if len(a) == 0 {
			return rErr("no arguments")
		}
		same, allPrim, anyPrim, anyStruct := true, true, false, false
		for _, v := range a {
			t := v.Type()
			if !t.Equals(a[0].Type()) {
				same = false
			}
			switch {
			case isPrimitiveTy(t):
				anyPrim = true
			case t == cty.DynamicPseudoType || t.IsCapsuleType():
				return rUnspec("untyped null or capsule argument")
			default:
				allPrim = false
				anyStruct = true
			}
		}
		if !same {
			if anyPrim && anyStruct {
				return rErr("a primitive and a collection or structural type have no common type")
			}
			if !allPrim {
				return rUnspec("collection / structural arguments of different types (unification)")
			}
			// primitives of different types unify to string when one of them is a string (the
			// documented primitive conversions: number and bool to string are safe, nothing else
			// is; a number and a bool alone have no common type); the type is decided by all
			// arguments, null or not, the value by the first argument that is not null
			hasStr := false
			for _, v := range a {
				if v.Type() == cty.String {
					hasStr = true
				}
			}
			if !hasStr {
				return rErr("a number and a bool have no common type")
			}
			for _, v := range a {
				if !v.IsNull() {
					r, err := convert.Convert(v, cty.String)
					if err != nil {
						return rUnspec("conversion to string failed")
					}
					return rOK(r)
				}
			}
			return rErr("no non-null argument")
		}
		for _, v := range a {
			if !v.IsNull() {
				return rOK(v)
			}
		}
		return rErr("no non-null argument")
	}
	refsC13["coalescelist"] = func(a []cty.Value) refResult {
		if len(a) == 0 {
			return rErr("no arguments")
		}
		for _, v := range a {
			t := v.Type()
			if !(t.IsListType() || t.IsTupleType()) {
				if t == cty.DynamicPseudoType {
					return rUnspec("untyped null")
				}
				return rErr("not a list or tuple")
			}
		}
		for _, v := range a {
			if !v.IsNull() && len(seqElems(v)) > 0 {
				return rOK(v)
			}
		}
		return rErr("no non-empty argument")
	}
	refsC13["setproduct"] = func(a []cty.Value) refResult {
		if len(a) < 2 {
			return rErr("needs at least two arguments")
		}
		allSeq := true
		etys := make([]cty.Type, len(a))
		elems := make([][]cty.Value, len(a))
		for i, v := range a {
			t := v.Type()
			switch {
			case t.IsListType():
				etys[i] = t.ElementType()
			case t.IsSetType():
				etys[i] = t.ElementType()
				allSeq = false
				if !isPrimitiveTy(t.ElementType()) {
					return rUnspec("set of non-primitive members")
				}
			case t.IsTupleType():
				ets := t.TupleElementTypes()
				if len(ets) == 0 {
					etys[i] = cty.DynamicPseudoType
				} else {
					for _, et := range ets {
						if !et.Equals(ets[0]) {
							return rUnspec("tuple of different element types (unification)")
						}
					}
					etys[i] = ets[0]
				}
			default:
				return rErr("not a set, list or tuple")
			}
			elems[i] = seqElems(v)
		}
		tupTy := cty.Tuple(etys)
		var prod []cty.Value
		cur := make([]cty.Value, len(a))
		var rec func(i int)
		rec = func(i int) {
			if i == len(a) {
				prod = append(prod, cty.TupleVal(append([]cty.Value(nil), cur...)))
				return
			}
			for _, e := range elems[i] {
				cur[i] = e
				rec(i + 1)
			}
		}
		rec(0)
		if allSeq {
			return rOK(mkList(tupTy, prod))
		}
		return rOK(mkSet(tupTy, prod))
	}
	setArgs := func(a []cty.Value) ([][]cty.Value, cty.Type, refKind, string) {
		var out [][]cty.Value
		ety := cty.NilType
		for _, v := range a {
			t := v.Type()
			if !t.IsSetType() {
				return nil, ety, refUnspec, "not a set"
			}
			if t.ElementType() == cty.DynamicPseudoType {
				return nil, ety, refUnspec, "set of dynamic"
			}
			if ety == cty.NilType {
				ety = t.ElementType()
			} else if !ety.Equals(t.ElementType()) {
				return nil, ety, refUnspec, "sets of different element types (unification)"
			}
			out = append(out, seqElems(v))
		}
		return out, ety, refOK, ""
	}
	setOp := func(keep func(inA, inB bool) bool) refFn {
		return func(a []cty.Value) refResult {
			sets, ety, k, why := setArgs(a)
			if k != refOK {
				return rUnspec(why)
			}
			acc := sets[0]
			for _, b := range sets[1:] {
				var next []cty.Value
				for _, x := range acc {
					if keep(true, refHas(b, x)) {
						next = append(next, x)
					}
				}
				for _, y := range b {
					if !refHas(acc, y) && keep(false, true) {
						next = append(next, y)
					}
				}
				acc = next
			}
			return rOK(mkSet(ety, acc))
		}
	}
	refsC13["setunion"] = setOp(func(inA, inB bool) bool { return true })
	refsC13["setintersection"] = setOp(func(inA, inB bool) bool { return inA && inB })
	refsC13["setsubtract"] = setOp(func(inA, inB bool) bool { return inA && !inB })
	refsC13["setsymmetricdifference"] = setOp(func(inA, inB bool) bool { return inA != inB })
	refsC13["sethaselement"] = func(a []cty.Value) refResult {
		t := a[0].Type()
		if t.ElementType() == cty.DynamicPseudoType || !t.ElementType().Equals(a[1].Type()) {
			return rUnspec("candidate of a different type than the members")
		}
		return rOK(cty.BoolVal(refHas(seqElems(a[0]), a[1])))
	}
}

func fmtInt(i int) string {
	return big.NewInt(int64(i)).String()
}

// refPrimConvert is the reference for the primitive conversion chart of docs/convert.md on
// the few known values where the outcome needs no knowledge of the library's number
// formatting: bool -> string, whole number -> string, "true"/"false" -> bool, plain decimal
// integer string -> number.  ok=false means "not decided here".
func refPrimConvert(v cty.Value, to cty.Type) (cty.Value, bool) {
	if v.IsNull() || !v.IsKnown() {
		return cty.NilVal, false
	}
	switch {
	case v.Type() == cty.Bool && to == cty.String:
		if v.True() {
			return cty.StringVal("true"), true
		}
		return cty.StringVal("false"), true
	case v.Type() == cty.Number && to == cty.String:
		f := v.AsBigFloat()
		if f.IsInf() || !f.IsInt() {
			return cty.NilVal, false
		}
		i, _ := f.Int(nil)
		if i.BitLen() > 60 {
			return cty.NilVal, false
		}
		return cty.StringVal(i.String()), true
	case v.Type() == cty.String && to == cty.Bool:
		switch v.AsString() {
		case "true":
			return cty.True, true
		case "false":
			return cty.False, true
		}
	case v.Type() == cty.String && to == cty.Number:
		s := v.AsString()
		if len(s) == 0 || len(s) > 15 {
			return cty.NilVal, false
		}
		for i, r := range s {
			if !(r >= '0' && r <= '9') && !(i == 0 && r == '-' && len(s) > 1) {
				return cty.NilVal, false
			}
		}
		if n, ok := new(big.Int).SetString(s, 10); ok {
			return cty.NumberVal(new(big.Float).SetInt(n)), true
		}
	}
	return cty.NilVal, false
}
