package main

import "fmt"

// E2Sys is a system explored by explicit-state search: a real mutable object
// plus its reference model, rebuilt from scratch by replaying a history.
type E2Sys interface {
	// NumOps is the size of the operation alphabet.
	NumOps() int
	// OpName names operation i.
	OpName(i int) string
	// New returns a fresh instance in its initial state.
	New() E2Inst
}

// E2Inst is one live instance (implementation + model in lock-step).
type E2Inst interface {
	// Apply performs operation op on the implementation and the model and
	// checks the transition; violations are reported through report.  When
	// check is false only the state change is performed (prefix replay).
	// ok=false means the operation is not enabled in this state.
	Apply(op int, check bool, report func(site, shape, detail string)) (ok bool)
	// Key is the canonical state key (full internal dump + model).
	Key() string
}

// exploreE2 runs a breadth-first search to the given depth.  Units are the
// level-1 subtrees (one per first operation) so that the search is sharded
// over the worker processes; state de-duplication is local to a unit.
func exploreE2(c *Ctx, sys E2Sys, depth int, sitePrefix string) {
	n := sys.NumOps()
	for first := 0; first < n; first++ {
		first := first
		c.Unit(func(u *U) {
			seen := map[string]bool{}
			init := sys.New()
			seen[init.Key()] = true
			u.State(init.Key())
			type hist []int
			frontier := []hist{}
			// level 1
			{
				inst := sys.New()
				report := func(site, shape, detail string) {
					if site == "__class" {
						u.Class(shape)
						return
					}
					u.Violation(sitePrefix+site, shape, fmt.Sprintf("history %s: %s", histStr(sys, hist{first}), detail))
				}
				if inst.Apply(first, true, report) {
					u.Transition(1)
					u.Eval(1)
					k := inst.Key()
					u.State(k)
					u.DistinctH(hash64(k))
					if !seen[k] {
						seen[k] = true
						frontier = append(frontier, hist{first})
					}
				}
			}
			for d := 2; d <= depth && len(frontier) > 0; d++ {
				var next []hist
				for _, h := range frontier {
					for op := 0; op < n; op++ {
						inst := sys.New()
						okPrefix := true
						for _, o := range h {
							if !inst.Apply(o, false, nil) {
								okPrefix = false
								break
							}
						}
						if !okPrefix {
							panic("E2: prefix replay diverged: " + histStr(sys, h))
						}
						h2 := append(append(hist(nil), h...), op)
						report := func(site, shape, detail string) {
							if site == "__class" {
								u.Class(shape)
								return
							}
							u.Violation(sitePrefix+site, shape, fmt.Sprintf("history %s: %s", histStr(sys, h2), detail))
						}
						if !inst.Apply(op, true, report) {
							continue
						}
						u.Transition(1)
						u.Eval(1)
						k := inst.Key()
						u.State(k)
						u.DistinctH(hash64(k))
						if !seen[k] {
							seen[k] = true
							next = append(next, h2)
							if u.WantSample() {
								u.Sample(map[string]interface{}{"history": histStr(sys, h2), "depth": d})
							}
						}
					}
				}
				frontier = next
			}
		})
	}
}

func histStr(sys E2Sys, h []int) string {
	s := ""
	for i, o := range h {
		if i > 0 {
			s += " ; "
		}
		s += sys.OpName(o)
	}
	return s
}
