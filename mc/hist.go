package main

// History layer shared by the per-property checks ("start from non-initial states too").
//
// The value-level properties are all-quantified over inputs, but the library is free to keep
// process-wide state (memo tables, pooled scratch objects, adaptive limits).  Such state makes
// the outcome of a call depend on which calls were made before it: the property then fails on
// an input for which it holds from the initial state.  This layer enumerates, for a small
// alphabet of operations chosen per property (every outcome class must be represented: success,
// each kind of rejection, rejection after partial output, boundary sizes),
//
//   * every single operation from the (as far as this worker is concerned) initial state,
//   * every ordered PAIR (p ; c)                                           (depth 2),
//   * every ordered TRIPLE (p ; q ; c) over the alphabet's "perturbing" subset (depth 3, thorough),
//
// and evaluates on the last call of each history (a) the property's own oracle, where the
// operation carries one, and (b) agreement with the outcome of the same call at depth 1.
// The sixteen worker processes each start the depth-1 pass at a different rotation of the
// alphabet (odd workers in reverse), so a table that is filled once per process is filled by
// sixteen different first callers.
//
// Garbage collection is switched off while a history runs: sync.Pool hands an object put back
// by one call to the next call only between two collections, and an exploration that loses the
// pooled object at random would not be an enumeration.

import (
	"fmt"
	"runtime"
	"runtime/debug"
)

// histGC collects garbage BETWEEN two histories, every so many of them (never inside one).
type histGC struct {
	n    int
	last uint64
}

func (g *histGC) between() {
	g.n++
	if a := heapAllocs(); g.n%1500 == 0 || a-g.last > 256<<20 {
		runtime.GC()
		g.last = a
	}
}

type histOp struct {
	desc string
	// run performs the call and returns a canonical outcome string
	run func() string
	// oracle, when not nil, judges the outcome by the property's own reference ("" = fine)
	oracle func(outcome string) string
	// perturbing marks operations used as inner members of depth-3 histories (rejections,
	// boundary sizes, calls that leave scratch state behind); all operations are used as
	// first and last members of pairs
	perturbing bool
	// firstOnly: an expensive operation that is only used as the first member of histories
	firstOnly bool
}

func histOutcome(f func() string) (s string) {
	defer func() {
		if r := recover(); r != nil {
			s = "panic: " + trunc(fmt.Sprint(r), 120)
		}
	}()
	return f()
}

// histFamily registers the units of one alphabet: 16 rotation units (depth 1 + pairs whose
// first member is congruent to the rotation), so the pair space is sharded over the workers.
func histFamily(c *Ctx, family string, mk func() []histOp) {
	const R = 16
	for r := 0; r < R; r++ {
		r := r
		c.Unit(func(u *U) {
			ops := mk()
			n := len(ops)
			if n == 0 {
				return
			}
			old := debug.SetGCPercent(-1)
			defer debug.SetGCPercent(old)
			base := make([]string, n)
			gc := histGC{last: heapAllocs()}
			// alphabets of more than 300 operations: only the perturbing ones are first members
			firsts := make([]int, 0, n)
			for i := range ops {
				if n <= 300 || ops[i].perturbing {
					firsts = append(firsts, i)
				}
			}
			judge := func(i int, out string, hist string) {
				if ops[i].oracle != nil {
					if why := ops[i].oracle(out); why != "" {
						u.Violation("history.oracle", family+": "+ops[i].desc, fmt.Sprintf("after the history [%s] the call %s gave %s: %s", hist, ops[i].desc, trunc(out, 300), why))
					}
				}
			}
			// depth 1, rotated
			start := (r / 2) * n / (R / 2)
			for k := 0; k < n; k++ {
				i := (start + k) % n
				if r%2 == 1 {
					i = (start - k + 2*n) % n
				}
				gc.between()
				base[i] = histOutcome(ops[i].run)
				u.Eval(1)
				u.Transition(1)
				judge(i, base[i], "(depth-1 pass of this worker, rotation "+fmt.Sprint(r)+")")
			}
			// a second look at every operation: the depth-1 pass itself is a history
			for i := 0; i < n; i++ {
				gc.between()
				out := histOutcome(ops[i].run)
				u.Eval(1)
				u.Transition(1)
				if out != base[i] && !onlyMapOrder(out, base[i]) {
					u.Violation("history.result-depends-on-earlier-calls", family+": "+ops[i].desc, fmt.Sprintf("%s gave %s when it was first called in this process and %s after the other %d operations of the family had been called once", ops[i].desc, trunc(base[i], 300), trunc(out, 300), n-1))
					base[i] = out
				}
			}
			// depth 2: pairs whose first member belongs to this unit
			for fi := r; fi < len(firsts); fi += R {
				p := firsts[fi]
				for ci := 0; ci < n; ci++ {
					if ops[ci].firstOnly {
						continue
					}
					gc.between()
					histOutcome(ops[p].run)
					out := histOutcome(ops[ci].run)
					u.Eval(2)
					u.Transition(2)
					u.DistinctN(1)
					if out != base[ci] && !onlyMapOrder(out, base[ci]) {
						// look again before reporting (map order in texts)
						histOutcome(ops[p].run)
						if out2 := histOutcome(ops[ci].run); out2 != base[ci] {
							u.Violation("history.result-depends-on-earlier-calls", family+": "+ops[p].desc+" ; "+ops[ci].desc, fmt.Sprintf("%s gives %s on its own but %s directly after %s", ops[ci].desc, trunc(base[ci], 300), trunc(out, 300), ops[p].desc))
						}
					}
					judge(ci, out, ops[p].desc)
				}
			}
			u.Class("history-pairs-unit")
			// closing pass: oracles that look at retained data are asked once more
			for i := range ops {
				judge(i, base[i], "(closing pass after all pairs of this unit)")
			}
			// depth 3 over the perturbing subset
			if c.Thorough {
				var pert []int
				for i := range ops {
					if ops[i].perturbing {
						pert = append(pert, i)
					}
				}
				lasts := make([]int, n)
				for i := range lasts {
					lasts[i] = i
				}
				if len(pert)*len(pert)*n > 3000000 {
					lasts = pert
				}
				for pi := r; pi < len(pert); pi += R {
					for _, q := range pert {
						for _, ci := range lasts {
							if ops[ci].firstOnly || ops[q].firstOnly {
								continue
							}
							gc.between()
							histOutcome(ops[pert[pi]].run)
							histOutcome(ops[q].run)
							out := histOutcome(ops[ci].run)
							u.Eval(3)
							u.Transition(3)
							u.DistinctN(1)
							if out != base[ci] && !onlyMapOrder(out, base[ci]) {
								u.Violation("history.result-depends-on-earlier-calls", family+": "+ops[pert[pi]].desc+" ; "+ops[q].desc+" ; "+ops[ci].desc, fmt.Sprintf("%s gives %s on its own but %s after %s ; %s", ops[ci].desc, trunc(base[ci], 300), trunc(out, 300), ops[pert[pi]].desc, ops[q].desc))
							}
							judge(ci, out, ops[pert[pi]].desc+" ; "+ops[q].desc)
						}
					}
				}
				u.Class("history-triples-unit")
			}
		})
	}
}
