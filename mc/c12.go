package main

import (
	"fmt"

	"github.com/zclconf/go-cty/cty"
	"github.com/zclconf/go-cty/cty/function"
)

func init() {
	register(&Check{
		ID:    "C12",
		Level: "exploration",
		Rule: "every stdlib function of the C11 table x every wholly known seed argument list on which the call succeeds x every weakening of one argument position (root or nested member, depth<=2) to a typed unknown whose refinements are true of the replaced part (thorough: full refinement alphabet, and every pair of single weakenings (first 8 per argument: bare, not-null and root-level refinements) in two different arguments); " +
			"the weakened call must succeed and its result must admit the concrete result AND the concrete result of up to 3 other concretisations the weakened argument admits; wholly known arguments must give a wholly known result; distinct by function and weakened argument GoStrings; non-trivial = concrete call succeeded and a position was weakened",
		Assumptions: []string{
			"concretisation relation admits() (DESIGN appendix A); marks are not involved",
			"DynamicVal is not used as a weakening here (the statement speaks of typed unknowns); it is covered for totality by C11",
			"alternative concretisations are taken from small leaf alphabets and kept only when the reference relation says the unknown admits them and the concrete call on them succeeds",
		},
		Run: runC12,
	})
}

func typedWeakenings(v cty.Value, k int, full bool) []Weakened {
	var out []Weakened
	for _, w := range weakenValue(v, k, full, 2) {
		if w.V.Type() == cty.DynamicPseudoType && v.Type() != cty.DynamicPseudoType {
			continue
		}
		out = append(out, w)
	}
	return out
}

func runC12(c *Ctx) {
	// history clauses first, so that each worker process meets them in its initial state
	histFamily(c, "chains of type-computing calls on retained values", c06HistoryOps)
	stdHistories(c, nil, func(fn *stdFn, args []cty.Value, o stdOutcome) string {
		if !o.OK() {
			return ""
		}
		for _, a := range args {
			if !a.IsWhollyKnown() {
				return ""
			}
		}
		if !o.V.IsWhollyKnown() {
			return "every argument is wholly known but the result is not"
		}
		return ""
	})
	weakenAlts = 3
	cap := 3000
	if c.Thorough {
		cap = 12000
	}
	stdUnits(c, c.Thorough, cap, 20, func(u *U, fn *stdFn, lists [][]cty.Value) {
		name := fn.Name
		// where a parameter accepts null, every seed list also occurs with that argument null
		// (a null is a wholly known value; it is then weakened like any other part)
		var withNulls [][]cty.Value
		for _, base := range lists {
			withNulls = append(withNulls, base)
			for i := range base {
				if p, ok := stdParam(fn, i); ok && p.AllowNull && !base[i].IsNull() && base[i].Type() != cty.DynamicPseudoType {
					nb := append([]cty.Value(nil), base...)
					nb[i] = cty.NullVal(base[i].Type())
					withNulls = append(withNulls, nb)
				}
			}
		}
		lists = withNulls
		for _, base := range lists {
			if c.Stopped() {
				return
			}
			u.Eval(1)
			o0 := callStd(fn.F, base)
			if !o0.OK() {
				u.Class("concrete-rejected")
				continue
			}
			u.Class("concrete-ok")
			if !whollyKnownRef(o0.V) {
				u.Violation(name+".known-in-known-out", shapesStr(base), fmt.Sprintf("%s(%s) with wholly known arguments returned %s", name, argsStr(base), goStr(o0.V)))
				continue
			}
			ws := make([][]Weakened, len(base))
			for i := range base {
				ws[i] = typedWeakenings(base[i], 1, c.Thorough)
			}
			tag := ""
			try := func(args []cty.Value, desc string) (cty.Value, bool) {
				u.Eval(1)
				u.DistinctN(1)
				oW := callStd(fn.F, args)
				key := name + "(" + argsStr(args) + ")"
				switch {
				case oW.Panic != "":
					u.Violation(name+".weakened-panics", tag+shapesStr(args), fmt.Sprintf("%s(%s) succeeded with %s but the weakened call %s panicked: %s", name, argsStr(base), goStr(o0.V), key, firstLineOf(oW.Panic)))
					return cty.NilVal, false
				case oW.Err != nil:
					u.Violation(name+".weakened-fails", tag+shapesStr(args), fmt.Sprintf("%s(%s) succeeded with %s but the weakened call %s failed: %s [%s]", name, argsStr(base), goStr(o0.V), key, firstLineOf(oW.Err.Error()), desc))
					return cty.NilVal, false
				}
				if ok, why := admits(oW.V, o0.V); !ok {
					u.Violation(name+".excludes-concrete", tag+shapesStr(args)+" => "+shapeOf(oW.V), fmt.Sprintf("%s(%s) = %s, but the weakened call %s = %s excludes it: %s", name, argsStr(base), goStr(o0.V), key, goStr(oW.V), why))
				}
				switch {
				case !oW.V.IsKnown() && oW.V.Type() == cty.DynamicPseudoType:
					u.Class("abstract-dynamic")
				case !oW.V.IsKnown():
					u.Class("abstract-unknown")
				case whollyKnownRef(oW.V):
					u.Class("abstract-known")
				default:
					u.Class("abstract-partly-known")
				}
				if u.WantSample() {
					u.Sample(map[string]string{"function": name, "concrete": argsStr(base), "concrete_result": goStr(o0.V), "weakened": argsStr(args), "abstract_result": goStr(oW.V)})
				}
				return oW.V, true
			}
			for i := range base {
				for _, w := range ws[i] {
					args := append([]cty.Value(nil), base...)
					args[i] = w.V
					tag = ""
					if base[i].IsNull() {
						tag = "null-weakened: " // the replaced argument is a null: part of the violation's identity
					}
					rW, ok := try(args, fmt.Sprintf("arg%d %s", i, w.Desc))
					if !ok {
						continue
					}
					for _, alt := range w.Alts {
						cargs := append([]cty.Value(nil), base...)
						cargs[i] = alt
						oA := callStd(fn.F, cargs)
						u.Eval(1)
						if !oA.OK() {
							continue
						}
						u.Class("alt-concretisation")
						if ok, why := admits(rW, oA.V); !ok {
							u.Violation(name+".excludes-other-concretisation", tag+shapesStr(args)+" => "+shapeOf(rW), fmt.Sprintf("weakened call %s(%s) = %s; the weakened argument also admits %s, for which %s(%s) = %s, which the abstract result excludes: %s", name, argsStr(args), goStr(rW), goStr(alt), name, argsStr(cargs), goStr(oA.V), why))
						}
					}
				}
			}
			tag = ""
			if c.Thorough && len(base) >= 2 {
				for i := 0; i < len(base); i++ {
					for j := i + 1; j < len(base); j++ {
						for _, wa := range firstN(ws[i], 8) {
							for _, wb := range firstN(ws[j], 8) {
								args := append([]cty.Value(nil), base...)
								args[i], args[j] = wa.V, wb.V
								tag = ""
								if base[i].IsNull() || base[j].IsNull() {
									tag = "null-weakened: " // as above: a replaced argument is a null
								}
								try(args, fmt.Sprintf("arg%d %s; arg%d %s", i, wa.Desc, j, wb.Desc))
							}
						}
					}
				}
			}
		}
	})
	c12ManyArgs(c)
}

// c12ManyArgs: the diagonal of the weakening space for variadic functions - 7, 8 and 9
// variadic arguments, ALL replaced at once by the same kind of unknown (bare, not-null,
// refined; for collections also with large length bounds such as 256 and 1024), so that
// whatever a function accumulates across its arguments (products or sums of length bounds,
// unified types, collected marks) is pushed past small-count behaviour.
func c12ManyArgs(c *Ctx) {
	for _, fn := range stdFns {
		fn := fn
		if fn.F.VarParam() == nil {
			continue
		}
		c.Unit(func(u *U) {
			np := len(fn.F.Params())
			name := fn.Name
			vd := fn.dict(np, c.Thorough)
			maxD := 4
			if c.Thorough {
				maxD = 10
			}
			for di := 0; di < len(vd) && di < maxD; di++ {
				x := vd[di]
				ws := []cty.Value{}
				for _, w := range typedWeakenings(x, 1, c.Thorough) {
					if w.N == 1 && !w.V.IsKnown() { // root-level replacements only
						ws = append(ws, w.V)
					}
				}
				if ty := x.Type(); ty.IsCollectionType() && x.IsKnown() && !x.IsNull() {
					for _, b := range []int{256, 1024} {
						b := b
						if v, ok := safeRefine(func() cty.Value {
							return cty.UnknownVal(ty).Refine().NotNull().CollectionLengthUpperBound(b).NewValue()
						}); ok {
							ws = append(ws, v)
						}
						if v, ok := safeRefine(func() cty.Value {
							return cty.UnknownVal(ty).Refine().CollectionLengthLowerBound(x.LengthInt()).CollectionLengthUpperBound(b).NewValue()
						}); ok {
							ws = append(ws, v)
						}
					}
				}
				for _, n := range []int{7, 8, 9} {
					base := make([]cty.Value, 0, np+n)
					for i := 0; i < np; i++ {
						base = append(base, fn.dict(i, c.Thorough)[0])
					}
					for k := 0; k < n; k++ {
						base = append(base, x)
					}
					u.Eval(1)
					o0 := callStd(fn.F, base)
					if !o0.OK() {
						u.Class("concrete-rejected")
						continue
					}
					u.Class("concrete-ok")
					for _, w := range ws {
						args := append([]cty.Value(nil), base[:np]...)
						for k := 0; k < n; k++ {
							args = append(args, w)
						}
						u.Eval(1)
						u.DistinctN(1)
						oW := callStd(fn.F, args)
						key := fmt.Sprintf("%s(%d variadic arguments, each %s)", name, n, goStr(w))
						shape := fmt.Sprintf("%d x %s", n, shapeOf(w))
						switch {
						case oW.Panic != "":
							u.Violation(name+".weakened-panics", shape, fmt.Sprintf("%s(%s) succeeded but %s panicked: %s", name, argsStr(base), key, firstLineOf(oW.Panic)))
						case oW.Err != nil:
							u.Violation(name+".weakened-fails", shape, fmt.Sprintf("%s(%s) succeeded with %s but %s failed: %s", name, argsStr(base), goStr(o0.V), key, firstLineOf(oW.Err.Error())))
						default:
							if ok, why := admits(oW.V, o0.V); !ok {
								u.Violation(name+".excludes-concrete", shape+" => "+shapeOf(oW.V), fmt.Sprintf("%s(%s) = %s, but %s = %s excludes it: %s", name, argsStr(base), goStr(o0.V), key, goStr(oW.V), why))
							}
							u.Class("many-arguments-compared")
						}
					}
				}
			}
		})
	}
}

func firstN(ws []Weakened, n int) []Weakened {
	if len(ws) <= n {
		return ws
	}
	return ws[:n]
}

// stdParam returns the declared parameter that argument i of fn binds to.
func stdParam(fn *stdFn, i int) (function.Parameter, bool) {
	ps := fn.F.Params()
	if i < len(ps) {
		return ps[i], true
	}
	if vp := fn.F.VarParam(); vp != nil {
		return *vp, true
	}
	return function.Parameter{}, false
}
