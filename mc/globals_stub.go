//go:build !verifoverlay

package main

// Without the overlay (it could not be generated or did not compile against
// the tree under test) package-level variables are not fingerprinted; the
// evidence says so.
func packageGlobals() map[string]map[string]interface{} { return nil }

const globalsAvailable = false
