package main

import (
	"fmt"
	"strings"

	"github.com/zclconf/go-cty/cty"
)

func init() {
	register(&Check{
		ID:    "C11",
		Level: "exploration",
		Rule: "every exported stdlib function (table cross-checked against the `var XFunc = function.New` declarations in the working tree) and MakeToFunc for 10 target types x every seed argument list (full Cartesian product of per-position alphabets, or all lists within 2 deviations from the default symbol when the product exceeds the cap; variadic lengths 0..2, thorough 0..3) " +
			"x every injection of null / null-of-dynamic / unknown / refined unknown / DynamicVal / mark at one argument root or one nested member (depth<=2), thorough: also every pair of root injections; Call, ReturnTypeForValues and ReturnType are run on each; distinct by function and argument GoStrings; non-trivial = every case (each is a separate call triple)",
		Assumptions: []string{
			"a Go panic escaping Call/ReturnType/ReturnTypeForValues or a function.PanicError is a violation; ordinary errors are the documented rejection",
			"conformance of result types to predicted types is decided by the checker's structural model (refConforms)",
			"count-like numeric alphabets avoid magnitudes in (1025, 2^62) where functions legitimately allocate in proportion to the argument",
		},
		Run: runC11,
	})
}

// injectRoot returns replacements of the whole argument v.
func injectRoot(v cty.Value, thorough bool) []cty.Value {
	ty := v.Type()
	out := []cty.Value{
		cty.NullVal(ty), cty.NullVal(cty.DynamicPseudoType), cty.UnknownVal(ty), cty.DynamicVal, v.Mark(markM1), cty.UnknownVal(ty).Mark(markM2),
	}
	add := func(f func() cty.Value) {
		if w, ok := safeRefine(f); ok {
			out = append(out, w)
		}
	}
	add(func() cty.Value { return cty.UnknownVal(ty).RefineNotNull() })
	switch {
	case ty == cty.Number:
		add(func() cty.Value {
			return cty.UnknownVal(ty).Refine().NotNull().NumberRangeLowerBound(cty.Zero, true).NewValue()
		})
		if thorough {
			add(func() cty.Value {
				return cty.UnknownVal(ty).Refine().NumberRangeUpperBound(cty.Zero, false).NewValue()
			})
			add(func() cty.Value {
				return cty.UnknownVal(ty).Refine().NotNull().NumberRangeInclusive(cty.NumberIntVal(1), cty.NumberIntVal(2)).NewValue()
			})
		}
	case ty == cty.String:
		add(func() cty.Value { return cty.UnknownVal(ty).Refine().NotNull().StringPrefixFull("a").NewValue() })
		if thorough {
			add(func() cty.Value { return cty.UnknownVal(ty).Refine().StringPrefixFull("%").NewValue() })
		}
	case ty.IsCollectionType():
		add(func() cty.Value {
			return cty.UnknownVal(ty).Refine().NotNull().CollectionLengthLowerBound(1).NewValue()
		})
		add(func() cty.Value {
			return cty.UnknownVal(ty).Refine().NotNull().CollectionLengthUpperBound(2).NewValue()
		})
		if thorough {
			add(func() cty.Value {
				return cty.UnknownVal(ty).Refine().NotNull().CollectionLengthUpperBound(0).NewValue()
			})
			add(func() cty.Value {
				return cty.UnknownVal(ty).Refine().CollectionLengthLowerBound(1).CollectionLengthUpperBound(1).NewValue()
			})
		}
	}
	if thorough {
		out = append(out, v.Mark(markM1).Mark(markM2), cty.NullVal(ty).Mark(markM1), cty.DynamicVal.Mark(markM1))
	}
	return out
}

// injectNested returns variants of v with one nested member replaced.
func injectNested(v cty.Value, thorough bool) []cty.Value {
	if !v.IsKnown() || v.IsNull() || v.IsMarked() {
		return nil
	}
	var out []cty.Value
	for _, p := range allPositions(v, 2) {
		if len(p) == 0 {
			continue
		}
		x := getAt(v, p)
		xt := x.Type()
		reps := []cty.Value{cty.NullVal(xt), cty.UnknownVal(xt), cty.DynamicVal, x.Mark(markM3)}
		if thorough {
			reps = append(reps, cty.UnknownVal(xt).Mark(markM3), cty.NullVal(cty.DynamicPseudoType))
			if w, ok := safeRefine(func() cty.Value { return cty.UnknownVal(xt).RefineNotNull() }); ok {
				reps = append(reps, w)
			}
		}
		for _, r := range reps {
			if r.RawEquals(x) {
				continue
			}
			if nv, ok := replaceAt(v, p, r); ok {
				out = append(out, nv)
			}
		}
	}
	return out
}

// c11Check runs the three entry points on one argument list.
func c11Check(u *U, fn *stdFn, args []cty.Value) {
	u.Eval(1)
	name := fn.Name
	desc := func() string { return name + "(" + argsStr(args) + ")" }
	shape := func() string { return shapesStr(args) }
	o := callStd(fn.F, args)
	rv := retTypeForValues(fn.F, args)
	tys := make([]cty.Type, len(args))
	allKnown := true
	for i, a := range args {
		tys[i] = a.Type()
		if !whollyKnownRef(a) || a.ContainsMarked() {
			allKnown = false
		}
	}
	rt := retType(fn.F, tys)
	switch {
	case o.Panic != "":
		u.Violation(name+".call-go-panic", shape(), fmt.Sprintf("%s panicked: %s", desc(), firstLineOf(o.Panic)))
	case o.IsPanicE:
		u.Violation(name+".call-panic-error", shape(), fmt.Sprintf("%s returned an error reporting an internal panic: %s", desc(), firstLineOf(o.Err.Error())))
	}
	switch {
	case rv.Panic != "":
		u.Violation(name+".rtfv-go-panic", shape(), fmt.Sprintf("ReturnTypeForValues of %s panicked: %s", desc(), firstLineOf(rv.Panic)))
	case rv.IsPanicE:
		u.Violation(name+".rtfv-panic-error", shape(), fmt.Sprintf("ReturnTypeForValues of %s returned an error reporting an internal panic: %s", desc(), firstLineOf(rv.Err.Error())))
	}
	switch {
	case rt.Panic != "":
		u.Violation(name+".rt-go-panic", ctyTypesStr(tys), fmt.Sprintf("ReturnType of %s(%s) panicked: %s", name, ctyTypesStr(tys), firstLineOf(rt.Panic)))
	case rt.IsPanicE:
		u.Violation(name+".rt-panic-error", ctyTypesStr(tys), fmt.Sprintf("ReturnType of %s(%s) returned an error reporting an internal panic: %s", name, ctyTypesStr(tys), firstLineOf(rt.Err.Error())))
	}
	if !o.OK() {
		u.Class("rejected")
		return
	}
	u.Class("ok")
	if why := wf(o.V); why != "" {
		u.Violation(name+".malformed-result", shape(), fmt.Sprintf("%s returned a malformed value: %s", desc(), why))
		return
	}
	got := tsOf(o.V.Type())
	if !rv.OK() {
		if rv.Panic == "" && !rv.IsPanicE {
			u.Violation(name+".values-prediction-rejects", shape(), fmt.Sprintf("%s succeeded with %s but ReturnTypeForValues on the same arguments failed: %v", desc(), goStr(o.V), rv.Err))
		}
	} else if !refConforms(got, tsOf(rv.T)) {
		u.Violation(name+".type-vs-values-prediction", shape(), fmt.Sprintf("%s returned a value of type %#v which does not conform to the type predicted from the argument values %#v", desc(), o.V.Type(), rv.T))
	}
	if rt.OK() {
		if !refConforms(got, tsOf(rt.T)) {
			u.Violation(name+".type-vs-types-prediction", shape(), fmt.Sprintf("%s returned a value of type %#v which does not conform to the type predicted from the argument types alone %#v", desc(), o.V.Type(), rt.T))
		}
		u.Class("ok+types-ok")
	} else if allKnown && rt.Panic == "" && !rt.IsPanicE {
		u.Violation(name+".types-prediction-rejects", shape(), fmt.Sprintf("%s with wholly known arguments succeeded with %s, but ReturnType(%s) rejected the call: %v", desc(), goStr(o.V), ctyTypesStr(tys), rt.Err))
	}
	// a type checker that knows only some of the argument types (dynamic
	// placeholders for the rest) must not contradict the evaluation either
	if allKnown && len(args) > 0 && len(args) <= 4 {
		for mask := 1; mask < 1<<len(args); mask++ {
			ptys := append([]cty.Type(nil), tys...)
			for i := range ptys {
				if mask&(1<<i) != 0 {
					ptys[i] = cty.DynamicPseudoType
				}
			}
			u.Eval(1)
			prt := retType(fn.F, ptys)
			switch {
			case prt.Panic != "":
				u.Violation(name+".rt-go-panic", ctyTypesStr(ptys), fmt.Sprintf("ReturnType of %s(%s) panicked: %s", name, ctyTypesStr(ptys), firstLineOf(prt.Panic)))
			case prt.IsPanicE:
				u.Violation(name+".rt-panic-error", ctyTypesStr(ptys), fmt.Sprintf("ReturnType of %s(%s) returned an error reporting an internal panic: %s", name, ctyTypesStr(ptys), firstLineOf(prt.Err.Error())))
			case prt.Err != nil:
				u.Violation(name+".placeholder-prediction-rejects", ctyTypesStr(ptys), fmt.Sprintf("%s with wholly known arguments succeeded with %s, but ReturnType(%s) (some argument types replaced by the dynamic placeholder) rejected the call: %v", desc(), goStr(o.V), ctyTypesStr(ptys), prt.Err))
			case !refConforms(got, tsOf(prt.T)):
				u.Violation(name+".type-vs-placeholder-prediction", ctyTypesStr(ptys), fmt.Sprintf("%s returned a value of type %#v which does not conform to the type %#v predicted by ReturnType(%s)", desc(), o.V.Type(), prt.T, ctyTypesStr(ptys)))
			}
		}
	}
	if u.WantSample() {
		u.Sample(map[string]string{"call": desc(), "result": goStr(o.V), "type_from_values": fmt.Sprintf("%#v", rv.T), "type_from_types": fmt.Sprintf("%#v / %v", rt.T, rt.Err)})
	}
}

func ctyTypesStr(tys []cty.Type) string {
	parts := make([]string, len(tys))
	for i, t := range tys {
		parts[i] = tsOf(t).Canon()
	}
	return strings.Join(parts, ", ")
}

// stdUnits enumerates (function, chunk of seed lists) units.
func stdUnits(c *Ctx, thorough bool, cap, chunk int, body func(u *U, fn *stdFn, lists [][]cty.Value)) {
	for _, fn := range stdFns {
		fn := fn
		var buf [][]cty.Value
		flush := func() {
			if len(buf) == 0 {
				return
			}
			lists := buf
			buf = nil
			c.Unit(func(u *U) { body(u, fn, lists) })
		}
		fn.baseLists(thorough, cap, func(args []cty.Value) {
			buf = append(buf, args)
			if len(buf) >= chunk {
				flush()
			}
		})
		flush()
	}
}

// c11ManyArgs: variadic functions with 7, 8 and 9 variadic arguments, all alike: a known value,
// a typed unknown, DynamicVal, a null, and unknown collections with large length bounds.
func c11ManyArgs(c *Ctx) {
	for _, fn := range stdFns {
		fn := fn
		if fn.F.VarParam() == nil {
			continue
		}
		c.Unit(func(u *U) {
			np := len(fn.F.Params())
			vd := fn.dict(np, c.Thorough)
			for di := 0; di < len(vd) && di < 5; di++ {
				x := vd[di]
				forms := []cty.Value{x, cty.UnknownVal(x.Type()), cty.UnknownVal(x.Type()).RefineNotNull(), cty.DynamicVal, cty.NullVal(x.Type()), x.Mark(markM1)}
				if ty := x.Type(); ty.IsCollectionType() {
					for _, b := range []int{256, 1024} {
						b := b
						if v, ok := safeRefine(func() cty.Value {
							return cty.UnknownVal(ty).Refine().NotNull().CollectionLengthUpperBound(b).NewValue()
						}); ok {
							forms = append(forms, v)
						}
					}
				}
				for _, n := range []int{7, 8, 9} {
					for _, f := range forms {
						args := make([]cty.Value, 0, np+n)
						for i := 0; i < np; i++ {
							args = append(args, fn.dict(i, c.Thorough)[0])
						}
						for k := 0; k < n; k++ {
							args = append(args, f)
						}
						u.DistinctN(1)
						c11Check(u, fn, args)
					}
				}
			}
		})
	}
}

func runC11(c *Ctx) {
	defer c11ManyArgs(c)
	// history clauses first, so that each worker process meets them in its initial state
	histFamily(c, "chains of type-computing calls on retained values", c06HistoryOps)
	stdHistories(c, nil, func(fn *stdFn, args []cty.Value, o stdOutcome) string {
		if o.Panic != "" || o.IsPanicE {
			return "the call panicked: " + o.Panic + fmt.Sprint(o.Err)
		}
		if !o.OK() {
			return ""
		}
		tys := make([]cty.Type, len(args))
		for i, a := range args {
			tys[i] = a.Type()
		}
		t := retType(fn.F, tys)
		if t.Panic != "" || t.IsPanicE {
			return "ReturnType panicked for the types of these arguments"
		}
		if t.Err == nil && !refConforms(tsOf(o.V.Type()), tsOf(t.T)) {
			return fmt.Sprintf("the result type does not conform to the type predicted from the argument types, %#v", t.T)
		}
		return ""
	})
	// table vs source cross-check (reported, never a violation)
	src := stdlibSourceFuncs()
	c.Note("functions_in_table", fmt.Sprint(len(stdFns)))
	c.Note("func_vars_declared_in_source", fmt.Sprint(len(src)))
	cap := 6000
	if c.Thorough {
		cap = 40000
	}
	stdUnits(c, c.Thorough, cap, 40, func(u *U, fn *stdFn, lists [][]cty.Value) {
		for _, base := range lists {
			if c.Stopped() {
				return
			}
			u.DistinctN(1)
			c11Check(u, fn, base)
			var rootInj [][]cty.Value
			for i := range base {
				ri := injectRoot(base[i], c.Thorough)
				rootInj = append(rootInj, ri)
				for _, r := range ri {
					args := append([]cty.Value(nil), base...)
					args[i] = r
					u.DistinctN(1)
					c11Check(u, fn, args)
				}
				for _, r := range injectNested(base[i], c.Thorough) {
					args := append([]cty.Value(nil), base...)
					args[i] = r
					u.DistinctN(1)
					c11Check(u, fn, args)
				}
			}
			// marks on two arguments at once (a positional and a variadic one, two variadic ones)
			for i := 0; i < len(base); i++ {
				for j := i + 1; j < len(base); j++ {
					args := append([]cty.Value(nil), base...)
					args[i], args[j] = base[i].Mark(markM1), base[j].Mark(markM2)
					u.DistinctN(1)
					c11Check(u, fn, args)
					if nested := injectNested(base[i], false); len(nested) > 0 {
						args2 := append([]cty.Value(nil), base...)
						args2[i], args2[j] = nested[len(nested)-1], base[j].Mark(markM2)
						u.DistinctN(1)
						c11Check(u, fn, args2)
					}
				}
			}
			if c.Thorough && len(base) >= 2 {
				for i := 0; i < len(base); i++ {
					for j := i + 1; j < len(base); j++ {
						for _, a := range rootInj[i][:6] {
							for _, b := range rootInj[j][:6] {
								args := append([]cty.Value(nil), base...)
								args[i], args[j] = a, b
								u.DistinctN(1)
								c11Check(u, fn, args)
							}
						}
					}
				}
			}
		}
	})
}
