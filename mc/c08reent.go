package main

// C08, re-entrancy clause.  A conversion is a function of the converted value; conversions of
// capsule types run caller-supplied code in the middle of a structural conversion, and that code
// may itself convert values - through the same retained Conversion (two activations of one
// conversion closure at once, on one goroutine).  Enumerated: every structural wrapper kind
// (tuple, object, list, set, map, and tuple inside list) x a capsule member in every position x
// (outer value, inner value) with different leaves and different marks; the outer and the inner
// result must both equal what a fresh conversion gives for that value alone.

import (
	"fmt"
	"reflect"

	"github.com/zclconf/go-cty/cty"
	"github.com/zclconf/go-cty/cty/convert"
)

var reentHook func()

var capsReentType = cty.CapsuleWithOps("reent", reflect.TypeOf(capsNative{}), &cty.CapsuleOps{
	RawEquals:    func(a, b interface{}) bool { return a.(*capsNative).N == b.(*capsNative).N },
	HashKey:      func(v interface{}) string { return fmt.Sprint("reent", v.(*capsNative).N) },
	GoString:     func(v interface{}) string { return fmt.Sprint("caps(", v.(*capsNative).N, ")") },
	TypeGoString: func(reflect.Type) string { return "capsReentType" },
	ConversionFrom: func(dst cty.Type) func(interface{}, cty.Path) (cty.Value, error) {
		if dst != cty.String {
			return nil
		}
		return func(raw interface{}, _ cty.Path) (cty.Value, error) {
			if reentHook != nil {
				reentHook()
			}
			return cty.StringVal(fmt.Sprint("caps", raw.(*capsNative).N)), nil
		}
	},
})

func c08Reentrancy(c *Ctx) {
	caps := func(n int) cty.Value { return cty.CapsuleVal(capsReentType, &capsNative{n}) }
	type shape struct {
		name     string
		src, dst cty.Type
		mk       func(leaf string, n int, k int) cty.Value // k selects a mark placement
	}
	innerMarks := false
	mark := func(v cty.Value, k int, where int) cty.Value {
		// placements: 0 none, 1 root only, 2 member only, 3 both; the inner value carries
		// marks of its own
		if k&where != 0 {
			switch {
			case where == 1 && !innerMarks:
				return v.Mark(markM1)
			case where == 1:
				return v.Mark(markM3)
			case !innerMarks:
				return v.Mark(markM2)
			}
			return v.Mark("M4")
		}
		return v
	}
	R := capsReentType
	shapes := []shape{
		{"tuple[string,caps]", cty.Tuple([]cty.Type{cty.String, R}), cty.Tuple([]cty.Type{cty.String, cty.String}), func(l string, n, k int) cty.Value {
			return mark(cty.TupleVal([]cty.Value{mark(cty.StringVal(l), k, 2), caps(n)}), k, 1)
		}},
		{"tuple[caps,number]", cty.Tuple([]cty.Type{R, cty.Number}), cty.Tuple([]cty.Type{cty.String, cty.String}), func(l string, n, k int) cty.Value {
			return mark(cty.TupleVal([]cty.Value{caps(n), mark(cty.NumberIntVal(int64(len(l))), k, 2)}), k, 1)
		}},
		{"tuple[string,caps,bool]", cty.Tuple([]cty.Type{cty.String, R, cty.Bool}), cty.Tuple([]cty.Type{cty.String, cty.String, cty.String}), func(l string, n, k int) cty.Value {
			return mark(cty.TupleVal([]cty.Value{mark(cty.StringVal(l), k, 2), caps(n), cty.BoolVal(n%2 == 0)}), k, 1)
		}},
		{"object{a:string,c:caps}", cty.Object(map[string]cty.Type{"a": cty.String, "c": R}), cty.Object(map[string]cty.Type{"a": cty.String, "c": cty.String}), func(l string, n, k int) cty.Value {
			return mark(cty.ObjectVal(map[string]cty.Value{"a": mark(cty.StringVal(l), k, 2), "c": caps(n)}), k, 1)
		}},
		{"object{a:caps,z:number} -> map(string)", cty.Object(map[string]cty.Type{"a": R, "z": cty.Number}), cty.Map(cty.String), func(l string, n, k int) cty.Value {
			return mark(cty.ObjectVal(map[string]cty.Value{"a": caps(n), "z": mark(cty.NumberIntVal(int64(len(l))), k, 2)}), k, 1)
		}},
		{"list(caps)", cty.List(R), cty.List(cty.String), func(l string, n, k int) cty.Value {
			return mark(cty.ListVal([]cty.Value{caps(n), caps(n + 1)}), k, 1)
		}},
		{"list(caps) -> set(string)", cty.List(R), cty.Set(cty.String), func(l string, n, k int) cty.Value {
			return mark(cty.ListVal([]cty.Value{caps(n), caps(n + 1)}), k, 1)
		}},
		{"set(caps)", cty.Set(R), cty.Set(cty.String), func(l string, n, k int) cty.Value {
			return mark(cty.SetVal([]cty.Value{caps(n), caps(n + 1)}), k, 1)
		}},
		{"map(caps)", cty.Map(R), cty.Map(cty.String), func(l string, n, k int) cty.Value {
			return mark(cty.MapVal(map[string]cty.Value{l: caps(n), "zz": caps(n + 1)}), k, 1)
		}},
		{"map(caps) -> object", cty.Map(R), cty.Object(map[string]cty.Type{"k": cty.String, "zz": cty.String}), func(l string, n, k int) cty.Value {
			return mark(cty.MapVal(map[string]cty.Value{"k": caps(n), "zz": caps(n + 1)}), k, 1)
		}},
		{"list(tuple[string,caps])", cty.List(cty.Tuple([]cty.Type{cty.String, R})), cty.List(cty.Tuple([]cty.Type{cty.String, cty.String})), func(l string, n, k int) cty.Value {
			return mark(cty.ListVal([]cty.Value{cty.TupleVal([]cty.Value{mark(cty.StringVal(l), k, 2), caps(n)}), cty.TupleVal([]cty.Value{cty.StringVal(l + "2"), caps(n + 1)})}), k, 1)
		}},
		{"tuple[list(caps),string] -> tuple[list(string),string]", cty.Tuple([]cty.Type{cty.List(R), cty.String}), cty.Tuple([]cty.Type{cty.List(cty.String), cty.String}), func(l string, n, k int) cty.Value {
			return mark(cty.TupleVal([]cty.Value{cty.ListVal([]cty.Value{caps(n)}), mark(cty.StringVal(l), k, 2)}), k, 1)
		}},
	}
	for _, sh := range shapes {
		sh := sh
		c.Unit(func(u *U) {
			conv := convert.GetConversionUnsafe(sh.src, sh.dst)
			if conv == nil {
				u.Class("reentrancy-no-conversion")
				return
			}
			alone := func(v cty.Value) string {
				reentHook = nil
				r, err, pan := callConv(func() (cty.Value, error) { return convert.GetConversionUnsafe(sh.src, sh.dst)(v) })
				if pan != "" || err != nil {
					return fmt.Sprint("rejected ", err, pan)
				}
				return goStr(r)
			}
			for ko := 0; ko < 4; ko++ {
				for ki := 0; ki < 4; ki++ {
					for depth := 1; depth <= 2; depth++ {
						innerMarks = false
						outer := sh.mk("outer", 1, ko)
						innerMarks = true
						inner := sh.mk("in", 5, ki)
						wantO, wantI := alone(outer), alone(inner)
						var gotI []string
						level := 0
						reentHook = func() {
							if level >= depth {
								return
							}
							level++
							r, err, pan := callConv(func() (cty.Value, error) { return conv(inner) })
							level--
							if pan != "" || err != nil {
								gotI = append(gotI, fmt.Sprint("rejected ", err, pan))
							} else {
								gotI = append(gotI, goStr(r))
							}
						}
						r, err, pan := callConv(func() (cty.Value, error) { return conv(outer) })
						reentHook = nil
						u.Eval(1 + len(gotI))
						u.DistinctN(1)
						gotO := goStr(r)
						if pan != "" || err != nil {
							gotO = fmt.Sprint("rejected ", err, pan)
						}
						desc := fmt.Sprintf("one retained conversion %s; outer value %s, and a capsule conversion callback that converts %s through the same conversion (nesting %d)", sh.name, goStr(outer), goStr(inner), depth)
						if gotO != wantO {
							u.Violation("Convert.reentrant.outer-result-differs", sh.name, fmt.Sprintf("%s: the outer call returned %s; the same value converted on its own gives %s", desc, gotO, wantO))
						}
						for _, g := range gotI {
							if g != wantI {
								u.Violation("Convert.reentrant.inner-result-differs", sh.name, fmt.Sprintf("%s: a nested call returned %s; the same value converted on its own gives %s", desc, g, wantI))
								break
							}
						}
						if len(gotI) == 0 {
							u.Class("reentrancy-hook-not-reached")
						} else {
							u.Class("reentrancy-explored")
						}
					}
				}
			}
		})
	}
}

func init() {
	// marks carried through overlapping activations of one conversion are C04's business too
	c04Extras = append(c04Extras, c08Reentrancy)
}
