package main

import (
	"fmt"

	"github.com/zclconf/go-cty/cty"
)

// Differential checking of stdlib functions against boring reference
// implementations (C13, C14).

type refKind int

const (
	refUnspec refKind = iota // the documentation does not determine the outcome: nothing compared
	refOK                    // the call must succeed with exactly V (value and type)
	refErr                   // the arguments are outside the documented domain: the call must fail
)

type refResult struct {
	K refKind
	V cty.Value
	// Cmp, when set, replaces the RawEquals comparison (used for float64
	// results judged to a tolerance); it returns "" when got is acceptable.
	Cmp func(got cty.Value) string
	Why string // for refErr: which domain rule
}

func rOK(v cty.Value) refResult                   { return refResult{K: refOK, V: v} }
func rErr(why string) refResult                   { return refResult{K: refErr, Why: why} }
func rUnspec(why string) refResult                { return refResult{K: refUnspec, Why: why} }
func rCmp(f func(got cty.Value) string) refResult { return refResult{K: refOK, Cmp: f} }

type refFn func(args []cty.Value) refResult

var (
	refsC13 = map[string]refFn{}
	refsC14 = map[string]refFn{}
)

func stdFnByName(n string) *stdFn {
	for _, f := range stdFns {
		if f.Name == n {
			return f
		}
	}
	return nil
}

// safeRef runs a reference under recover: a reference that cannot cope with
// an argument shape answers Unspecified (never an alarm).
func safeRef(f refFn, args []cty.Value) (r refResult) {
	defer func() {
		if p := recover(); p != nil {
			r = rUnspec(fmt.Sprintf("reference gave up: %v", p))
		}
	}()
	return f(args)
}

// nullVariants returns base plus, for parameters that accept null, the lists
// obtained by replacing one argument by a null of its type.
func nullVariants(fn *stdFn, base []cty.Value) [][]cty.Value {
	out := [][]cty.Value{base}
	for i := range base {
		p := fn.paramAt(i)
		if p == nil || !p.AllowNull {
			continue
		}
		a := append([]cty.Value(nil), base...)
		a[i] = cty.NullVal(base[i].Type())
		out = append(out, a)
	}
	return out
}

func runRefDiff(c *Ctx, refs map[string]refFn, cap int) {
	for _, fn := range stdFns {
		ref, ok := refs[fn.Name]
		if !ok {
			continue
		}
		fn := fn
		var buf [][]cty.Value
		flush := func() {
			if len(buf) == 0 {
				return
			}
			lists := buf
			buf = nil
			c.Unit(func(u *U) {
				for _, base := range lists {
					for _, args := range nullVariants(fn, base) {
						refDiffOne(u, fn, ref, args)
					}
				}
			})
		}
		// the reference checks are cheap per case: both tiers use the larger
		// alphabets, the thorough tier additionally the generated (deep) ones
		fn.baseLists(true, cap, func(args []cty.Value) {
			buf = append(buf, args)
			if len(buf) >= 50 {
				flush()
			}
		})
		flush()
	}
}

func refDiffOne(u *U, fn *stdFn, ref refFn, args []cty.Value) {
	u.Eval(1)
	name := fn.Name
	r := safeRef(ref, args)
	if r.K == refUnspec {
		u.Class("unspecified")
		return
	}
	u.DistinctN(1)
	o := callStd(fn.F, args)
	desc := func() string { return name + "(" + argsStr(args) + ")" }
	switch r.K {
	case refErr:
		u.Class("reference-domain-error")
		if o.OK() {
			u.Violation(name+".accepts-outside-domain", shapesStr(args), fmt.Sprintf("%s is outside the documented domain (%s) but returned %s", desc(), r.Why, goStr(o.V)))
		}
	case refOK:
		u.Class("reference-ok")
		if !o.OK() {
			msg := o.Panic
			if o.Err != nil {
				msg = firstLineOf(o.Err.Error())
			}
			want := "(custom comparison)"
			if r.Cmp == nil {
				want = goStr(r.V)
			}
			u.Violation(name+".rejects-inside-domain", shapesStr(args), fmt.Sprintf("%s failed (%s) but the reference gives %s", desc(), msg, want))
			return
		}
		if r.Cmp != nil {
			if why := r.Cmp(o.V); why != "" {
				u.Violation(name+".differs-from-reference", shapesStr(args), fmt.Sprintf("%s = %s: %s", desc(), goStr(o.V), why))
			}
			return
		}
		if !rawEq(o.V, r.V) {
			site := name + ".differs-from-reference"
			if !o.V.Type().Equals(r.V.Type()) {
				site = name + ".result-type"
			}
			u.Violation(site, shapesStr(args), fmt.Sprintf("%s = %s, the reference gives %s", desc(), goStr(o.V), goStr(r.V)))
		}
		if u.WantSample() {
			u.Sample(map[string]string{"call": desc(), "result": goStr(o.V)})
		}
	}
}

// ---------------------------------------------------------------------------
// helpers shared by the references

// wholeInt returns the value of a known number as an int when it is a whole
// number within +-2^31; ok=false otherwise (fractional, infinite or huge).
func wholeInt(v cty.Value) (n int, whole bool, small bool) {
	f := bf(v)
	if f.IsInf() || !f.IsInt() {
		return 0, false, false
	}
	i, acc := f.Int64()
	if acc != 0 || i > 1<<31 || i < -(1<<31) {
		return 0, true, false
	}
	return int(i), true, true
}

func isSeq(t cty.Type) bool { return t.IsListType() || t.IsTupleType() || t.IsSetType() }

func isPrimitiveTy(t cty.Type) bool { return t == cty.String || t == cty.Number || t == cty.Bool }

// seqElems returns the members of a known non-null list/tuple/set.
func seqElems(v cty.Value) []cty.Value {
	if v.LengthInt() == 0 {
		return nil
	}
	return v.AsValueSlice()
}

// mkList builds a list of the given element type (empty or not).
func mkList(ety cty.Type, ms []cty.Value) cty.Value {
	if len(ms) == 0 {
		return cty.ListValEmpty(ety)
	}
	return cty.ListVal(ms)
}

func mkSet(ety cty.Type, ms []cty.Value) cty.Value {
	if len(ms) == 0 {
		return cty.SetValEmpty(ety)
	}
	return cty.SetVal(ms)
}

func mkMap(ety cty.Type, m map[string]cty.Value) cty.Value {
	if len(m) == 0 {
		return cty.MapValEmpty(ety)
	}
	return cty.MapVal(m)
}

func refHas(ms []cty.Value, x cty.Value) bool {
	for _, m := range ms {
		if refRawEq(m, x) {
			return true
		}
	}
	return false
}
