package main

import (
	"fmt"
	"regexp"
	"runtime/metrics"
	"strings"

	"github.com/zclconf/go-cty/cty"
	ctyjson "github.com/zclconf/go-cty/cty/json"
	ctymsgpack "github.com/zclconf/go-cty/cty/msgpack"
)

func init() {
	register(&Check{
		ID:    "C17",
		Level: "fault_enumeration",
		Rule: "seeds = valid JSON / msgpack encodings of generated values under generated constraints (the C15/C16 universes, incl. refined unknowns) + amplification seeds (deep nesting, long strings, length headers of 10^k and 2^32-1 elements, oversize extension bodies); " +
			"faults = every single mutation of every seed (each position: set to each of a format-significant byte alphabet, flip each bit, delete, insert each alphabet byte, truncate), thorough: every pair of mutations on seeds <= 24 bytes; plus every raw byte string of length <= 2 (thorough <= 3 for msgpack, and all strings of length <= 5 over a 20-symbol JSON alphabet); " +
			"each input x 10 target types (equal, related, unrelated, with placeholders) x the five decoders, executed in memory-limited worker processes with a journal; evaluations = (decoder, input, target) triples, all different by construction; distinct_nontrivial counts those the decoder ACCEPTED (a value or type came back and was walked for well-formedness and conformance); rejected inputs only exercise the no-panic / memory clauses",
		Assumptions: []string{
			"allocation during a call is measured with the runtime's cumulative heap-allocation counter; the bound is 16 MiB + 1 KiB per input byte (the msgpack library reads length-prefixed data in chunks of up to 1 MB, a constant overhead)",
			"a worker process that dies (fatal runtime error, out of memory under a 4 GiB address-space limit) is attributed to the unit named in its journal and is a violation",
			"well-formedness of results is the C06 walk; conformance is the structural model",
		},
		MemLimitMB:       4096,
		CrashIsViolation: true,
		Run:              runC17,
	})
}

var allocSample = []metrics.Sample{{Name: "/gc/heap/allocs:bytes"}}

func heapAllocs() uint64 {
	metrics.Read(allocSample)
	return allocSample[0].Value.Uint64()
}

var jsonSig = []byte(`{}[]",:-+.eE0129ntfu\ ` + "\x00\x80\xff\n")
var msgpackSig = []byte{0x00, 0x01, 0x7f, 0x80, 0x81, 0x8f, 0x90, 0x91, 0x9f, 0xa0, 0xa1, 0xbf, 0xc0, 0xc1, 0xc2, 0xc3, 0xc4, 0xc6, 0xc7, 0xc9, 0xca, 0xcb, 0xcc, 0xcf, 0xd0, 0xd3, 0xd4, 0xd8, 0xd9, 0xdb, 0xdc, 0xdd, 0xde, 0xdf, 0xe0, 0xff, 0x0c, 0x02, 0x03, 0x04, 0x05, 0x06}

// mutate1 calls emit for every single mutation of seed.
func mutate1(seed []byte, sig []byte, emit func(b []byte, kind string)) {
	n := len(seed)
	for i := 0; i < n; i++ {
		for _, s := range sig {
			if s != seed[i] {
				b := append([]byte(nil), seed...)
				b[i] = s
				emit(b, "set")
			}
		}
		for bit := 0; bit < 8; bit++ {
			b := append([]byte(nil), seed...)
			b[i] ^= 1 << bit
			emit(b, "flip")
		}
		emit(append(append([]byte(nil), seed[:i]...), seed[i+1:]...), "delete")
		emit(append([]byte(nil), seed[:i]...), "truncate")
	}
	for i := 0; i <= n; i++ {
		for _, s := range sig {
			b := make([]byte, 0, n+1)
			b = append(b, seed[:i]...)
			b = append(b, s)
			b = append(b, seed[i:]...)
			emit(b, "insert")
		}
	}
}

var panicNorm = regexp.MustCompile(`[0-9]+|0x[0-9a-f]+|"[^"]*"`)

func panicClass(p string) string {
	p = firstLineOf(p)
	p = panicNorm.ReplaceAllString(p, "N")
	if len(p) > 90 {
		p = p[:90]
	}
	return p
}

type c17Targets struct {
	tys   []cty.Type
	names []string
}

func c17TargetTypes(own []*TS) c17Targets {
	base := []*TS{
		tsDyn, tsStr, tsNum, tsBool, tList(tsDyn), tSet(tsStr), tMap(tsBool), tTuple(tsNum, tsStr), tObj(at("a", tsStr)), tObj(at("a", tsDyn), at("b", tList(tsNum))),
		tList(tList(tsDyn)), tMap(tsDyn), tTuple(tsDyn), tSet(tTuple(tsStr, tsNum)),
	}
	var out c17Targets
	seen := map[string]bool{}
	for _, t := range append(own, base...) {
		if seen[t.Canon()] {
			continue
		}
		seen[t.Canon()] = true
		out.tys = append(out.tys, t.Build())
		out.names = append(out.names, t.Canon())
	}
	return out
}

type c17Seed struct {
	b    []byte
	own  []*TS // the constraint and the value's type
	name string
}

func c17SeedValues(thorough bool) []struct {
	v  cty.Value
	ct *TS
} {
	var out []struct {
		v  cty.Value
		ct *TS
	}
	types := []*TS{
		tsBool, tsNum, tsStr, tList(tsStr), tSet(tsNum), tMap(tsStr), tTuple(tsStr, tsNum), tObj(at("a", tsStr), at("b", tsNum)),
		tList(tObj(at("a", tsStr))), tMap(tList(tsStr)), tTuple(tList(tsStr), tObj(at("a", tsNum))), tSet(tTuple(tsStr, tsNum)),
	}
	for _, t := range types {
		o := defaultValOpts(false)
		o.Nums = []cty.Value{cty.Zero, cty.NumberIntVal(-1), cty.NumberIntVal(300), cty.NumberFloatVal(2.5), cty.NumberUIntVal(1 << 63), parseNum("0.1"), parseNum("18446744073709551617")}
		o.Strs = []string{"", "a", "é", "\U0001F44D\U0001F3FD"}
		o.NestNums = o.Nums[:4]
		o.NestStrs = []string{"a", "é"}
		o.CapPerTy = 5
		if thorough {
			o.CapPerTy = 9
		}
		vals := codecKnownValues(t, o, true)
		cons := dynVariants(t, 3)
		for _, v := range vals {
			for _, ct := range cons {
				out = append(out, struct {
					v  cty.Value
					ct *TS
				}{v, ct})
			}
		}
	}
	return out
}

func c17Seeds(format string, thorough bool) []c17Seed {
	var seeds []c17Seed
	seen := map[string]bool{}
	add := func(b []byte, own []*TS, name string) {
		if b == nil || seen[string(b)] {
			return
		}
		seen[string(b)] = true
		seeds = append(seeds, c17Seed{b, own, name})
	}
	for _, s := range c17SeedValues(thorough) {
		own := []*TS{s.ct, tsOf(s.v.Type())}
		switch format {
		case "json":
			if b, err := ctyjson.Marshal(s.v, s.ct.Build()); err == nil {
				add(b, own, "value")
			}
		case "msgpack":
			if b, err := ctymsgpack.Marshal(s.v, s.ct.Build()); err == nil {
				add(b, own, "value")
			}
		case "jsontype":
			if b, err := ctyjson.MarshalType(s.v.Type()); err == nil {
				add(b, nil, "type")
			}
		}
	}
	// collections of an object type with optional attributes: null / unknown members next to
	// members that omit the optional attribute (decoded members carry plain object types, null
	// and unknown members are built from the constraint: they must still agree)
	{
		optObj := tObj(at("a", tsStr), ato("b", tsNum))
		own := []*TS{tList(optObj), tSet(optObj), tMap(optObj), tTuple(tList(optObj)), tList(tList(optObj)), tObj(at("k", tList(optObj))), tList(tObj(at("o", optObj))), tList(tObj(ato("x", tsDyn)))}
		switch format {
		case "json":
			for _, d := range []string{`[null,{"a":"x"}]`, `[{"a":"x"},null]`, `[{"a":"x","b":1},null,{"a":"y"}]`, `{"k":null,"j":{"a":"x","b":1}}`, `{"k":{"a":"x"},"j":null}`, `[[null,{"a":"x"}]]`, `[{"a":"x"}]`, `[null]`,
				`{"k":[null,{"a":"x"}]}`, `[{"o":null},{"o":{"a":"x"}}]`, `[null,{"a":null}]`, `[{"a":"x","b":null},{"a":"y"}]`} {
				add([]byte(d), own, "optional-attrs")
			}
		case "msgpack":
			obj := []byte{0x81, 0xa1, 'a', 0xa1, 'x'}
			objFull := []byte{0x82, 0xa1, 'a', 0xa1, 'y', 0xa1, 'b', 0x01}
			unk := []byte{0xd4, 0x00, 0x00}
			cat := func(parts ...[]byte) []byte {
				var out []byte
				for _, p := range parts {
					out = append(out, p...)
				}
				return out
			}
			for _, b := range [][]byte{
				cat([]byte{0x92, 0xc0}, obj), cat([]byte{0x92}, obj, []byte{0xc0}), cat([]byte{0x93}, objFull, []byte{0xc0}, obj), cat([]byte{0x92}, unk, obj), cat([]byte{0x92}, obj, unk),
				cat([]byte{0x82, 0xa1, 'k', 0xc0, 0xa1, 'j'}, objFull), cat([]byte{0x82, 0xa1, 'k'}, obj, []byte{0xa1, 'j'}, unk), cat([]byte{0x91, 0x92, 0xc0}, obj), cat([]byte{0x91}, obj), {0x91, 0xc0},
				cat([]byte{0x81, 0xa1, 'k', 0x92, 0xc0}, obj), cat([]byte{0x92, 0x81, 0xa1, 'o', 0xc0, 0x81, 0xa1, 'o'}, obj),
			} {
				add(b, own, "optional-attrs")
			}
		}
	}
	// spliced documents: a collection whose members were encoded separately, each against the
	// element constraint, so that members carry DIFFERENT concrete types where the constraint
	// has a placeholder below the collection level (the decoder must unify them or fail)
	if format == "json" || format == "msgpack" {
		type ev struct {
			con  *TS
			vals []cty.Value
		}
		S, N := cty.StringVal, cty.NumberIntVal
		elems := []ev{
			{tObj(at("v", tsDyn)), []cty.Value{cty.ObjectVal(map[string]cty.Value{"v": S("x")}), cty.ObjectVal(map[string]cty.Value{"v": cty.True}), cty.ObjectVal(map[string]cty.Value{"v": cty.ListVal([]cty.Value{N(1)})}), cty.ObjectVal(map[string]cty.Value{"v": cty.NullVal(cty.Number)})}},
			{tList(tsDyn), []cty.Value{cty.ListVal([]cty.Value{S("a")}), cty.ListVal([]cty.Value{N(1)}), cty.ListValEmpty(cty.Bool), cty.ListVal([]cty.Value{cty.EmptyObjectVal})}},
			{tTuple(tsDyn), []cty.Value{cty.TupleVal([]cty.Value{S("a")}), cty.TupleVal([]cty.Value{N(1)}), cty.TupleVal([]cty.Value{cty.EmptyTupleVal})}},
			{tMap(tsDyn), []cty.Value{cty.MapVal(map[string]cty.Value{"k": S("a")}), cty.MapVal(map[string]cty.Value{"k": cty.False}), cty.MapValEmpty(cty.Number)}},
			{tsDyn, []cty.Value{S("a"), N(1), cty.True, cty.ListVal([]cty.Value{S("a")}), cty.EmptyObjectVal, cty.NullVal(cty.String)}},
		}
		for _, e := range elems {
			var frags [][]byte
			for _, v := range e.vals {
				var b []byte
				var err error
				if format == "json" {
					b, err = ctyjson.Marshal(v, e.con.Build())
				} else {
					b, err = ctymsgpack.Marshal(v, e.con.Build())
				}
				if err == nil {
					frags = append(frags, b)
				}
			}
			for i := range frags {
				for j := range frags {
					var seq, mp []byte
					if format == "json" {
						seq = []byte("[" + string(frags[i]) + "," + string(frags[j]) + "]")
						mp = []byte(`{"k1":` + string(frags[i]) + `,"k2":` + string(frags[j]) + "}")
					} else {
						seq = append(append([]byte{0x92}, frags[i]...), frags[j]...)
						mp = append(append(append(append([]byte{0x82, 0xa2, 'k', '1'}, frags[i]...), 0xa2, 'k', '2'), frags[j]...))
					}
					add(seq, []*TS{tList(e.con), tSet(e.con), tTuple(e.con, e.con)}, "spliced-sequence")
					add(mp, []*TS{tMap(e.con), tObj(at("k1", e.con), at("k2", e.con))}, "spliced-map")
				}
			}
		}
	}
	if format == "msgpack" {
		// refined unknowns
		for _, ty := range []cty.Type{cty.Number, cty.String, cty.List(cty.String)} {
			for i, u := range unknownAlphabet(ty, false) {
				if i > 14 && i%6 != 0 {
					continue
				}
				if b, err := ctymsgpack.Marshal(u, ty); err == nil && len(b) < 80 {
					add(b, []*TS{tsOf(ty)}, "unknown")
				}
				if b, err := ctymsgpack.Marshal(cty.TupleVal([]cty.Value{u}), cty.Tuple([]cty.Type{cty.DynamicPseudoType})); err == nil && len(b) < 80 {
					add(b, []*TS{tTuple(tsDyn)}, "unknown-under-dynamic")
				}
			}
		}
	}
	// a JSON null where a type description is expected, at every depth of a type description
	nullTypes := []string{`null`, `["list",null]`, `["set",null]`, `["map",["list",null]]`, `["tuple",["string",null]]`, `["tuple",[null]]`, `["object",{"a":null}]`, `["object",{"a":"string","b":["list",null]}]`, `["object",{"a":"string"},null]`, `["list",["object",{"a":null},["a"]]]`}
	switch format {
	case "jsontype":
		for _, nt := range nullTypes {
			add([]byte(nt), nil, "type-with-null")
		}
	case "json":
		for _, nt := range nullTypes {
			add([]byte(`{"type":`+nt+`,"value":[]}`), []*TS{tsDyn}, "wrapper-with-null-type")
			add([]byte(`{"value":["x"],"type":`+nt+`}`), []*TS{tsDyn, tList(tsDyn)}, "wrapper-with-null-type")
			add([]byte(`[{"value":{"a":"x"},"type":`+nt+`}]`), []*TS{tList(tsDyn), tTuple(tsDyn)}, "wrapper-with-null-type")
		}
	case "msgpack":
		for _, nt := range nullTypes {
			if len(nt) > 255 {
				continue
			}
			hdr := append([]byte{0x92, 0xc4, byte(len(nt))}, nt...)
			add(append(append([]byte(nil), hdr...), 0x90), []*TS{tsDyn}, "wrapper-with-null-type")
			add(append(append([]byte(nil), hdr...), 0x91, 0xa1, 'x'), []*TS{tsDyn, tList(tsDyn)}, "wrapper-with-null-type")
			add(append(append([]byte(nil), hdr...), 0x81, 0xa1, 'a', 0xa1, 'x'), []*TS{tsDyn}, "wrapper-with-null-type")
			add(append([]byte{0x91}, append(append([]byte(nil), hdr...), 0xc0)...), []*TS{tList(tsDyn), tTuple(tsDyn)}, "wrapper-with-null-type")
		}
	}
	if format == "jsontype" {
		for _, t := range []*TS{tObj(ato("a", tsStr), at("b", tsNum)), tList(tObj(ato("x", tsDyn))), tTuple(tsDyn, tMap(tSet(tsBool))), tsDyn} {
			if b, err := ctyjson.MarshalType(t.Build()); err == nil {
				add(b, nil, "type")
			}
		}
	}
	return seeds
}

// amplification inputs: small inputs that claim or imply large structures.
func c17Amplifiers(format string) []c17Seed {
	var out []c17Seed
	be32 := func(n uint32) []byte { return []byte{byte(n >> 24), byte(n >> 16), byte(n >> 8), byte(n)} }
	switch format {
	case "msgpack":
		for _, n := range []uint32{10, 1000, 100000, 10000000, 1 << 30, 1<<32 - 1} {
			for _, code := range []byte{0xdd, 0xdf, 0xdb, 0xc6, 0xc9} { // array32 map32 str32 bin32 ext32
				b := append([]byte{code}, be32(n)...)
				if code == 0xc9 {
					b = append(b, 0x0c)
				}
				out = append(out, c17Seed{b, nil, fmt.Sprintf("header-%02x-%d", code, n)})
				out = append(out, c17Seed{append(append([]byte(nil), b...), 0x01, 0xa1, 'a', 0xc0), nil, fmt.Sprintf("header-%02x-%d+", code, n)})
				out = append(out, c17Seed{append([]byte{0x91}, b...), nil, fmt.Sprintf("nested-header-%02x-%d", code, n)})
				out = append(out, c17Seed{append([]byte{0x81, 0xa1, 'a'}, b...), nil, fmt.Sprintf("map-header-%02x-%d", code, n)})
			}
			out = append(out, c17Seed{[]byte{0xdc, byte(n >> 8), byte(n)}, nil, "array16"})
			out = append(out, c17Seed{[]byte{0xde, byte(n >> 8), byte(n)}, nil, "map16"})
		}
		for _, depth := range []int{10, 100, 1000, 3000} {
			out = append(out, c17Seed{append([]byte(strings.Repeat("\x91", depth)), 0xc0), nil, fmt.Sprintf("nest-array-%d", depth)})
			out = append(out, c17Seed{append([]byte(strings.Repeat("\x81\xa1a", depth)), 0xc0), nil, fmt.Sprintf("nest-map-%d", depth)})
			// dynamic wrappers nested
			out = append(out, c17Seed{append([]byte(strings.Repeat("\x92\xc4\x09\"dynamic\"", depth)), 0xc0), nil, fmt.Sprintf("nest-dynamic-%d", depth)})
		}
		// refinement payloads of unknown values: length bounds (equal, so that the value's length is
		// "known"), alone, with not-null, nested in an array, and number bounds with huge exponents
		for _, n := range []uint64{1025, 1 << 16, 1 << 24, 1<<31 - 1, 1 << 40, 1<<63 - 1} {
			enc := []byte{0xcf, byte(n >> 56), byte(n >> 48), byte(n >> 40), byte(n >> 32), byte(n >> 24), byte(n >> 16), byte(n >> 8), byte(n)}
			ext := func(body []byte) []byte { return append([]byte{0xc7, byte(len(body)), 0x0c}, body...) }
			both := ext(append(append(append([]byte{0x83, 0x01, 0xc2, 0x05}, enc...), 0x06), enc...))
			onlyLens := ext(append(append(append([]byte{0x82, 0x05}, enc...), 0x06), enc...))
			lower := ext(append([]byte{0x82, 0x01, 0xc2, 0x05}, enc...))
			for _, tn := range []struct {
				b    []byte
				name string
			}{{both, "notnull+equal-length-bounds"}, {onlyLens, "equal-length-bounds"}, {lower, "length-lower-bound"}} {
				own := []*TS{tList(tsStr), tSet(tsNum), tMap(tsStr), tList(tList(tsStr))}
				out = append(out, c17Seed{tn.b, own, fmt.Sprintf("refinement-%s-%d", tn.name, n)})
				out = append(out, c17Seed{append([]byte{0x91}, tn.b...), own, fmt.Sprintf("nested-refinement-%s-%d", tn.name, n)})
			}
		}
		// every refinement map of up to four entries over a small entry alphabet, repeated and
		// contradictory keys included (an encoder never writes those; a decoder that tracks the
		// bounds itself must agree with the builder on which entry wins)
		{
			const n = 1 << 22
			u64 := func(v uint64) []byte {
				return []byte{0xcf, byte(v >> 56), byte(v >> 48), byte(v >> 40), byte(v >> 32), byte(v >> 24), byte(v >> 16), byte(v >> 8), byte(v)}
			}
			entries := [][]byte{
				{0x01, 0xc2},
				append([]byte{0x05}, u64(n)...), append([]byte{0x06}, u64(n)...),
				{0x05, 0x00}, {0x06, 0x00}, {0x05, 0x01}, append([]byte{0x06}, u64(n+1)...),
			}
			names := []string{"notnull", "min=n", "max=n", "min=0", "max=0", "min=1", "max=n+1"}
			own := []*TS{tList(tsStr), tList(tList(tsStr))}
			var rec func(body []byte, name string, k int)
			rec = func(body []byte, name string, k int) {
				if k > 0 {
					full := append([]byte{0x80 | byte(k)}, body...)
					ext := append([]byte{0xc7, byte(len(full)), 0x0c}, full...)
					out = append(out, c17Seed{ext, own, "refinement-map[" + name + "]"})
					if k >= 3 {
						out = append(out, c17Seed{append([]byte{0x91}, ext...), own, "nested-refinement-map[" + name + "]"})
					}
				}
				if k == 4 {
					return
				}
				for i, e := range entries {
					rec(append(append([]byte(nil), body...), e...), name+" "+names[i], k+1)
				}
			}
			rec(nil, "", 0)
		}
		out = append(out, c17Seed{append([]byte{0xdb, 0, 1, 0, 0}, []byte(strings.Repeat("a", 65536))...), nil, "long-string"})
		out = append(out, c17Seed{[]byte{0xcb, 0x7f, 0xf8, 0, 0, 0, 0, 0, 1}, nil, "nan"}, c17Seed{[]byte{0xca, 0x7f, 0xc0, 0, 0}, nil, "nan32"}, c17Seed{[]byte{0x91, 0xcb, 0xff, 0xf8, 0, 0, 0, 0, 0}, nil, "nan-in-array"})
		out = append(out, c17Seed{[]byte{0x90}, nil, "empty-array"}, c17Seed{[]byte{0x80}, nil, "empty-map"}, c17Seed{[]byte{0xc7, 0x00, 0x0c}, nil, "empty-ext"})
	case "json", "jsontype":
		for _, depth := range []int{10, 100, 1000, 3000} {
			out = append(out, c17Seed{[]byte(strings.Repeat("[", depth) + strings.Repeat("]", depth)), nil, fmt.Sprintf("nest-array-%d", depth)})
			out = append(out, c17Seed{[]byte(strings.Repeat(`{"a":`, depth) + "null" + strings.Repeat("}", depth)), nil, fmt.Sprintf("nest-object-%d", depth)})
			out = append(out, c17Seed{[]byte(strings.Repeat("[", depth)), nil, fmt.Sprintf("open-array-%d", depth)})
			out = append(out, c17Seed{[]byte(strings.Repeat(`{"value":`, depth) + "1" + strings.Repeat(`,"type":"number"}`, depth)), nil, fmt.Sprintf("nest-dynamic-%d", depth)})
			out = append(out, c17Seed{[]byte(strings.Repeat(`["list",`, depth) + `"string"` + strings.Repeat("]", depth)), nil, fmt.Sprintf("nest-type-%d", depth)})
		}
		out = append(out, c17Seed{[]byte(`"` + strings.Repeat("a", 65536) + `"`), nil, "long-string"})
		out = append(out, c17Seed{[]byte("1e999999999"), nil, "huge-exponent"}, c17Seed{[]byte("1e-999999999"), nil, "tiny-exponent"}, c17Seed{[]byte("-1E+400"), nil, "big-exponent"})
		out = append(out, c17Seed{[]byte(strings.Repeat("9", 100000)), nil, "long-number"}, c17Seed{[]byte("0." + strings.Repeat("1", 100000)), nil, "long-fraction"})
		out = append(out, c17Seed{[]byte(`["object",{"a":"string"},["b"]]`), nil, "optional-undeclared"}, c17Seed{[]byte(`["object",{"a":"string"},["a","a"]]`), nil, "optional-twice"},
			c17Seed{[]byte(`["tuple",[]]`), nil, "empty-tuple-type"}, c17Seed{[]byte(`["object",{}]`), nil, "empty-object-type"}, c17Seed{[]byte(`["capsule","x"]`), nil, "capsule-type"})
	}
	return out
}

type c17Decoder struct {
	name   string
	format string
	typed  bool // takes a target type
	call   func(b []byte, ty cty.Type) (cty.Value, cty.Type, error)
}

var c17Decoders = []c17Decoder{
	{"json.Unmarshal", "json", true, func(b []byte, ty cty.Type) (cty.Value, cty.Type, error) {
		v, err := ctyjson.Unmarshal(b, ty)
		return v, cty.NilType, err
	}},
	{"json.ImpliedType", "json", false, func(b []byte, _ cty.Type) (cty.Value, cty.Type, error) {
		t, err := ctyjson.ImpliedType(b)
		return cty.NilVal, t, err
	}},
	{"json.UnmarshalType", "jsontype", false, func(b []byte, _ cty.Type) (cty.Value, cty.Type, error) {
		t, err := ctyjson.UnmarshalType(b)
		return cty.NilVal, t, err
	}},
	{"msgpack.Unmarshal", "msgpack", true, func(b []byte, ty cty.Type) (cty.Value, cty.Type, error) {
		v, err := ctymsgpack.Unmarshal(b, ty)
		return v, cty.NilType, err
	}},
	{"msgpack.ImpliedType", "msgpack", false, func(b []byte, _ cty.Type) (cty.Value, cty.Type, error) {
		t, err := ctymsgpack.ImpliedType(b)
		return cty.NilVal, t, err
	}},
}

// c17One runs one decoder call and applies the oracle.
func c17One(u *U, d *c17Decoder, b []byte, ty cty.Type, tyName string, origin string) {
	u.Eval(1)
	before := heapAllocs()
	var v cty.Value
	var rt cty.Type
	var err error
	pan := func() (pan string) {
		defer func() {
			if r := recover(); r != nil {
				pan = fmt.Sprint(r)
			}
		}()
		v, rt, err = d.call(b, ty)
		return ""
	}()
	delta := heapAllocs() - before
	in := func() string {
		if len(b) > 60 {
			return fmt.Sprintf("%q… (%d bytes)", b[:60], len(b))
		}
		return fmt.Sprintf("%q", b)
	}
	if pan != "" {
		u.Violation(d.name+".panics", panicClass(pan), fmt.Sprintf("%s(%s, %s) panicked: %s [%s]", d.name, in(), tyName, firstLineOf(pan), origin))
		return
	}
	if limit := uint64(16<<20 + 1024*len(b)); delta > limit {
		u.Violation(d.name+".memory", origin, fmt.Sprintf("%s(%s, %s) allocated %d bytes for a %d-byte input (bound %d) [%s]", d.name, in(), tyName, delta, len(b), limit, origin))
	}
	if err != nil {
		u.Class("error")
		return
	}
	u.Class("accepted")
	u.DistinctN(1)
	if u.WantSample() {
		u.Sample(map[string]string{"decoder": d.name, "input": fmt.Sprintf("%q", b), "target": tyName, "origin": origin, "outcome": "accepted"})
	}
	if d.typed {
		// a requested type that itself carries optional-attribute annotations (a hand-built
		// constraint) comes back in the types of null and empty results: the caller's doing
		oldTol := wfTolerateOpt
		wfTolerateOpt = tsOf(ty).HasOpt()
		why := wf(v)
		wfTolerateOpt = oldTol
		if why != "" {
			u.Violation(d.name+".malformed", tyName, fmt.Sprintf("%s(%s, %s) returned a malformed value %s: %s", d.name, in(), tyName, goStr(v), why))
			return
		}
		if !refConforms(tsOf(v.Type()), tsOf(ty)) {
			u.Violation(d.name+".nonconforming", tyName, fmt.Sprintf("%s(%s, %s) returned %s whose type does not conform to the requested type", d.name, in(), tyName, goStr(v)))
		}
		return
	}
	// type decoders: the type must be usable
	why := func() (why string) {
		defer func() {
			if r := recover(); r != nil {
				why = fmt.Sprintf("type accessors panicked: %v", r)
			}
		}()
		if rt == cty.NilType {
			return "NilType without an error"
		}
		tm := tsOf(rt)
		if e := wfType(tm); e != "" {
			return e
		}
		_ = rt.GoString()
		_ = cty.UnknownVal(rt)
		_ = cty.NullVal(rt.WithoutOptionalAttributesDeep())
		return ""
	}()
	if why != "" {
		u.Violation(d.name+".malformed-type", "type", fmt.Sprintf("%s(%s) returned an unusable type: %s", d.name, in(), why))
	}
}

func runC17(c *Ctx) {
	// history clause first, so that each worker process meets it in its initial state
	histFamily(c, "msgpack decoder calls", func() []histOp { return decodeHistoryOps("msgpack") })
	histFamily(c, "json decoder calls", func() []histOp { return decodeHistoryOps("json") })
	dynT := c17TargetTypes(nil)
	for di := range c17Decoders {
		d := &c17Decoders[di]
		sig := jsonSig
		if d.format == "msgpack" {
			sig = msgpackSig
		}
		runInputs := func(u *U, b []byte, own []*TS, origin string) {
			if !d.typed {
				c17One(u, d, b, cty.NilType, "-", origin)
				return
			}
			tg := dynT
			if own != nil {
				tg = c17TargetTypes(own)
			}
			for i, ty := range tg.tys {
				c17One(u, d, b, ty, tg.names[i], origin)
			}
		}
		// amplifiers, unmutated (one unit each: a crash names the input)
		for _, s := range c17Amplifiers(d.format) {
			s := s
			c.Unit(func(u *U) { runInputs(u, s.b, s.own, "amplifier:"+s.name) })
		}
		// seeds and their single mutations
		seeds := c17Seeds(d.format, c.Thorough)
		c.Note("seeds_"+d.name, fmtInt(len(seeds)))
		for _, s := range seeds {
			s := s
			c.Unit(func(u *U) {
				runInputs(u, s.b, s.own, "seed:"+s.name)
				mutate1(s.b, sig, func(b []byte, kind string) {
					if c.Stopped() {
						return
					}
					runInputs(u, b, s.own, "seed:"+s.name+"+"+kind)
				})
			})
		}
		// pairs of mutations on short seeds
		if c.Thorough {
			small := sig
			if len(small) > 14 {
				small = append([]byte(nil), sig[:14]...)
			}
			for _, s := range seeds {
				if len(s.b) > 24 {
					continue
				}
				s := s
				c.Unit(func(u *U) {
					own := s.own
					if len(own) > 1 {
						own = own[:1]
					}
					mutate1(s.b, small, func(b1 []byte, k1 string) {
						if c.Stopped() || k1 == "insert" {
							return
						}
						mutate1(b1, small, func(b2 []byte, k2 string) {
							if k2 == "insert" || k2 == "truncate" {
								return
							}
							if !d.typed {
								c17One(u, d, b2, cty.NilType, "-", "seed+2")
								return
							}
							tg := c17TargetTypes(own)
							for i := 0; i < len(tg.tys) && i < 3; i++ {
								c17One(u, d, b2, tg.tys[i], tg.names[i], "seed+2")
							}
						})
					})
				})
			}
		}
		// raw inputs
		if d.format == "msgpack" {
			maxLen := 2
			if c.Thorough {
				maxLen = 3
			}
			for first := 0; first < 256; first++ {
				first := first
				c.Unit(func(u *U) {
					var rec func(cur []byte)
					rec = func(cur []byte) {
						runInputs(u, cur, nil, "raw")
						if len(cur) == maxLen || c.Stopped() {
							return
						}
						for x := 0; x < 256; x++ {
							rec(append(append([]byte(nil), cur...), byte(x)))
						}
					}
					rec([]byte{byte(first)})
				})
			}
		} else {
			alpha := []byte(`{}[]",:-.e01ntfu\ ` + "\xff")
			maxLen := 4
			if c.Thorough {
				maxLen = 5
			}
			for _, a := range alpha {
				a := a
				c.Unit(func(u *U) {
					var rec func(cur []byte)
					rec = func(cur []byte) {
						runInputs(u, cur, nil, "raw")
						if len(cur) == maxLen || c.Stopped() {
							return
						}
						for _, x := range alpha {
							rec(append(append([]byte(nil), cur...), x))
						}
					}
					rec([]byte{a})
				})
			}
		}
		c.Unit(func(u *U) { runInputs(u, []byte{}, nil, "raw") })
	}
}
