package main

import (
	"fmt"
	"strings"

	"github.com/zclconf/go-cty/cty"
	"github.com/zclconf/go-cty/cty/convert"
)

func init() {
	register(&Check{
		ID:        "C09",
		DeepQuick: true,
		Level:     "exploration",
		Rule: "every list of 1..3 types over a core of ~70 types (primitives, collections, tuples, objects with shared / disjoint / optional attributes, nestings, dynamic placeholders), every quadruple over a 16-type sub-core, in safe and unsafe mode, " +
			"x every generated value (known, null, unknown) of each input type fed through the returned conversions; distinct by the canonical strings of the type list; non-trivial = lists with at least two different types",
		Assumptions: []string{"reference conformance from the checker's type model", "values per input type: <= 9 known plus null and unknown"},
		Run:         runC09,
	})
}

func c09Core(thorough bool) []*TS {
	ts := []*TS{
		tsBool, tsNum, tsStr, tsDyn,
		tList(tsStr), tList(tsNum), tList(tsBool), tList(tsDyn), tSet(tsStr), tSet(tsNum), tSet(tsDyn), tMap(tsStr), tMap(tsNum), tMap(tsDyn),
		tTuple(), tTuple(tsStr), tTuple(tsNum), tTuple(tsStr, tsNum), tTuple(tsNum, tsStr), tTuple(tsStr, tsStr), tTuple(tsDyn), tTuple(tsBool, tsNum),
		tObj(), tObj(at("a", tsStr)), tObj(at("a", tsNum)), tObj(at("b", tsStr)), tObj(at("a", tsStr), at("b", tsNum)), tObj(at("a", tsNum), at("b", tsNum)),
		tObj(at("a", tsDyn)), tObj(at("a", tsBool), at("b", tsStr)),
		tList(tList(tsStr)), tList(tList(tsNum)), tList(tTuple(tsStr, tsNum)), tList(tObj(at("a", tsStr))), tList(tObj(at("a", tsNum))), tList(tObj(at("a", tsStr), at("b", tsNum))),
		tMap(tList(tsStr)), tMap(tObj(at("a", tsStr))), tMap(tTuple(tsNum)), tSet(tTuple(tsStr)), tSet(tObj(at("a", tsNum))),
		tTuple(tList(tsStr), tList(tsNum)), tTuple(tObj(at("a", tsStr)), tObj(at("a", tsNum))), tTuple(tTuple(tsStr), tTuple(tsNum)),
		tObj(at("a", tList(tsStr))), tObj(at("a", tList(tsNum))), tObj(at("a", tTuple(tsStr))), tObj(at("a", tObj(at("b", tsStr)))), tObj(at("a", tObj(at("b", tsNum)))),
		tObj(at("a", tMap(tsStr)), at("b", tMap(tsNum))), tObj(at("a", tObj(at("x", tsStr))), at("b", tObj(at("x", tsNum)))),
		tTuple(tMap(tsStr), tObj(at("x", tsNum))), tList(tMap(tsStr)), tList(tMap(tsNum)),
		tsCaps0,
		// width-3 tuples: a nested unification (tuple as list/set of placeholders) with more members than the outer list
		tTuple(tsStr, tsNum, tsBool), tTuple(tList(tsBool), tsNum, tsStr), tTuple(tsNum, tsBool, tsStr),
	}
	if thorough {
		ts = append(ts,
			tSet(tList(tsStr)), tSet(tList(tsNum)), tMap(tMap(tsStr)), tMap(tMap(tsNum)), tList(tSet(tsNum)), tTuple(tsNum, tsNum, tsNum),
			tObj(at("a", tsStr), at("b", tsNum), at("c", tsBool)), tObj(at("a", tTuple(tsStr, tsNum))), tObj(at("a", tList(tObj(at("b", tsStr))))),
			tList(tTuple(tsNum, tsStr)), tMap(tTuple(tsStr, tsNum)), tTuple(tObj(), tObj(at("a", tsStr))), tList(tObj()), tMap(tObj()), tsCaps1,
		)
	}
	return ts
}

func typesStr(ts []*TS) string {
	var p []string
	for _, t := range ts {
		p = append(p, t.Canon())
	}
	return strings.Join(p, " , ")
}

func runC09(c *Ctx) {
	core := c09Core(c.Thorough)
	c.Note("core_types", fmt.Sprint(len(core)))
	vals := make([][]cty.Value, len(core))
	for i, t := range core {
		vs := c08Values(t, false)
		if len(vs) > 8 {
			vs = append(vs[:7], vs[len(vs)-1])
		}
		vs = append(vs, cty.UnknownVal(t.Build()))
		vals[i] = vs
	}
	run := func(idx []int) {
		c.Unit(func(u *U) { c09One(u, core, vals, idx) })
	}
	for i := range core {
		run([]int{i})
	}
	for i := range core {
		for j := range core {
			run([]int{i, j})
		}
	}
	for i := range core {
		for j := range core {
			for k := range core {
				if c.Stopped() {
					return
				}
				run([]int{i, j, k})
			}
		}
	}
	sub := []int{}
	for i, t := range core {
		switch t.Canon() {
		case "s", "n", "d", "L(s)", "L(n)", "T[s,n]", "T[s]", "O{a:s}", "O{a:n}", "O{a:s,b:n}", "M(s)", "M(n)", "L(O{a:s})", "L(O{a:n})", "O{a:L(s)}", "T[n,s]":
			sub = append(sub, i)
		}
	}
	for _, a := range sub {
		for _, b := range sub {
			for _, cc := range sub {
				for _, d := range sub {
					run([]int{a, b, cc, d})
				}
			}
		}
	}
}

type unifyResult struct {
	ty    cty.Type
	convs []convert.Conversion
	pan   string
}

// c09Prev is the previous Unify call of this worker, re-asked after the next one.
var c09Prev struct {
	tys    []cty.Type
	unsafe bool
	sig    string
	shape  string
}

func unifySig(r unifyResult) string {
	if r.pan != "" {
		return "panic"
	}
	if r.ty == cty.NilType {
		return "no common type"
	}
	s := tsOf(r.ty).Canon() + " convs="
	for _, cv := range r.convs {
		if cv == nil {
			s += "-"
		} else {
			s += "c"
		}
	}
	return s
}

func callUnify(types []cty.Type, unsafe bool) (r unifyResult) {
	defer func() {
		if x := recover(); x != nil {
			r.pan = fmt.Sprint(x)
		}
	}()
	if unsafe {
		r.ty, r.convs = convert.UnifyUnsafe(types)
	} else {
		r.ty, r.convs = convert.Unify(types)
	}
	return
}

func c09One(u *U, core []*TS, vals [][]cty.Value, idx []int) {
	ts := make([]*TS, len(idx))
	tys := make([]cty.Type, len(idx))
	allEqual, anyDyn := true, false
	for i, k := range idx {
		ts[i] = core[k]
		tys[i] = core[k].Build()
		if core[k].Canon() != core[idx[0]].Canon() {
			allEqual = false
		}
		if core[k].HasDyn() {
			anyDyn = true
		}
	}
	shape := typesStr(ts)
	if !allEqual {
		u.DistinctN(1)
	}
	var safeOK bool
	for _, unsafe := range []bool{false, true} {
		mode := "safe"
		if unsafe {
			mode = "unsafe"
		}
		u.Eval(1)
		r := callUnify(tys, unsafe)
		// a pure function of its operands: the same answer when asked again, also after an unrelated call
		if r2 := callUnify(tys, unsafe); unifySig(r2) != unifySig(r) {
			u.Violation("unify.impure", shape, fmt.Sprintf("Unify[%s](%s) answered %s, then %s for the same types", mode, shape, unifySig(r), unifySig(r2)))
		}
		if c09Prev.tys != nil {
			if rp := callUnify(c09Prev.tys, c09Prev.unsafe); unifySig(rp) != c09Prev.sig {
				u.Violation("unify.history-dependent", c09Prev.shape, fmt.Sprintf("Unify(%s) answered %s, and after Unify[%s](%s) it answers %s", c09Prev.shape, c09Prev.sig, mode, shape, unifySig(rp)))
			}
		}
		c09Prev.tys, c09Prev.unsafe, c09Prev.sig, c09Prev.shape = tys, unsafe, unifySig(r), shape
		if r.pan != "" {
			u.Violation("unify.panics", shape, fmt.Sprintf("Unify[%s](%s) panicked: %s", mode, shape, r.pan))
			continue
		}
		if r.ty == cty.NilType {
			u.Class(mode + "-fails")
			if unsafe && safeOK && !anyDyn {
				u.Violation("unify.safe-but-not-unsafe", shape, fmt.Sprintf("Unify(%s) succeeds but UnifyUnsafe fails", shape))
			}
			if allEqual {
				u.Violation("unify.equal-types-fail", shape, fmt.Sprintf("Unify[%s] of equal types (%s) fails", mode, shape))
			}
			continue
		}
		u.Class(mode + "-ok")
		if !unsafe {
			safeOK = true
		}
		rt := tsOf(r.ty)
		if len(r.convs) != len(tys) {
			u.Violation("unify.conversions-count", shape, fmt.Sprintf("Unify[%s](%s) = %#v with %d conversions for %d types", mode, shape, r.ty, len(r.convs), len(tys)))
			continue
		}
		if allEqual {
			if rt.Canon() != ts[0].Canon() {
				u.Violation("unify.equal-types", shape, fmt.Sprintf("Unify[%s] of equal types (%s) = %#v", mode, shape, r.ty))
			}
			for i, cv := range r.convs {
				if cv != nil {
					u.Violation("unify.equal-types", shape, fmt.Sprintf("Unify[%s] of equal types (%s) returned a conversion for input %d", mode, shape, i))
				}
			}
		}
		if rt.HasOpt() {
			u.Violation("unify.optional-in-result", shape, fmt.Sprintf("Unify[%s](%s) = %#v carries optional-attribute annotations", mode, shape, r.ty))
		}
		for i, cv := range r.convs {
			isEq := ts[i].Canon() == rt.Canon()
			if cv == nil {
				if !isEq && !ts[i].HasDyn() && !rt.HasDyn() {
					u.Violation("unify.missing-conversion", shape, fmt.Sprintf("Unify[%s](%s) = %#v gives no conversion for input %d (%#v) which differs from the result", mode, shape, r.ty, i, tys[i]))
				}
				continue
			}
			if isEq && !anyDyn {
				u.Violation("unify.needless-conversion", shape, fmt.Sprintf("Unify[%s](%s) = %#v gives a conversion for input %d which already equals the result", mode, shape, r.ty, i))
			}
			if !unsafe && (!anyDyn || ts[i].K == 'd') {
				// (also for an input that is the placeholder itself: a conversion from "any type" to
				// the result must be one that is offered as safe for that pair; for inputs with nested
				// placeholders the unifier composes conversions GetConversion does not offer in one step)
				var g convert.Conversion
				_, _, pan := callConv(func() (cty.Value, error) { g = convert.GetConversion(tys[i], r.ty); return cty.NilVal, nil })
				if pan == "" && g == nil && !isEq {
					u.Violation("unify.safe-uses-unsafe", shape, fmt.Sprintf("Unify(%s) = %#v in safe mode, but no safe conversion exists from input %d (%#v)", shape, r.ty, i, tys[i]))
				}
			}
			for _, v := range vals[idx[i]] {
				u.Eval(1)
				out, err, pan := callConv(func() (cty.Value, error) { return cv(v) })
				if pan != "" {
					u.Violation("unify.conversion-panics", shape, fmt.Sprintf("Unify[%s](%s) = %#v: conversion %d applied to %s panicked: %s", mode, shape, r.ty, i, goStr(v), pan))
					continue
				}
				if err != nil {
					if !unsafe && !anyDyn {
						u.Violation("unify.safe-conversion-fails", shape, fmt.Sprintf("Unify(%s) = %#v: safe-mode conversion %d fails on %s: %v", shape, r.ty, i, goStr(v), err))
					}
					u.Class("conversion-fails")
					continue
				}
				u.Class("conversion-ok")
				ot := tsOf(out.Type())
				if !refConforms(ot, rt) || (!rt.HasDyn() && ot.Canon() != rt.Canon()) {
					u.Violation("unify.conversion-wrong-type", shape+" | "+shapeOf(v), fmt.Sprintf("Unify[%s](%s) = %#v: conversion %d applied to %s gives %s, not a value of the unified type", mode, shape, r.ty, i, goStr(v), goStr(out)))
				}
				if why := wf(out); why != "" {
					u.Violation("unify.conversion-malformed", shape+" | "+shapeOf(v), fmt.Sprintf("conversion %d of Unify[%s](%s) applied to %s gives malformed %s: %s", i, mode, shape, goStr(v), goStr(out), why))
				}
			}
		}
		if u.WantSample() {
			u.Sample(map[string]string{"types": shape, "mode": mode, "unified": r.ty.GoString()})
		}
	}
}
