//go:build verifoverlay

package main

import (
	"github.com/zclconf/go-cty/cty"
	"github.com/zclconf/go-cty/cty/convert"
	"github.com/zclconf/go-cty/cty/ctystrings"
	"github.com/zclconf/go-cty/cty/function"
	"github.com/zclconf/go-cty/cty/function/stdlib"
	"github.com/zclconf/go-cty/cty/gocty"
	ctyjson "github.com/zclconf/go-cty/cty/json"
	ctymsgpack "github.com/zclconf/go-cty/cty/msgpack"
	"github.com/zclconf/go-cty/cty/set"
)

// packageGlobals returns pointers to every package-level variable of the
// go-cty packages, through accessor files injected with `go build -overlay`
// (generated from the working tree by /verif/tools/genglobals).
func packageGlobals() map[string]map[string]interface{} {
	return map[string]map[string]interface{}{
		"cty":        cty.VerifGlobals(),
		"convert":    convert.VerifGlobals(),
		"ctystrings": ctystrings.VerifGlobals(),
		"function":   function.VerifGlobals(),
		"stdlib":     stdlib.VerifGlobals(),
		"gocty":      gocty.VerifGlobals(),
		"json":       ctyjson.VerifGlobals(),
		"msgpack":    ctymsgpack.VerifGlobals(),
		"set":        set.VerifGlobals(),
	}
}

const globalsAvailable = true
