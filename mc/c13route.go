package main

// C13, construction-route clause: the set functions are functions of the members of their
// arguments, however the set values came into being.  Set values are obtained from a mutable
// ValueSet that the caller keeps and goes on changing (snapshot, Add / Remove, snapshot again),
// from AsValueSet of another value, and from set algebra on ValueSets; every collection / set
// function is then applied to them, iterating the older or the newer snapshot first, and must
// give what it gives for sets with the same members built by SetVal.

import (
	"fmt"

	"github.com/zclconf/go-cty/cty"
	"github.com/zclconf/go-cty/cty/function"
	"github.com/zclconf/go-cty/cty/function/stdlib"
)

func c13SetRoutes(c *Ctx) {
	alpha := []cty.Value{cty.StringVal("a"), cty.StringVal("b"), cty.StringVal("c"), cty.StringVal("d")}
	ints := hashCollidingInts()
	alphas := [][]cty.Value{alpha, {ints[0], ints[1], ints[2], cty.NumberIntVal(-7)}}
	type setFn struct {
		name string
		f    function.Function
		ar   int
	}
	fns := []setFn{
		{"setunion", stdlib.SetUnionFunc, 2}, {"setintersection", stdlib.SetIntersectionFunc, 2}, {"setsubtract", stdlib.SetSubtractFunc, 2},
		{"setsymmetricdifference", stdlib.SetSymmetricDifferenceFunc, 2}, {"setproduct", stdlib.SetProductFunc, 2}, {"concat", stdlib.ConcatFunc, 2},
		{"length", stdlib.LengthFunc, 1}, {"reverselist", stdlib.ReverseListFunc, 1}, {"flatten", stdlib.FlattenFunc, 1}, {"distinct", stdlib.DistinctFunc, 1},
		{"jsonencode", stdlib.JSONEncodeFunc, 1}, {"sort", stdlib.SortFunc, 1}, {"compact", stdlib.CompactFunc, 1}, {"coalescelist", stdlib.CoalesceListFunc, 2},
	}
	for ai, al := range alphas {
		al := al
		ety := al[0].Type()
		for mask := 0; mask < 16; mask++ {
			mask := mask
			c.Unit(func(u *U) {
				members := func(m int) []cty.Value {
					var out []cty.Value
					for i := range al {
						if m&(1<<i) != 0 {
							out = append(out, al[i])
						}
					}
					return out
				}
				plain := func(m int) cty.Value {
					if ms := members(m); len(ms) > 0 {
						return cty.SetVal(ms)
					}
					return cty.SetValEmpty(ety)
				}
				out := func(f function.Function, args ...cty.Value) string {
					o := callStd(f, args)
					if !o.OK() {
						return "rejected"
					}
					return goStr(o.V)
				}
				// every single change of the kept ValueSet after the first snapshot
				for ch := 0; ch < 8; ch++ {
					el, add := ch%4, ch < 4
					m2 := mask &^ (1 << el)
					if add {
						m2 = mask | (1 << el)
					}
					for _, olderFirst := range []bool{true, false} {
						for _, route := range []string{"snapshot", "copy", "asvalueset"} {
							for _, fn := range fns {
								vs := cty.NewValueSet(ety)
								for _, m := range members(mask) {
									vs.Add(m)
								}
								var v1, v2 cty.Value
								switch route {
								case "snapshot":
									v1 = cty.SetValFromValueSet(vs)
									if add {
										vs.Add(al[el])
									} else {
										vs.Remove(al[el])
									}
									v2 = cty.SetValFromValueSet(vs)
								case "copy":
									cp := vs.Copy()
									if add {
										cp.Add(al[el])
									} else {
										cp.Remove(al[el])
									}
									v1, v2 = cty.SetValFromValueSet(vs), cty.SetValFromValueSet(cp)
								default:
									v1 = plain(mask)
									w := v1.AsValueSet()
									if add {
										w.Add(al[el])
									} else {
										w.Remove(al[el])
									}
									v2 = cty.SetValFromValueSet(w)
								}
								p1, p2 := plain(mask), plain(m2)
								u.Eval(2)
								u.DistinctN(1)
								var got, want string
								desc := ""
								if fn.ar == 1 {
									if olderFirst {
										got = out(fn.f, v1) + " ; " + out(fn.f, v2)
									} else {
										g2 := out(fn.f, v2)
										got = out(fn.f, v1) + " ; " + g2
									}
									want = out(fn.f, p1) + " ; " + out(fn.f, p2)
									desc = fmt.Sprintf("%s(older snapshot) ; %s(newer snapshot)", fn.name, fn.name)
								} else {
									if olderFirst {
										got = out(fn.f, v1, v2)
										want = out(fn.f, p1, p2)
										desc = fn.name + "(older snapshot, newer snapshot)"
									} else {
										got = out(fn.f, v2, v1)
										want = out(fn.f, p2, p1)
										desc = fn.name + "(newer snapshot, older snapshot)"
									}
								}
								if got != want {
									verb := "Remove"
									if add {
										verb = "Add"
									}
									u.Violation(fn.name+".depends-on-construction-route", route+fmt.Sprint(" alphabet ", ai), fmt.Sprintf("a value set holding %s, a set value taken from it (%s), then %s(%s) and a second set value: %s gives %s; for sets with the same members built by SetVal it gives %s", argsStr(members(mask)), route, verb, goStr(al[el]), desc, got, want))
								}
							}
						}
					}
				}
				u.Class("set-construction-routes")
			})
		}
	}
}
