#!/bin/bash
# usage: run.sh <property-id> <quick|thorough> [--replay file | extra args]
# Rebuilds the harness against /repo's current working tree, then runs the check.
# VERIF_REPO=<dir> (testing aid only) builds against another checkout of go-cty.
set -u
ID="$1"; TIER="${2:-quick}"; shift; shift || true
export GOFLAGS=-mod=mod GOPROXY=off GOSUMDB=off GOTOOLCHAIN=local
export GOCACHE=/verif/.cache/go-build
mkdir -p /verif/.bin /verif/.work /verif/evidence /verif/replays "$GOCACHE"
REPO="${VERIF_REPO:-/repo}"
export VERIF_REPO="$REPO"
W=/verif/.work/build.$$
mkdir -p "$W"
cleanup() { rm -rf "$W" "/verif/.bin/mc.$$"; }
trap cleanup EXIT
cd /verif/mc || exit 2
cp "$REPO/go.sum" go.sum 2>/dev/null
BIN=/verif/.bin/mc.$$
MODARGS=()
if [ "$REPO" != "/repo" ]; then
  sed "s#=> /repo#=> $REPO#" go.mod > "$W/go.mod"
  cp go.sum "$W/go.sum"
  MODARGS=(-modfile="$W/go.mod")
fi
# read-only accessors to package-level variables, injected as a build overlay
# generated from the working tree (build tag verifoverlay); without them the
# harness still builds and says so in its evidence
OVARGS=()
if [ ! -x /verif/.bin/genglobals ]; then (cd /verif/tools/genglobals && go build -o /verif/.bin/genglobals . 2>/dev/null); fi
if /verif/.bin/genglobals "$REPO" "$W/ov" 2>"$W/gen.log"; then
  OVARGS=(-tags verifoverlay -overlay "$W/ov/overlay.json")
fi
if [ ${#OVARGS[@]} -eq 0 ] || ! go build "${MODARGS[@]}" "${OVARGS[@]}" -o "$BIN" . 2>"$W/build.log"; then
  if ! go build "${MODARGS[@]}" -o "$BIN" . 2>"$W/build.log"; then
    # a tree that does not compile is not a property violation; report and fail hard
    cat "$W/build.log" >&2
    echo "HARNESS-ERROR: build failed against $REPO working tree" >&2
    exit 2
  fi
fi
"$BIN" "$ID" "$TIER" "$@"
rc=$?
# C20 thorough: the supplementary free-running concurrent pass under the race detector
if [ "$ID" = "C20" ] && [ "$TIER" = "thorough" ] && [ $# -eq 0 ] && [ $rc -le 1 ]; then
  if CGO_ENABLED=1 go build -race "${MODARGS[@]}" "${OVARGS[@]}" -o "$BIN.race" . 2>"$W/race-build.log"; then
    VERIF_OUT="$W/raceout" GORACE="halt_on_error=0" "$BIN.race" C20R thorough >"$W/race.log" 2>&1
    rrc=$?
    if grep -q "WARNING: DATA RACE" "$W/race.log" || [ $rrc -eq 66 ] || [ $rrc -eq 1 ]; then
      mkdir -p "${VERIF_OUT:-/verif}/replays/C20"
      RP="${VERIF_OUT:-/verif}/replays/C20/C20-race-$$.log"
      cp "$W/race.log" "$RP"
      echo "VIOLATION property=C20 replay=$RP"
      grep -A12 "WARNING: DATA RACE" "$W/race.log" | head -30
      rc=1
    else
      echo "C20 race-detector pass: no report (supplementary, free-running)"
    fi
    rm -f "$BIN.race"
  else
    echo "C20 race-detector pass skipped: -race build unavailable ($(head -1 "$W/race-build.log"))"
  fi
fi
exit $rc
