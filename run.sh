#!/bin/bash
# usage: run.sh <property-id> <quick|thorough> [--replay file | extra args]
# Rebuilds the harness against /repo's current working tree, then runs the check.
# VERIF_REPO=<dir> (testing aid only) builds against another checkout of go-cty.
set -u
ID="$1"; TIER="${2:-quick}"; shift; shift || true
export GOFLAGS=-mod=mod GOPROXY=off GOSUMDB=off GOTOOLCHAIN=local
export GOCACHE=/verif/.cache/go-build
mkdir -p /verif/.bin /verif/.work /verif/evidence /verif/replays "$GOCACHE"
REPO="${VERIF_REPO:-/repo}"
export VERIF_REPO="$REPO"
W=/verif/.work/build.$$
mkdir -p "$W"
cleanup() { rm -rf "$W" "/verif/.bin/mc.$$" "/verif/.bin/mc.$$.sched" "/verif/.bin/mc.$$.race"; }
trap cleanup EXIT
cd /verif/mc || exit 2
cp "$REPO/go.sum" go.sum 2>/dev/null
BIN=/verif/.bin/mc.$$
MODARGS=()
if [ "$REPO" != "/repo" ]; then
  sed "s#=> /repo#=> $REPO#" go.mod > "$W/go.mod"
  cp go.sum "$W/go.sum"
  MODARGS=(-modfile="$W/go.mod")
fi
# read-only accessors to package-level variables, injected as a build overlay
# generated from the working tree (build tag verifoverlay); without them the
# harness still builds and says so in its evidence
OVARGS=()
if [ ! -x /verif/.bin/genglobals ]; then (cd /verif/tools/genglobals && go build -o /verif/.bin/genglobals . 2>/dev/null); fi
if /verif/.bin/genglobals "$REPO" "$W/ov" 2>"$W/gen.log"; then
  OVARGS=(-tags verifoverlay -overlay "$W/ov/overlay.json")
fi
if [ ${#OVARGS[@]} -eq 0 ] || ! go build "${MODARGS[@]}" "${OVARGS[@]}" -o "$BIN" . 2>"$W/build.log"; then
  if ! go build "${MODARGS[@]}" -o "$BIN" . 2>"$W/build.log"; then
    # a tree that does not compile is not a property violation; report and fail hard
    cat "$W/build.log" >&2
    echo "HARNESS-ERROR: build failed against $REPO working tree" >&2
    exit 2
  fi
fi
# C20: the schedule clause is decided by the controlled scheduler (engine E4) in a second
# binary built against rewritten copies of the current tree (a call to the scheduler before
# every statement, "sync" replaced by shims: tools/genyield).  It runs first; its coverage
# is merged into C20's evidence and its violations are C20 violations.
src=0
if [ "$ID" = "C20" ] || [ "$ID" = "C20S" ]; then
  if [ ! -x /verif/.bin/genyield ]; then (cd /verif/tools/genyield && go build -o /verif/.bin/genyield . 2>/dev/null); fi
  SOV=()
  if [ -f "$W/ov/overlay.json" ]; then SOV=("$W/ov/overlay.json"); fi
  if /verif/.bin/genyield "$REPO" "$W/yov" "${SOV[@]}" >"$W/genyield.log" 2>&1 \
     && go build "${MODARGS[@]}" -tags "verifoverlay verifsched" -overlay "$W/yov/overlay.json" -o "$BIN.sched" . 2>"$W/sched-build.log"; then
    export VERIF_SITES="$W/yov/sites.json"
    if [ "$ID" = "C20S" ]; then
      "$BIN.sched" C20S "$TIER" "$@"; exit $?
    fi
    if [ $# -eq 0 ]; then
      mkdir -p "$W/schedout"
      RPO="${VERIF_OUT:-/verif}"
      VERIF_REPLAY_OUT="$RPO" VERIF_OUT="$W/schedout" "$BIN.sched" C20S "$TIER" | sed 's#^C20S #C20 (schedules) #'
      src=${PIPESTATUS[0]}
      export VERIF_SCHED_EVIDENCE="$W/schedout/evidence/C20S.json"
    fi
    rm -f "$BIN.sched"
  else
    echo "C20 schedule engine unavailable for this tree (rewriter or build failed: $(head -1 "$W/genyield.log" "$W/sched-build.log" 2>/dev/null | tr '\n' ' ')); the history part still runs"
    [ "$ID" = "C20S" ] && exit 2
  fi
fi
"$BIN" "$ID" "$TIER" "$@"
rc=$?
if [ $src -eq 1 ] && [ $rc -eq 0 ]; then rc=1; fi
if [ $src -ge 2 ] && [ $rc -eq 0 ]; then rc=$src; fi
# C20 thorough: the supplementary free-running concurrent pass under the race detector
if [ "$ID" = "C20" ] && [ "$TIER" = "thorough" ] && [ $# -eq 0 ] && [ $rc -le 1 ]; then
  if CGO_ENABLED=1 go build -race "${MODARGS[@]}" "${OVARGS[@]}" -o "$BIN.race" . 2>"$W/race-build.log"; then
    VERIF_OUT="$W/raceout" GORACE="halt_on_error=0" "$BIN.race" C20R thorough >"$W/race.log" 2>&1
    rrc=$?
    if grep -q "WARNING: DATA RACE" "$W/race.log" || [ $rrc -eq 66 ] || [ $rrc -eq 1 ]; then
      mkdir -p "${VERIF_OUT:-/verif}/replays/C20"
      RP="${VERIF_OUT:-/verif}/replays/C20/C20-race-$$.log"
      cp "$W/race.log" "$RP"
      echo "VIOLATION property=C20 replay=$RP"
      grep -A12 "WARNING: DATA RACE" "$W/race.log" | head -30
      rc=1
    else
      echo "C20 race-detector pass: no report (supplementary, free-running)"
    fi
    rm -f "$BIN.race"
  else
    echo "C20 race-detector pass skipped: -race build unavailable ($(head -1 "$W/race-build.log"))"
  fi
fi
exit $rc
