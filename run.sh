#!/bin/bash
# usage: run.sh <property-id> <quick|thorough> [--replay file | extra args]
# Rebuilds the harness against /repo's current working tree, then runs the check.
# VERIF_REPO=<dir> (testing aid only) builds against another checkout of go-cty.
set -u
ID="$1"; TIER="${2:-quick}"; shift; shift || true
export GOFLAGS=-mod=mod GOPROXY=off GOSUMDB=off GOTOOLCHAIN=local
export GOCACHE=/verif/.cache/go-build
mkdir -p /verif/.bin /verif/.work /verif/evidence /verif/replays "$GOCACHE"
cd /verif/mc || exit 2
REPO="${VERIF_REPO:-/repo}"
cp "$REPO/go.sum" go.sum 2>/dev/null
BIN=/verif/.bin/mc.$$
MODARGS=()
if [ "$REPO" != "/repo" ]; then
  sed "s#=> /repo#=> $REPO#" go.mod > /verif/.work/go.$$.mod
  cp go.sum /verif/.work/go.$$.sum
  MODARGS=(-modfile=/verif/.work/go.$$.mod)
fi
if ! go build "${MODARGS[@]}" -o "$BIN" . 2>/verif/.work/build.$$.log; then
  # a tree that does not compile is not a property violation; report and fail hard
  cat /verif/.work/build.$$.log >&2
  echo "HARNESS-ERROR: build failed against $REPO working tree" >&2
  rm -f /verif/.work/build.$$.log /verif/.work/go.$$.mod /verif/.work/go.$$.sum
  exit 2
fi
rm -f /verif/.work/build.$$.log /verif/.work/go.$$.mod /verif/.work/go.$$.sum
"$BIN" "$ID" "$TIER" "$@"
rc=$?
rm -f "$BIN"
exit $rc
