module verif/genglobals

go 1.18
