// Command genyield writes a `go build -overlay` description for the controlled scheduler
// (engine E4): for every non-test Go file of the go-cty checkout given as first argument
// it emits a rewritten copy in which
//
//   - a call verifsched_.Yield(<site>) precedes every statement of every function body
//     (also inside function literals, case and select clauses), and
//   - an import of "sync" is redirected to the scheduler's shim package,
//
// and it adds the run-time package github.com/zclconf/go-cty/verifsched as a virtual
// package of the module.  The copies are derived from the working tree at check time, so
// whatever the tree contains is what gets explored; the checkout itself is not modified.
//
//	genyield <repo> <outdir> [<overlay.json to merge>]
//	  -> <outdir>/overlay.json, <outdir>/sites.json (site id -> file:line), rewritten files
package main

import (
	"bytes"
	_ "embed"
	"encoding/json"
	"fmt"
	"go/ast"
	"go/parser"
	"go/printer"
	"go/token"
	"os"
	"path/filepath"
	"strconv"
	"strings"
)

//go:embed rt/verifsched.go
var runtimeSrc []byte

const rtImport = "github.com/zclconf/go-cty/verifsched"

var (
	sites  []string
	nSync  int
	fsetG  = token.NewFileSet()
	relTo  string
	curRel string
)

func yieldStmt(pos token.Pos) ast.Stmt {
	id := len(sites)
	p := fsetG.Position(pos)
	sites = append(sites, fmt.Sprintf("%s:%d", curRel, p.Line))
	return &ast.ExprStmt{X: &ast.CallExpr{
		Fun:  &ast.SelectorExpr{X: ast.NewIdent("verifsched_"), Sel: ast.NewIdent("Yield")},
		Args: []ast.Expr{&ast.BasicLit{Kind: token.INT, Value: strconv.Itoa(id)}},
	}}
}

func instrumentList(list []ast.Stmt) []ast.Stmt {
	out := make([]ast.Stmt, 0, 2*len(list))
	for _, s := range list {
		out = append(out, yieldStmt(s.Pos()), s)
	}
	return out
}

// visitor rewrites statement lists bottom-up.
type visitor struct{}

func (visitor) Visit(n ast.Node) ast.Visitor {
	switch x := n.(type) {
	case *ast.SwitchStmt:
		// the body of a switch holds clauses, not statements
		walkClauses(x.Body)
		if x.Init != nil {
			ast.Walk(visitor{}, x.Init)
		}
		if x.Tag != nil {
			ast.Walk(visitor{}, x.Tag)
		}
		return nil
	case *ast.TypeSwitchStmt:
		walkClauses(x.Body)
		if x.Init != nil {
			ast.Walk(visitor{}, x.Init)
		}
		ast.Walk(visitor{}, x.Assign)
		return nil
	case *ast.SelectStmt:
		walkClauses(x.Body)
		return nil
	case *ast.BlockStmt:
		for _, s := range x.List {
			ast.Walk(visitor{}, s)
		}
		x.List = instrumentList(x.List)
		return nil
	}
	return visitor{}
}

func walkClauses(body *ast.BlockStmt) {
	for _, c := range body.List {
		switch cc := c.(type) {
		case *ast.CaseClause:
			for _, e := range cc.List {
				ast.Walk(visitor{}, e)
			}
			for _, s := range cc.Body {
				ast.Walk(visitor{}, s)
			}
			cc.Body = instrumentList(cc.Body)
		case *ast.CommClause:
			if cc.Comm != nil {
				ast.Walk(visitor{}, cc.Comm)
			}
			for _, s := range cc.Body {
				ast.Walk(visitor{}, s)
			}
			cc.Body = instrumentList(cc.Body)
		}
	}
}

func rewrite(path string) ([]byte, error) {
	f, err := parser.ParseFile(fsetG, path, nil, parser.ParseComments)
	if err != nil {
		return nil, err
	}
	// keep only the build constraint lines; every other comment is dropped so that the
	// printer never has to place a comment next to an inserted node
	var constraints []string
	for _, cg := range f.Comments {
		if cg.Pos() < f.Package {
			for _, c := range cg.List {
				if strings.HasPrefix(c.Text, "//go:build") || strings.HasPrefix(c.Text, "// +build") {
					constraints = append(constraints, c.Text)
				}
			}
		}
	}
	f.Comments = nil
	f.Doc = nil
	ast.Inspect(f, func(n ast.Node) bool {
		switch x := n.(type) {
		case *ast.FuncDecl:
			x.Doc = nil
		case *ast.GenDecl:
			x.Doc = nil
		case *ast.Field:
			x.Doc, x.Comment = nil, nil
		case *ast.ValueSpec:
			x.Doc, x.Comment = nil, nil
		case *ast.TypeSpec:
			x.Doc, x.Comment = nil, nil
		case *ast.ImportSpec:
			x.Doc, x.Comment = nil, nil
		}
		return true
	})
	for _, imp := range f.Imports {
		if imp.Path.Value == `"sync"` {
			imp.Path.Value = strconv.Quote(rtImport)
			if imp.Name == nil {
				imp.Name = ast.NewIdent("sync")
			}
			nSync++
		}
	}
	for _, d := range f.Decls {
		if fd, ok := d.(*ast.FuncDecl); ok && fd.Body != nil {
			ast.Walk(visitor{}, fd.Body)
		} else if gd, ok := d.(*ast.GenDecl); ok {
			// function literals in package-level initialisers
			ast.Walk(visitor{}, gd)
		}
	}
	// import of the run-time package, always used through the blank reference below
	imp := &ast.GenDecl{Tok: token.IMPORT, Specs: []ast.Spec{&ast.ImportSpec{
		Name: ast.NewIdent("verifsched_"), Path: &ast.BasicLit{Kind: token.STRING, Value: strconv.Quote(rtImport)}}}}
	use := &ast.GenDecl{Tok: token.VAR, Specs: []ast.Spec{&ast.ValueSpec{
		Names: []*ast.Ident{ast.NewIdent("_")}, Values: []ast.Expr{&ast.SelectorExpr{X: ast.NewIdent("verifsched_"), Sel: ast.NewIdent("Yield")}}}}}
	// imports must precede other declarations
	nImp := 0
	for nImp < len(f.Decls) {
		if gd, ok := f.Decls[nImp].(*ast.GenDecl); ok && gd.Tok == token.IMPORT {
			nImp++
			continue
		}
		break
	}
	decls := append([]ast.Decl{}, f.Decls[:nImp]...)
	decls = append(decls, imp, use)
	decls = append(decls, f.Decls[nImp:]...)
	f.Decls = decls
	var buf bytes.Buffer
	for _, c := range constraints {
		buf.WriteString(c + "\n")
	}
	if len(constraints) > 0 {
		buf.WriteString("\n")
	}
	cfg := printer.Config{Mode: printer.UseSpaces | printer.TabIndent, Tabwidth: 8}
	if err := cfg.Fprint(&buf, fsetG, f); err != nil {
		return nil, err
	}
	return buf.Bytes(), nil
}

func main() {
	if len(os.Args) < 3 {
		fmt.Fprintln(os.Stderr, "usage: genyield <repo> <outdir> [<overlay.json to merge>]")
		os.Exit(2)
	}
	repo, out := os.Args[1], os.Args[2]
	relTo = repo
	os.MkdirAll(out, 0o755)
	overlay := map[string]string{}
	if len(os.Args) > 3 {
		var in struct{ Replace map[string]string }
		if b, err := os.ReadFile(os.Args[3]); err == nil && json.Unmarshal(b, &in) == nil {
			for k, v := range in.Replace {
				overlay[k] = v
			}
		}
	}
	n := 0
	err := filepath.Walk(filepath.Join(repo, "cty"), func(p string, info os.FileInfo, err error) error {
		if err != nil {
			return err
		}
		if info.IsDir() {
			if info.Name() == "testdata" {
				return filepath.SkipDir
			}
			return nil
		}
		if !strings.HasSuffix(p, ".go") || strings.HasSuffix(p, "_test.go") {
			return nil
		}
		curRel, _ = filepath.Rel(repo, p)
		src, err := rewrite(p)
		if err != nil {
			return fmt.Errorf("%s: %v", p, err)
		}
		dst := filepath.Join(out, "y", strings.ReplaceAll(curRel, string(filepath.Separator), "__"))
		os.MkdirAll(filepath.Dir(dst), 0o755)
		if err := os.WriteFile(dst, src, 0o644); err != nil {
			return err
		}
		overlay[p] = dst
		n++
		return nil
	})
	if err != nil {
		fmt.Fprintln(os.Stderr, "genyield:", err)
		os.Exit(1)
	}
	rt := filepath.Join(out, "verifsched.go")
	os.WriteFile(rt, runtimeSrc, 0o644)
	overlay[filepath.Join(repo, "verifsched", "verifsched.go")] = rt
	b, _ := json.MarshalIndent(map[string]interface{}{"Replace": overlay}, "", " ")
	os.WriteFile(filepath.Join(out, "overlay.json"), b, 0o644)
	sb, _ := json.Marshal(sites)
	os.WriteFile(filepath.Join(out, "sites.json"), sb, 0o644)
	fmt.Printf("genyield: %d files, %d yield sites, %d sync imports redirected\n", n, len(sites), nSync)
}
