module verif/genyield

go 1.18
