// Package verifsched is the run-time half of the controlled scheduler (engine E4).
//
// It is NOT part of go-cty: /verif/tools/genyield injects it into the go-cty module as a
// virtual package (go build -overlay) together with rewritten copies of the library's
// source files in which a call to Yield precedes every statement and the "sync" import
// is replaced by the shims below.  With the scheduler inactive every hook is a no-op.
//
// Execution model: managed threads are goroutines of which exactly one runs at a time;
// control passes between a thread and the controller only through channel hand-offs, so
// the unsynchronised package state below is ordered by happens-before.
package verifsched

import (
	"fmt"
	realsync "sync"
	"sync/atomic"
	"time"
)

var active atomic.Bool

// cur is the managed thread that is running; nil while the controller (or any code not
// started through Thread.Run) runs.
var cur *Thread

// StepHook, when set, is called in thread context at every statement boundary (the
// thread is not current while it runs, so library calls made by the hook do not recurse).
var StepHook func(t *Thread, site int)

// Event kinds reported by Run.
const (
	Paused   = iota // the step budget given to Run is used up
	Blocked         // the thread waits for a shim lock another thread holds
	Finished        // the body returned (or panicked: see Thread.Panic)
	Stuck           // no event within the watchdog period: the thread blocks on something unmanaged
)

type event struct {
	t    *Thread
	kind int
}

var ctl = make(chan event)

// Thread is one managed goroutine.
type Thread struct {
	ID        int
	Steps     int // statement boundaries passed so far
	LastSite  int
	LocksHeld int // shim locks (Mutex, RWMutex, Once bodies) currently held
	SyncOps   int // shim synchronisation operations performed
	Panic     interface{}
	Done      bool
	blockedOn func() bool // true when the thread can proceed
	budget    int
	started   bool
	resume    chan struct{}
	body      func()
}

// Activate switches the hooks on (true) or off.
func Activate(on bool) { active.Store(on); cur = nil }

// NewThread prepares a managed thread; nothing runs until Run.
func NewThread(id int, body func()) *Thread {
	return &Thread{ID: id, body: body, resume: make(chan struct{})}
}

// Runnable reports whether a Run call would make progress.
func (t *Thread) Runnable() bool {
	if t.Done {
		return false
	}
	if t.blockedOn != nil && !t.blockedOn() {
		return false
	}
	return true
}

// Run lets the thread execute until it has passed budget statement boundaries
// (budget <= 0: no limit), blocks on a shim lock, or finishes, and reports which.
func (t *Thread) Run(budget int) int {
	if t.Done {
		return Finished
	}
	t.budget = budget
	t.blockedOn = nil
	cur = t
	if !t.started {
		t.started = true
		go t.main()
	} else {
		t.resume <- struct{}{}
	}
	select {
	case ev := <-ctl:
		if ev.t != t {
			panic(fmt.Sprintf("verifsched: event from thread %d while thread %d runs", ev.t.ID, t.ID))
		}
		return ev.kind
	case <-time.After(20 * time.Second):
		cur = nil
		return Stuck
	}
}

func (t *Thread) main() {
	defer func() {
		t.Panic = recover()
		t.Done = true
		cur = nil
		ctl <- event{t, Finished}
	}()
	t.body()
}

func (t *Thread) pause(kind int) {
	cur = nil
	ctl <- event{t, kind}
	<-t.resume
	cur = t
}

// Yield is called before every statement of the instrumented library.
func Yield(site int) {
	if !active.Load() {
		return
	}
	t := cur
	if t == nil {
		return
	}
	t.Steps++
	t.LastSite = site
	if h := StepHook; h != nil {
		cur = nil
		h(t, site)
		cur = t
	}
	if t.budget > 0 {
		t.budget--
		if t.budget == 0 {
			t.pause(Paused)
		}
	}
}

// managed returns the running managed thread, or nil.
func managed() *Thread {
	if !active.Load() {
		return nil
	}
	return cur
}

// syncPoint is a scheduling point at a synchronisation operation.
func syncPoint(t *Thread) {
	t.SyncOps++
	Yield(-1)
}

// ---------------------------------------------------------------------------
// shims for package sync (the rewritten library imports this package as "sync")

type Locker = realsync.Locker
type WaitGroup = realsync.WaitGroup
type Cond = realsync.Cond

func NewCond(l Locker) *Cond { return realsync.NewCond(l) }

// Mutex: managed threads take it cooperatively (a thread that finds it held reports
// Blocked and is resumed only when it is free); unmanaged code uses a real mutex.
type Mutex struct {
	held bool
	real realsync.Mutex
}

func (m *Mutex) Lock() {
	t := managed()
	if t == nil {
		m.real.Lock()
		return
	}
	syncPoint(t)
	for m.held {
		t.blockedOn = func() bool { return !m.held }
		t.pause(Blocked)
	}
	m.held = true
	t.LocksHeld++
}

func (m *Mutex) TryLock() bool {
	t := managed()
	if t == nil {
		return m.real.TryLock()
	}
	syncPoint(t)
	if m.held {
		return false
	}
	m.held = true
	t.LocksHeld++
	return true
}

func (m *Mutex) Unlock() {
	t := managed()
	if t == nil {
		m.real.Unlock()
		return
	}
	if !m.held {
		panic("sync: unlock of unlocked mutex")
	}
	syncPoint(t) // still holding the lock: what the critical section wrote is attributed to it
	m.held = false
	t.LocksHeld--
}

type RWMutex struct {
	writer  bool
	readers int
	real    realsync.RWMutex
}

func (m *RWMutex) Lock() {
	t := managed()
	if t == nil {
		m.real.Lock()
		return
	}
	syncPoint(t)
	for m.writer || m.readers > 0 {
		t.blockedOn = func() bool { return !m.writer && m.readers == 0 }
		t.pause(Blocked)
	}
	m.writer = true
	t.LocksHeld++
}

func (m *RWMutex) Unlock() {
	t := managed()
	if t == nil {
		m.real.Unlock()
		return
	}
	syncPoint(t)
	m.writer = false
	t.LocksHeld--
}

func (m *RWMutex) RLock() {
	t := managed()
	if t == nil {
		m.real.RLock()
		return
	}
	syncPoint(t)
	for m.writer {
		t.blockedOn = func() bool { return !m.writer }
		t.pause(Blocked)
	}
	m.readers++
	// a read lock does not license writes: LocksHeld is not incremented
}

func (m *RWMutex) RUnlock() {
	t := managed()
	if t == nil {
		m.real.RUnlock()
		return
	}
	m.readers--
	syncPoint(t)
}

func (m *RWMutex) RLocker() Locker { return (*rlocker)(m) }

type rlocker RWMutex

func (r *rlocker) Lock()   { (*RWMutex)(r).RLock() }
func (r *rlocker) Unlock() { (*RWMutex)(r).RUnlock() }

// Once runs its body under a shim lock.
type Once struct {
	done bool
	m    Mutex
}

func (o *Once) Do(f func()) {
	if t := managed(); t != nil {
		syncPoint(t)
	}
	if o.done {
		return
	}
	o.m.Lock()
	defer o.m.Unlock()
	if !o.done {
		defer func() { o.done = true }()
		f()
	}
}

func OnceFunc(f func()) func() {
	var o Once
	return func() { o.Do(f) }
}

func OnceValue[T any](f func() T) func() T {
	var o Once
	var v T
	return func() T { o.Do(func() { v = f() }); return v }
}

func OnceValues[T1, T2 any](f func() (T1, T2)) func() (T1, T2) {
	var o Once
	var v1 T1
	var v2 T2
	return func() (T1, T2) { o.Do(func() { v1, v2 = f() }); return v1, v2 }
}

// Pool keeps a LIFO free list, so that an object put back by one thread is what the next
// Get returns, whichever thread asks: the sharing a real pool allows, made deterministic.
type Pool struct {
	New  func() interface{}
	free []interface{}
	mu   realsync.Mutex
}

func (p *Pool) Get() interface{} {
	if t := managed(); t != nil {
		syncPoint(t)
	}
	p.mu.Lock()
	if n := len(p.free); n > 0 {
		x := p.free[n-1]
		p.free = p.free[:n-1]
		p.mu.Unlock()
		return x
	}
	p.mu.Unlock()
	if p.New != nil {
		return p.New()
	}
	return nil
}

func (p *Pool) Put(x interface{}) {
	if t := managed(); t != nil {
		syncPoint(t)
	}
	if x == nil {
		return
	}
	p.mu.Lock()
	p.free = append(p.free, x)
	p.mu.Unlock()
}

// Map is the real sync.Map with a scheduling point before every operation.
type Map struct{ m realsync.Map }

func sp() {
	if t := managed(); t != nil {
		syncPoint(t)
	}
}
func (m *Map) Load(k interface{}) (interface{}, bool) { sp(); return m.m.Load(k) }
func (m *Map) Store(k, v interface{})                  { sp(); m.m.Store(k, v) }
func (m *Map) LoadOrStore(k, v interface{}) (interface{}, bool) {
	sp()
	return m.m.LoadOrStore(k, v)
}
func (m *Map) LoadAndDelete(k interface{}) (interface{}, bool) { sp(); return m.m.LoadAndDelete(k) }
func (m *Map) Delete(k interface{})                            { sp(); m.m.Delete(k) }
func (m *Map) Range(f func(k, v interface{}) bool)             { sp(); m.m.Range(f) }
func (m *Map) Swap(k, v interface{}) (interface{}, bool)       { sp(); return m.m.Swap(k, v) }
func (m *Map) CompareAndSwap(k, o, n interface{}) bool         { sp(); return m.m.CompareAndSwap(k, o, n) }
func (m *Map) CompareAndDelete(k, o interface{}) bool          { sp(); return m.m.CompareAndDelete(k, o) }
