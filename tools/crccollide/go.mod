module crccollide
go 1.18
