// One-off tool: finds k decimal integer strings whose CRC-32 (IEEE) agree.
// cty hashes a whole number by the CRC-32 of its decimal text, so these make
// k distinct set members that share one hash bucket.
package main

import (
	"fmt"
	"hash/crc32"
	"os"
	"strconv"
)

func main() {
	k := 5
	n := 200_000_000
	if len(os.Args) > 1 {
		k, _ = strconv.Atoi(os.Args[1])
	}
	if len(os.Args) > 2 {
		n, _ = strconv.Atoi(os.Args[2])
	}
	const passBits = 4
	cnt := make([]uint8, 1<<(32-passBits))
	buf := make([]byte, 0, 16)
	for pass := uint32(0); pass < 1<<passBits; pass++ {
		for i := range cnt {
			cnt[i] = 0
		}
		var hit uint32
		found := false
		for i := 0; i < n && !found; i++ {
			buf = strconv.AppendInt(buf[:0], int64(i), 10)
			c := crc32.ChecksumIEEE(buf)
			if c>>(32-passBits) != pass {
				continue
			}
			idx := c & (1<<(32-passBits) - 1)
			cnt[idx]++
			if int(cnt[idx]) >= k {
				hit = c
				found = true
			}
		}
		if found {
			fmt.Printf("crc=%d:", hit)
			for i := 0; i < n; i++ {
				buf = strconv.AppendInt(buf[:0], int64(i), 10)
				if crc32.ChecksumIEEE(buf) == hit {
					fmt.Printf(" %d", i)
				}
			}
			fmt.Println()
			return
		}
		fmt.Fprintf(os.Stderr, "pass %d: none\n", pass)
	}
}
