#!/bin/bash
# usage: seedcheck.sh <seed-dir> <property-id> <name>  [check-ids...]
# Validates a seeded defect (patch.diff + demo_test.go + meta.json in <seed-dir>) in a scratch worktree:
#   suite passes with the patch; demo fails with it and passes without; then runs the given checks
#   (default: the property's own) against the patched worktree and reports which raise VIOLATION.
# Nothing in /repo is touched; evidence of these runs goes to a scratch directory.
set -u
SD="$1"; PROP="$2"; NAME="$3"; shift 3
CHECKS=("$@"); [ ${#CHECKS[@]} -eq 0 ] && CHECKS=("$PROP")
export GOFLAGS=-mod=mod GOPROXY=off GOSUMDB=off GOTOOLCHAIN=local GOCACHE=/verif/.cache/go-build
W=/tmp/sw/$NAME; OUT=/tmp/sw/$NAME.out
rm -rf "$W" "$OUT"; mkdir -p /tmp/sw "$OUT"
git -C /repo worktree add --detach "$W" HEAD >/dev/null 2>&1 || { echo "RESULT $NAME worktree-failed"; exit 2; }
cleanup() { git -C /repo worktree remove --force "$W" >/dev/null 2>&1; rm -rf "$OUT"; }
META="$SD/meta.json"; [ -f "$SD/agent_meta.json" ] && META="$SD/agent_meta.json"
DEMODIR=$(python3 -c "import json,sys;print(json.load(open('$META')).get('demo_dir','cty').strip('/'))")
TESTNAME=$(grep -o 'func TestSeeded[A-Za-z0-9_]*' "$SD/demo_test.go" | head -1 | sed 's/func //')
cd "$W"
# demo on the unpatched tree
cp "$SD/demo_test.go" "$W/$DEMODIR/zz_seeded_demo_test.go"
if ! go test -vet=off -count=1 -run "^$TESTNAME\$" "./$DEMODIR/" >"$OUT/demo_clean.log" 2>&1; then echo "RESULT $NAME demo-fails-on-clean-tree"; tail -5 "$OUT/demo_clean.log"; cleanup; exit 3; fi
rm "$W/$DEMODIR/zz_seeded_demo_test.go"
if ! git apply "$SD/patch.diff" 2>"$OUT/apply.log" && ! git apply -3 "$SD/patch.diff" 2>>"$OUT/apply.log"; then echo "RESULT $NAME patch-does-not-apply"; cat "$OUT/apply.log"; cleanup; exit 3; fi
if ! go build ./... >"$OUT/build.log" 2>&1; then echo "RESULT $NAME does-not-compile"; cleanup; exit 3; fi
if ! go test -vet=off -count=1 ./... >"$OUT/suite.log" 2>&1; then echo "RESULT $NAME suite-fails"; grep -v "^ok" "$OUT/suite.log" | head -8; cleanup; exit 3; fi
cp "$SD/demo_test.go" "$W/$DEMODIR/zz_seeded_demo_test.go"
if go test -vet=off -count=1 -run "^$TESTNAME\$" "./$DEMODIR/" >"$OUT/demo_patched.log" 2>&1; then echo "RESULT $NAME demo-passes-with-patch"; cleanup; exit 3; fi
rm "$W/$DEMODIR/zz_seeded_demo_test.go"
RES=""
for C in "${CHECKS[@]}"; do
  VERIF_REPO="$W" VERIF_OUT="$OUT" /verif/run.sh "$C" quick >"$OUT/check_$C.log" 2>&1; rc=$?
  nv=$(grep -c '^VIOLATION' "$OUT/check_$C.log")
  RES="$RES $C:rc=$rc:viol=$nv"
  if [ $rc -eq 1 ]; then grep -A2 '^VIOLATION' "$OUT/check_$C.log" | head -4 | cut -c1-400 > "/tmp/sw/$NAME.$C.caught"; fi
  if [ $rc -ge 2 ]; then tail -5 "$OUT/check_$C.log" | cut -c1-300; fi
done
echo "RESULT $NAME valid checks:$RES"
cleanup
