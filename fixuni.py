#!/usr/bin/env python3
"""Replace non-ASCII characters in Go sources by \\u escapes. In a line with two é literals the first becomes NFD (e + U+0301)."""
import sys,re,unicodedata
for p in sys.argv[1:]:
    s=open(p,encoding='utf-8').read()
    out=[]
    for line in s.split('\n'):
        if re.search(r'[^\x00-\x7F]',line):
            line=unicodedata.normalize('NFC',line)
            cnt=[0]
            n_e=line.count('é')
            def rep(m):
                ch=m.group(0)
                if ch=='é':
                    cnt[0]+=1
                    if n_e>=2 and cnt[0]%2==1: return 'e\\u0301'
                    if n_e==1: return 'e\\u0301'
                    return '\\u00e9'
                o=ord(ch)
                return '\\u%04x'%o if o<0x10000 else '\\U%08x'%o
            line=re.sub(r'[^\x00-\x7F]',rep,line)
        out.append(line)
    open(p,'w',encoding='utf-8').write('\n'.join(out))
