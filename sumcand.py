#!/usr/bin/env python3
import sys,json,collections
c=collections.Counter(); ex=collections.defaultdict(list)
for l in sys.stdin:
    if not l.startswith('CANDIDATE '): continue
    f=json.loads(l[10:]); c[f['site']]+=1; ex[f['site']].append(f)
N=int(sys.argv[1]) if len(sys.argv)>1 else 4
for k,v in c.most_common():
    print('=====',v,k)
    for f in ex[k][:N]:
        print('  ',f['shape'],'\n      ',f['what'][:700])
