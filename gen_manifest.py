#!/usr/bin/env python3
"""Regenerates MANIFEST.json from the table below (kept in one place so the manifest stays valid)."""
import json, sys
BASE = json.load(open('/root/.vp/BASELINE.json'))
CHECKS = {
 # id: (level, engine, technique, text, note, design_ref)
 "C07": ("exploration", "E1", "bounded exhaustive enumeration of a finite type universe (all types, all ordered pairs, all single-position mutants) against a structural reference model",
         "Every type of the bounded universe and every ordered pair is compared with an independent structural model: Equals <=> canonical-string equality (hence an equivalence separating every structural difference), TestConformance <=> reference conformance, HasDynamicTypes, JSON round trip, idempotent stripping. Exhaustive inside the bound; nothing outside it.",
         "trusted: the checker's TS model and canonical string; bound: depth<=2 (+depth-3 mutant family), <=2 attributes (+3-attr cases), tuple width<=2 (+3/4 cases)", "§3 C07"),
}
CHECKS["C01"] = ("exploration", "E1", "bounded exhaustive enumeration of (operation, operand tuple, weakening) triples; abstract run compared with concrete run through a reference concretisation relation",
  "All 21 operation methods x every wholly known operand tuple of the bounded value universe x every weakening of <=2 positions (root or nested) to unknowns with refinements true of the replaced part or to DynamicVal: the weakened call must not fail and its result must admit the concrete result (type constraint, nullness, numeric bounds, prefix, length bounds, known parts); wholly known in => wholly known, non-null out.",
  "trusted: admits() relation (DESIGN app. A), weakening generator; bound: leaf alphabets, collections <=2 members (sets <=3), depth<=2, k<=2 positions", "§3 C01")
CHECKS["C02"] = ("exploration", "E1", "bounded exhaustive enumeration of operand tuples and (container, key) pairs against exact big.Rat arithmetic and plain Go collections",
  "All ordered pairs of a number alphabet spanning precisions/constructors/magnitudes x 9 binary and 2 unary numeric operations compared with exact rational arithmetic under an explicit precision rule; boolean truth tables; every list/set/map/tuple/object built from every member sequence up to length 2 (3 thorough) x every key of a key alphabet: Index/HasIndex/GetAttr/HasElement/Length/LengthInt/ElementIterator return exactly the constructor's members, Index succeeds iff HasIndex is True, wrong-typed operands are rejected.",
  "trusted: big.Rat reference, precision rule stated in evidence assumptions; unspecified zones (0/0, Inf-Inf, x mod 0, modulo with infinities, decimal-text-equal numbers) are not compared", "§3 C02")
CHECKS["C03"] = ("model_checking", "E2", "explicit-state breadth-first search over ValueSet operation histories with a lock-step model set, plus exhaustive pair/triple enumeration against a documented-equality reference",
  "Pairs and same-type triples of a pool (numbers at several precisions incl. decimal-text-equal and hash-colliding ones, normalising strings, nulls, structures, capsules, refined unknowns): RawEquals = documented structural equality (hence an equivalence), Equals symmetric, null=null, Equals=RawEquals on known same-type values, numeric trichotomy, equal => same Hash. BFS over all histories (depth 4, thorough 5) of Add/Remove/Copy/swap/Union/Intersection/Subtract/SymmetricDifference on two real ValueSets over colliding 6-element alphabets with a model set in lock-step: no duplicates, membership/length/values = model, set value equals SetVal(model), copies do not interfere; every permutation of constructor inputs gives RawEquals sets with identical iteration order.",
  "trusted: documented number equality re-implemented in the checker; states keyed on full bucket dump (len, cap, slack) + model; dedup per level-1 subtree", "§3 C03")
CHECKS["C04"] = ("exploration", "E1", "bounded exhaustive enumeration of mark placements over operand tuples; paired marked / stripped runs (non-interference oracle)",
  "Every operation-method case of the C01 universe (operands known, null, unknown, DynamicVal) x every placement of marks (root subsets of two marks per operand, one nested member marked), conversions and stdlib function calls x mark placements, and set constructors on marked members: the marked run and the run on deep-stripped inputs must agree on success/failure and on the unmarked result; promised marks must be on the result; no mark may be invented.",
  "trusted: deep strip via UnmarkDeep (itself covered by C19); bound: 3 distinct marks, <=1 nested marked member per operand", "§3 C04")
CHECKS["C05"] = ("model_checking", "E2", "explicit-state breadth-first search over refinement-builder call histories with an analytic interval/prefix/length model in lock-step; exhaustive prefix x continuation enumeration",
  "BFS over all builder call sequences to depth 4 (thorough 5) on 28 base values with an analytic model of the stated constraints: contradictions must be rejected, DynamicVal ignores refinement, type and marks are preserved, and after every accepted call the reported range (nullness, bounds with inclusiveness, prefix, length) and the membership of every probe value equal what the model implies (so refinement never widens and never over-narrows, and a collapse to a known value admits exactly what the refinement admitted). All (prefix, continuation) pairs over a 16-symbol hazard alphabet: the safe prefix is an NFC byte prefix of NFC(prefix+continuation).",
  "trusted: the analytic model (reals with infinities, byte prefixes, naturals); probes are finite; StringPrefix modelled through SafeKnownPrefix which part (b) decides", "§3 C05")
CHECKS["C06"] = ("exploration", "E1", "bounded exhaustive enumeration of producing calls (union driver over the other checks' universes) with a deep well-formedness walk as the only oracle",
  "Every value returned by every constructor call on generated arguments and by the operation, refinement, conversion, function, decoder and traversal calls of the other checks' quick universes is walked with every applicable public accessor: payloads match declared types, tuple/object shapes match, strings/names/keys are NFC, sets hold no marked or duplicate member, at most one mark layer, no optional-attribute annotation survives.",
  "trusted: the accessor walk; coverage is the union of the quick universes of C01, C05, C08, C11, C15-C17, C19", "§3 C06")
CHECKS["C08"] = ("exploration", "E1", "bounded exhaustive enumeration of (value, target type) pairs with derived targets; multi-run relational oracle (conformance, identity, idempotence, round trip, abstraction via admits)",
  "For every source type of the structural core, every value (known, nulls at every depth, every one-position weakening to a refined unknown, marked) and every target (unrelated, or derived by kind change, element conversion, dropped/added/optional attributes, inserted placeholders): Convert / GetConversion / GetConversionUnsafe never panic; a success conforms to the target, carries no optional annotation and no placeholder the input resolved, is the identity on values of the target type, is idempotent, round-trips through the inverse when the forward conversion is safe, maps unknown/null to unknown/null whose refinements admit the conversion of every admitted input; safe implies unsafe and never fails for placeholder-free targets.",
  "trusted: TS model, admits(), semEq (RawEquals up to representation of unrefined unknowns); bound: structural core types depth<=2, <=16 values per type, one weakened position", "§3 C08")
CHECKS["C09"] = ("exploration", "E1", "bounded exhaustive enumeration of type lists (length 1..4) in safe and unsafe mode, with every generated value pushed through the returned conversions",
  "Every list of 1..3 types over a ~55-type core (70 thorough) and every quadruple over a 16-type sub-core: Unify/UnifyUnsafe never panic; on success one conversion per input; every conversion applied to every generated value of its input type never panics and yields a value of the unified type; for placeholder-free inputs a conversion is absent exactly when the input equals the result, safe-mode conversions never fail and are backed by GetConversion; equal inputs unify to themselves with no conversions; safe success implies unsafe success.",
  "trusted: TS model and reference conformance; bound: core type list, <= 9 values per type", "§3 C09")
CHECKS["C10"] = ("model_checking", "E2", "exhaustive enumeration of (function specification, argument list) configurations with spy callbacks; every implementation event trace validated against a reference protocol automaton",
  "Every specification of the bounded space (3 type constraints x 16 flag combinations per parameter, 1-2 positional (+3 thorough) and optional variadic parameters, 4 type-check x 4 implementation callback behaviours, optional result refinement) x every argument list of every length over 10 argument kinds: the recorded trace (callback invocations with arguments, outcome) must be a path of the reference automaton: arity, per-argument admission, type-check on the deep-unmarked arguments, mark/unknown short-circuit carrying the unhandled marks, implementation only with contract-satisfying arguments, callback panics as PanicError, non-conforming results never returned, refinement on every typed result, ArgError naming an offender.",
  "trusted: the automaton (DESIGN app. C) and spy callbacks; where the statement allows two outcomes both are accepted", "§3 C10, §9")
CHECKS["C11"] = ("exploration", "E1", "bounded exhaustive enumeration of (function, seed argument list, injection) triples; Call / ReturnTypeForValues / ReturnType run on each and related by a structural conformance model",
  "All 80 exported stdlib functions and MakeToFunc for 10 target types x every seed argument list (full product of per-position alphabets incl. per-function dictionaries of format strings, patterns, timestamps, JSON/CSV documents, boundary numbers; variadic lengths 0..2, thorough 0..3) x every injection of null, null-of-dynamic, unknown, refined unknown, DynamicVal or a mark at one argument or one nested member (thorough: all pairs of argument-level injections): no Go panic and no PanicError from Call, ReturnType or ReturnTypeForValues; a successful call's type conforms to both predictions; the value-based prediction never rejects a successful call and the type-only prediction never rejects a call that succeeds on wholly known arguments.",
  "trusted: TS conformance model; bound: the seed alphabets (stdfn.go), <=1 (thorough <=2) injected positions, nesting depth<=2; count-like numbers avoid (1025, 2^62)", "§3 C11")
CHECKS["C12"] = ("exploration", "E1", "bounded exhaustive enumeration of (function, successful wholly known argument list, weakening) triples; abstract run compared with the concrete run and with further concretisations through a reference concretisation relation",
  "Every stdlib function of the C11 table x every wholly known seed argument list on which the call succeeds x every replacement of one argument or one nested member by a typed unknown (bare, not-null, or with numeric-bound / prefix / length refinements true of the replaced part; thorough: pairs of replacements in two arguments): the weakened call must succeed and its result must admit the concrete result (type, nullness, bounds, prefix, length, every known part) and the concrete results of up to 3 other values the unknown admits; wholly known arguments give wholly known results.",
  "trusted: admits() with the documented number equality at range ends; bound: seed alphabets of stdfn.go, one (thorough two) weakened positions, depth<=2", "§3 C12")
CHECKS["C13"] = ("exploration", "E1", "bounded exhaustive enumeration of wholly known argument lists; differential comparison with reference implementations over plain Go slices and maps (Ok / DomainError / Unspecified)",
  "Each of the 27 collection, set and sequence functions x the full Cartesian product of its per-position seed alphabets (empty/non-empty collections, duplicates, null members, list/tuple and map/object forms, negative, fractional, huge and out-of-range indices, sizes and steps, null arguments where accepted): where the reference is specified the call must succeed with exactly the reference's value and type, and must fail exactly on arguments outside the documented domain.",
  "trusted: the reference functions of c13.go (written from descriptions and doc comments); Unspecified zones: element-type unification, order of sets of non-primitive members, huge indices, precision-boundary cases of range", "§3 C13/C14, §8")
CHECKS["C14"] = ("exploration", "E1", "bounded exhaustive enumeration of wholly known argument lists; differential comparison with reference computations (exact rationals, float64 math, Go strings/regexp/fmt/encoding/time, grapheme-cluster splitter) answering Ok / DomainError / Unspecified",
  "Each of the 49 number, string, regex, format, encoding, date, bool and bytes functions x the full Cartesian product of its per-position seed alphabets (numbers of all magnitude/precision classes, strings with multi-code-point clusters and normalising sequences, format strings over the documented verb grammar, RFC 3339 stamps and near-misses, durations, JSON and CSV documents): where the reference is specified the call must succeed with the reference's value and type (numeric results under the C02 precision rule, float64 results to 1e-9 relative), must fail exactly outside the documented domain, and decoding is the inverse of encoding.",
  "trusted: the reference functions of c14.go, textseg as the definition of a grapheme cluster, Go fmt for numeric verbs; Unspecified zones listed in DESIGN appendix B and in the reference's rUnspec reasons", "§3 C13/C14, §8")
CHECKS["C15"] = ("exploration", "E1", "bounded exhaustive enumeration of (value, type constraint with placeholders) pairs and of JSON documents from a grammar; encode/decode round trip, plain-JSON mirror via encoding/json, structural implied type",
  "Every wholly known, unmarked, capsule-free value of the bounded universe (all kinds, nulls at any depth, empty collections, the full finite number alphabet, normalising strings) x every constraint obtained by replacing any antichain of sub-types by the dynamic placeholder: Marshal succeeds, its bytes are valid JSON whose plain decoding mirrors the value (with {value,type} wrappers exactly at placeholder positions), Unmarshal with the same constraint gives the same type and a RawEquals value. Every document of a JSON grammar (depth 3, scalars in several spellings, duplicate and normalising keys): ImpliedType is the structural type, Unmarshal succeeds, re-marshalling and SimpleJSONValue reproduce the document up to key order, number spelling and NFC. Unknown, marked and infinite values are rejected with an error.",
  "trusted: encoding/json as judge of validity and plain decoding; the mirror and structural-type functions of c15.go; bound: codecTypes x member caps (c15.go)", "§3 C15/C16")
CHECKS["C16"] = ("exploration", "E1", "bounded exhaustive enumeration of (value with unknowns at any depth, type constraint with placeholders) pairs; encode/decode round trip compared member-wise with a structural range-inclusion relation",
  "Every unmarked capsule-free value of the bounded universe and every value obtained by replacing one position (thorough: two) by an unknown from a refinement alphabet covering every refinement the encoder writes (not-null; numeric bounds at the int64/uint64 limits, beyond them, fractional, 512-bit decimals, inclusive/exclusive; prefixes incl. 248..1100 bytes with 1-4-byte runes at the encoder's cut; length bounds) or by DynamicVal x every constraint with an antichain of sub-types replaced by the placeholder: same type; known parts equal (whole numbers and exact float64 numerically identical, other numbers equal); every decoded unknown's range includes the original's (nullness, bounds with inclusiveness, byte prefix, length interval) so nothing is narrowed or invented; marked values at any depth are rejected with an error.",
  "trusted: rangeIncludes / c16Same (c16.go); bound: codecTypes x member caps, refinement alphabet of unknownAlphabet()", "§3 C15/C16")
NOT_YET = {}
props = [json.loads(l) for l in open('/verif/properties.jsonl')]
checks = []
na = []
for p in props:
    pid = p["id"]
    if pid in CHECKS:
        lvl, eng, tech, text, note, ref = CHECKS[pid]
        checks.append({
            "property_id": pid,
            "quick_cmd": f"/verif/run.sh {pid} quick",
            "thorough_cmd": f"/verif/run.sh {pid} thorough",
            "evidence_file": f"/verif/evidence/{pid}.json",
            "replay_cmd_template": f"/verif/run.sh {pid} quick --replay {{path}}",
            "engine": eng,
            "level_claimed": {"category": lvl, "text": text, "design_ref": ref},
            "level_note": note,
            "technique": tech,
        })
    else:
        na.append({"property_id": pid, "reason": NOT_YET.get(pid, "check not built yet in this round (planned: bounded exhaustive enumeration, see DESIGN.md §3); not claimed until its check runs clean on the unchanged tree")})
m = {
 "version": 1,
 "setup_cmd": "/verif/setup.sh",
 "hooks": {
   "guard": "verif",
   "enable": "no hook is committed to /repo: the harness reads private state with reflect/unsafe and injects instrumentation (scheduler yield points for C20) with `go build -overlay` generated from the working tree at check time, build tag `verif`",
   "baseline_off_cmd": BASE["cmd"],
   "source_commits": [],
   "add_only": True,
 },
 "engines": [
   {"name": "E1", "path": "/verif/mc", "serves_properties": [c for c in CHECKS if CHECKS[c][1]=="E1"], "kind_free_text": "small-scope exhaustive enumerator: every element of a bounded Cartesian case space, sharded over 16 worker processes, reference model in Go run in lock-step"},
   {"name": "E2", "path": "/verif/mc", "serves_properties": [c for c in CHECKS if CHECKS[c][1]=="E2"], "kind_free_text": "explicit-state breadth-first search over operation histories on the real mutable helpers, reference model advanced in lock-step, states de-duplicated on an internal dump"},
   {"name": "E3", "path": "/verif/mc", "serves_properties": [c for c in CHECKS if CHECKS[c][1]=="E3"], "kind_free_text": "deviation-bounded fault enumeration over encodings in memory-limited journalled worker processes"},
 ],
 "checks": checks,
 "not_applicable": na,
 "notes": "Checks exit 0/1 per contract; exit 2 = harness error (never a verdict). known_findings.jsonl lists genuine defects recorded rather than repaired.",
}
json.dump(m, open('/verif/MANIFEST.json','w'), indent=1)
print("checks:", [c["property_id"] for c in checks], "na:", len(na))
